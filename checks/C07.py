from vcheck import Check


def ctl_count(ds):
    return sum((1 if g < 0 else (g & 7)) for (c, l, g) in ds if c != 0)


def data_count(ds):
    for (c, l, g) in ds:
        if c != 0:
            return 0 if l else 1
    return 0


class C07(Check):
    id = "C07"
    prop_file = "theories/Properties/Properties_C07.v"
    theorems = ("C07_counter_at_most_once", "C07_counter_ready_iff_all", "C07_counter_ready_is_last",
                "C07_mask_at_most_once", "C07_mask_ready_iff_all", "C07_mask_ready_is_last")
    comp = "deps"
    extract_file = "theories/Extract/Extract_Deps.v"
    extracted = ("deps",)
    harness_src = "harness/h_deps.c"
    harness_cflags = ("-DBUILDING_PARSEC",)
    link_parsec = True
    race = True
    level_text = ("Theorems over an atomic-step model of parsec_update_deps_with_counter and _with_mask: for every goal, every set "
                  "of releases obeying the protocol and EVERY schedule (arbitrary list of thread ids, any number of threads), at most "
                  "one release returns ready, one does exactly when all have performed their read-modify-write, and it is the last. "
                  "Tie: the real functions (parsec.c compiled in the harness with yielding atomics) run under the same schedules in "
                  "ucontext coroutines; per-thread results, final dependency word, per-thread step counts and the computed goal are "
                  "compared with the extracted model. Full level for the logic (sequentially consistent atomics).")
    level_note = ("Trusted: Coq kernel, extraction, cosched/interpose.h (yield before every parsec_atomic_* RMW; the plain read of *deps "
                  "belongs to the segment before the yield, as in the model), harness-built task_class/flow descriptors. Assumes SC "
                  "atomics and int32 counters that do not overflow. Conditions are modelled as already-evaluated booleans; the "
                  "iterate_predecessors fallback of the counter goal (non-inline conditions) is not modelled.")
    technique = "Coq invariant proof over all schedules + controlled-schedule differential run (ucontext coroutines, macro-interposed atomics) of the real update_deps functions"
    rule = ("random flow descriptors / goals / release sets and schedules (sequential, round-robin, all-reads-first, random); "
            "non-trivial = at least 2 releases and a schedule that interleaves (not sequential); distinct = case text")
    trusted = ("cosched.h/interpose.h scheduling points; hand-built parsec_task_class_t / parsec_flow_t / parsec_dep_t in harness/h_deps.c",)
    assumptions = ("sequentially consistent atomics (parsec_atomic_* are full-barrier builtins)",
                   "each release targets a distinct flow bit in mask mode and at most goal releases happen in counter mode (runtime protocol)")

    # ------------------------------------------------------------------
    def sched(self, r, nt, maxseg=3):
        kind = r.below(6)
        if kind == 0:      # sequential
            return [t for t in range(nt) for _ in range(maxseg)]
        if kind == 1:      # all first segments, then random
            s = list(range(nt)) + [r.below(nt) for _ in range(r.range(0, 3 * nt))]
            return s
        if kind == 2:      # reverse round robin
            return [t for _ in range(maxseg) for t in reversed(range(nt))]
        if kind == 3:      # two rounds of reads-first in shuffled order
            a = r.shuffle(range(nt))
            return a + a + r.shuffle(range(nt))
        return [r.below(nt) for _ in range(r.range(0, 4 * nt))]

    def flows_txt(self, fl):
        out = [str(len(fl))]
        for (ctl, idx, hasin, ds) in fl:
            out += [str(ctl), str(idx), str(hasin), str(len(ds))]
            for d in ds:
                out += [str(x) for x in d]
        return " ".join(out)

    def rand_deps(self, r, kind):
        n = r.range(0, 4)
        return [(r.pick([-1, 0, 1, 0]), r.below(2), (r.range(0, 3) if (kind and r.chance(1, 3)) else -1)) for _ in range(n)]

    def cases(self):
        r = self.rng
        out = []
        N = 1500 if self.tier == "quick" else 30000
        for i in range(N):
            if r.chance(1, 2):
                # ---- counter mode
                if r.chance(1, 2):
                    g = r.range(1, 10)
                    nt = g if r.chance(5, 6) else r.range(1, g)
                    exp = 1 if nt == g else 0
                    out.append("ctr 0 %d | 0 | %d | %s | %d" % (g, nt, " ".join(map(str, self.sched(r, nt))), exp))
                else:
                    fl = []
                    for _ in range(r.range(1, 5)):
                        ctl = r.below(2)
                        fl.append((ctl, r.below(20), r.below(2), self.rand_deps(r, ctl)))
                    g = sum(ctl_count(ds) if ctl else data_count(ds) for (ctl, _, _, ds) in fl)
                    if 1 <= g <= 12:
                        nt, exp = g, 1
                    else:
                        nt, exp = r.range(1, 4), 0
                    out.append("ctr 1 %d | %s | %d | %s | %d" % (r.range(0, 5), self.flows_txt(fl), nt,
                                                                " ".join(map(str, self.sched(r, nt))), exp))
            else:
                # ---- mask mode
                idx = r.shuffle(range(20))
                nl, nrel, ndec = r.range(0, 3), r.range(1, 6), r.range(0, 2)
                L, R, D = idx[:nl], idx[nl:nl + nrel], idx[nl + nrel:nl + nrel + ndec]
                fl = []
                for i2 in L:     # collection inputs: first active dep is local
                    ds = [(0, r.below(2), -1) for _ in range(r.range(0, 2))] + [(r.pick([-1, 1]), 1, -1)] + self.rand_deps(r, 0)[:2]
                    fl.append((0, i2, 1, ds))
                for i2 in R:     # flows fed by releases: active non-local dep (data) or an active control
                    if r.chance(1, 3):
                        fl.append((1, i2, 0, [(0, 0, -1)] * r.range(0, 2) + [(r.pick([-1, 1]), 0, -1)]))
                    else:
                        fl.append((0, i2, 1, [(0, 1, -1)] * r.range(0, 2) + [(r.pick([-1, 1]), 0, -1)]))
                for i2 in D:     # controls with no active input: count as already satisfied
                    fl.append((1, i2, 0, [(0, 0, -1)] * r.range(0, 3)))
                fl = r.shuffle(fl)
                have = set(L) | set(D)
                goal = sum(1 << b for b in R) | sum(1 << b for b in have if r.chance(2, 3))
                rel = list(R)
                exp = 1
                if r.chance(1, 8):      # protocol-violating stream (diff only)
                    exp = 0
                    k = r.below(3)
                    if k == 0 and len(rel) > 1:
                        rel = rel[:-1]
                    elif k == 1:
                        goal |= 1 << idx[-1]
                    else:
                        rel = rel + [rel[0]]
                out.append("mask 1 %d | %s | %s | %s | %d" % (goal, self.flows_txt(fl), " ".join(map(str, rel)),
                                                               " ".join(map(str, self.sched(r, len(rel), 2))), exp))
        return out

    def race_cases(self, cases):
        # protocol-respecting cases with at least two releases; plain reads of the dependency word are now
        # scheduling points too, so schedules are lengthened
        out = []
        r = self.rng.fork()
        for c in cases:
            f = [x.strip() for x in c.split("|")]
            nt = int(f[2]) if f[0].startswith("ctr") else len(f[2].split())
            if int(f[4]) == 1 and nt >= 2:
                f[3] = " ".join(str(r.below(nt)) for _ in range(r.range(nt, 6 * nt)))
                out.append(" | ".join(f))
        return out

    def nontrivial_key(self, case):
        f = [x.strip() for x in case.split("|")]
        nt = int(f[2]) if f[0].startswith("ctr") else len(f[2].split())
        s = f[3].split()
        if nt < 2 or len(s) < 2:
            return None
        # interleaving: some thread is scheduled again after another one ran in between
        inter = any(s[i] != s[i + 1] and s[i] in s[i + 2:] for i in range(len(s) - 2))
        return case if inter else None

    def dist(self, cases):
        d = {"ctr": 0, "mask": 0, "protocol_respecting": 0, "threads_hist": {}}
        for c in cases:
            f = [x.strip() for x in c.split("|")]
            m = "ctr" if f[0].startswith("ctr") else "mask"
            d[m] += 1
            d["protocol_respecting"] += int(f[4])
            nt = int(f[2]) if m == "ctr" else len(f[2].split())
            d["threads_hist"][str(nt)] = d["threads_hist"].get(str(nt), 0) + 1
        return d

    def oracle(self, case, obs):
        f = [x.strip() for x in case.split("|")]
        if "<deadlock>" in obs:
            return "releases did not complete"
        try:
            ready = [int(x) for x in obs.split("|")[0].split()[1:]]
        except Exception:
            return "unparsable observation " + obs[:80]
        if any(x not in (0, 1) for x in ready):
            return "a release did not return: %s" % ready
        if int(f[4]) == 1 and sum(ready) != 1:
            return "%d releases returned ready (expected exactly one): %s" % (sum(ready), ready)
        return None   # protocol-violating streams (5th field 0) are compared with the model only

    def signature(self, case, obs):
        return case.split()[0] + ("-multi" if obs.split("|")[0].split().count("1") > 1 else "-none")
