from vcheck import Check
import itertools


def parse_case(case):
    f = [x.strip() for x in case.split("|")]
    w = f[0].split()
    return w, [[int(x) for x in s.split()] for s in f[1:]]


def parse_msgs(txt):
    out = []
    for t in txt.split():
        d, a, m = t.split("/")
        out.append((int(d), int(a), int(m)))
    return out


def parse_sys(obs):
    """'0<-1: 1/1/3; 1<0: 2/1/3; 2<1:;' -> [(me, from, [(dst, ann, wmask)])]"""
    recs = []
    if "OVERFLOW" in obs or "<" not in obs:
        raise ValueError("overflow or garbage")
    for part in obs.split(";"):
        part = part.strip()
        if not part:
            continue
        head, rest = part.split(":", 1)
        me, frm = head.split("<")
        recs.append((int(me), int(frm), parse_msgs(rest)))
    return recs


class C13(Check):
    id = "C13"
    prop_file = "theories/Properties/Properties_C13.v"
    theorems = ("C13_activation_exactly_once", "C13_propagation_terminates", "C13_announced_iff",
                "C13_payload_star", "C13_payload_same_or_disjoint", "C13_payload_iff_no_relay_lacks_output",
                "C13_each_output_once", "C13_payload_refuted", "C13_payload_refuted_binomial",
                "C13_bit_mapping_bijective", "C13_unique_parent", "C13_child_predicates_are_the_code")
    gen = ({"file": "parsec/remote_dep.c", "fns": ["remote_dep_bcast_star_child", "remote_dep_bcast_chainpipeline_child",
                                                   "remote_dep_bcast_binomial_child"],
            "out": "theories/Gen/Gen_bcast.v", "fuel": "40%nat"},)
    comp = "bcast"
    extract_file = "theories/Extract/Extract_Bcast.v"
    extracted = ("bcast",)
    harness_src = "harness/h_bcast.c"
    harness_cflags = ("-DBUILDING_PARSEC",)
    link_parsec = True
    level_text = ("Theorems for EVERY nb_nodes < 2^31, root, family of destination sets (one per output, any number of outputs, any "
                  "overlap) and the three topologies over a bit-level model of parsec_remote_dep_activate (rank_bits words, shared "
                  "forwarded mask, idx/my_idx numbering, child predicates), closed over the ranks (a receiver rebuilds the family as "
                  "parsec_gather_collective_pattern does and activates in turn): every rank of the union of the sets other than the root "
                  "receives exactly one activation message, nobody else receives one, the propagation terminates within nb_nodes rounds; "
                  "an output k is announced in a message iff the receiver consumes k and the sender holds k. The payload clause (every "
                  "consumer of k is activated by a message announcing k) is proved for star, and for any topology when the sets are "
                  "pairwise equal or disjoint (root ignored); it is REFUTED for chain/binomial with overlapping different sets "
                  "(C13_payload_refuted, witness N=3, A->{1,2}, B->{2}) and characterised exactly by relay_lacks_output = false. The bit "
                  "mapping is a bijection for every N. Partial only in that transport of the payload (MPI, datatypes) is not modelled.")
    level_note = ("Trusted: Coq kernel, extraction, the harness (fake task class whose iterate_successors enumerates the same family on "
                  "every rank; parsec_ce.send_am/pack/pack_size replaced by recorders; root-side fill mirrored from parsec_release_dep_fct; "
                  "receiver state mirrored from remote_dep_mpi.c; topology stored into remote_dep_bcast_child as parsec_remote_dep_init's "
                  "switch does). Assumes every rank reconstructs the same destination family (C05) and exactly-once delivery (C14).")
    technique = ("Coq proof (bit-array refinement, static tree characterisation of the relay loop, unique-parent argument, level "
                 "counting) + differential run of the real parsec_remote_dep_activate/propagate/pack_dep against the extracted model")
    rule = ("sys: exhaustive families for N<=4 (<=3 outputs) and N=5 (<=2 outputs), all roots, star/chain/binomial; sampled N=5..9, "
            "N around 32/64 bank boundaries up to 200, up to 8 outputs, invalid and DTD topology codes; act: single activations with "
            "arbitrary me/propagation/outgoing masks; bit: rank<->(bank,bit) round trips up to N=2^31-1; child/par: the child "
            "predicates. Non-trivial = sys with a remote destination, or any other kind; distinct = case text")
    trusted = ("harness/h_bcast.c: hand-built parsec_context_t/execution streams/task class; stubbed comm-engine function pointers; "
               "the receiver's pre-propagation state and the root's remote_deps are harness logic mirrored from remote_dep_mpi.c / parsec.c",)
    assumptions = ("every rank reconstructs the same family of destination sets from the task description (C05/PTG semantics)",
                   "reliable exactly-once delivery of activation messages (C14)",
                   "nb_nodes < 2^31, at most 32 outputs per task class (uint32 masks), count_bits equals the number of set bits")

    TOPOS = (0, 1, 2)

    # ------------------------------------------------------------------
    @staticmethod
    def sys_case(n, topo, root, sets):
        return "sys %d %d %d %d | " % (n, topo, root, len(sets)) + " | ".join(" ".join(map(str, sorted(s))) for s in sets)

    def cases(self):
        r = self.rng
        out = []
        quick = self.tier == "quick"
        # -- exhaustive boxes on the closed propagation
        for n in (1, 2, 3, 4):
            subs = [[i for i in range(n) if (m >> i) & 1] for m in range(1 << n)]
            for nout in (1, 2, 3):
                if quick and n == 4 and nout == 3:
                    continue
                for fam in itertools.product(subs, repeat=nout):
                    for root in range(n):
                        for topo in self.TOPOS:
                            out.append(self.sys_case(n, topo, root, fam))
        n = 5
        subs = [[i for i in range(n) if (m >> i) & 1] for m in range(1 << n)]
        for nout in ((1, 2) if not quick else (1,)):
            for fam in itertools.product(subs, repeat=nout):
                for root in range(n):
                    for topo in self.TOPOS:
                        out.append(self.sys_case(n, topo, root, fam))
        nsamp = 6000 if quick else 120000
        for _ in range(nsamp):
            n = r.pick([4, 5, 5, 6, 7, 8, 8, 9, r.range(2, 12)])
            nout = r.pick([1, 2, 2, 3, 3, 3, r.range(1, 8)])
            out.append(self.sys_case(n, r.pick([0, 1, 1, 2, 2, 1, 2, 3, 7, 11, 12]), r.below(n), self.family(r, n, nout)))
        for _ in range(800 if quick else 15000):
            n = r.pick([31, 32, 33, 34, 40, 40, 63, 64, 65, 66, 96, 97, r.range(30, 70), r.range(70, 200)])
            nout = r.pick([1, 2, 2, 3, 3, r.range(1, 8)])
            root = r.pick([0, n - 1, n - 2, n // 2, r.below(n), r.below(n)])
            out.append(self.sys_case(n, r.pick([0, 1, 2, 1, 2, 2]), root, self.family(r, n, nout)))
        # -- single activations with arbitrary masks
        for _ in range(3000 if quick else 40000):
            n = r.pick([2, 3, 4, 5, 6, 8, 33, 40, 65, r.range(2, 80)])
            nout = r.range(1, 5)
            fam = self.family(r, n, nout)
            root, me = r.below(n), r.below(n)
            if r.chance(1, 4):
                me = root
            pm, om = r.below(1 << nout), r.below(1 << nout)
            if r.chance(1, 2):
                pm = (1 << nout) - 1
            out.append("act %d %d %d %d %d %d %d | " % (n, r.pick([0, 1, 2, 1, 2, 5, 10, 12]), root, me, pm, om, nout)
                       + " | ".join(" ".join(map(str, sorted(s))) for s in fam))
        # -- bit mapping
        for n in range(1, 41 if quick else 100):
            for root in sorted({0, n // 2, n - 1}):
                for rank in range(n):
                    out.append("bit %d %d %d" % (n, root, rank))
        for _ in range(2000 if quick else 30000):
            n = r.pick([r.range(1, 200), r.range(1, 5000), r.range(1, 2 ** 31 - 1), 2 ** 31 - 1, 32 * r.range(1, 4000) + r.range(-1, 1)])
            root = r.pick([0, n - 1, r.below(n)])
            rank = r.pick([root, (root + 31) % n, (root + 32) % n, (root + n - 1) % n, r.below(n), 0, n - 1])
            out.append("bit %d %d %d" % (n, root, rank))
        # -- child predicates
        for topo in (0, 1, 2, 3, 12):
            for him in range(0, 70 if quick else 300):
                out.append("par %d %d" % (topo, him))
        for _ in range(300 if quick else 3000):
            out.append("par %d %d" % (r.pick([0, 1, 2]), r.pick([r.range(0, 5000), 2 ** r.range(1, 16) + r.range(-1, 1)])))
        for _ in range(1500 if quick else 20000):
            him = r.pick([r.range(0, 100), r.range(0, 2 ** 31 - 1), 2 ** r.range(1, 30) + r.range(-1, 1)])
            top = 1 << (him.bit_length() - 1) if him > 0 else 0
            me = r.pick([-1, 0, him - top, him - 1, r.range(-1, 100), r.range(-1, max(0, him))])
            out.append("child %d %d %d" % (r.pick([0, 1, 2, 2, 4]), me, him))
        return out

    def family(self, r, n, nout):
        """families aimed at the case splits: equal, nested, disjoint, overlapping, with/without the root"""
        kind = r.below(8)
        allr = list(range(n))
        base = [x for x in allr if r.chance(1, 2)]
        fam = []
        for k in range(nout):
            if kind == 0:
                s = list(base)                                      # all equal
            elif kind == 1:
                s = base[: r.below(len(base) + 1)]                  # nested prefixes
            elif kind == 2:
                s = [x for x in allr if x % nout == k]              # disjoint
            elif kind == 3:
                s = [x for x in base if r.chance(3, 4)]             # subsets of a common base
            elif kind == 4:
                s = allr if r.chance(1, 2) else [x for x in allr if r.chance(1, 4)]
            elif kind == 5:
                lo = r.below(n)
                s = [(lo + j) % n for j in range(r.below(n + 1))]   # an interval wrapping around
            else:
                p = r.pick([1, 2, 3])
                s = [x for x in allr if r.chance(p, 4)]
            fam.append(sorted(set(s)))
        return fam

    def nontrivial_key(self, case):
        w, sets = parse_case(case)
        if w[0] == "sys":
            root = int(w[3])
            return case if any(x != root for s in sets for x in s) else None
        return case

    def dist(self, cases):
        d = {}
        for c in cases:
            k = c.split()[0]
            d[k] = d.get(k, 0) + 1
        sysn = [int(c.split()[1]) for c in cases if c.startswith("sys")]
        d["sys_max_n"] = max(sysn) if sysn else 0
        d["sys_n_over_32"] = sum(1 for x in sysn if x > 32)
        return d

    # --- property oracle on the implementation's observations -------------
    def judge(self, case, obs):
        """(signature, description) or None"""
        w, sets = parse_case(case)
        kind = w[0]
        if kind == "sys":
            n, root, nout = int(w[1]), int(w[3]), int(w[4])
            sets = (sets + [[]] * nout)[:nout]
            try:
                recs = parse_sys(obs)
            except Exception:
                return ("garbage", "unparsable or overflowing observation: " + obs[:100])
            union = set(x for s in sets for x in s) - {root}
            recv = {}
            for me, frm, ms in recs:
                for (d, a, m) in ms:
                    recv.setdefault(d, []).append((me, a))
            for d in recv:
                if d == root:
                    return ("activation-to-root", "the root %d receives an activation" % root)
                if d not in union:
                    return ("spurious-activation", "rank %d receives an activation but consumes no output" % d)
                if len(recv[d]) > 1:
                    return ("dup-activation", "rank %d receives %d activations (from %s)" % (d, len(recv[d]), [s for s, _ in recv[d]]))
            for d in sorted(union):
                if d not in recv:
                    return ("missing-activation", "rank %d consumes an output but is never activated" % d)
            # every activation delivered is processed exactly once by its receiver (harness loop), nothing else runs
            if sorted(me for me, frm, _ in recs[1:]) != sorted(recv):
                return ("garbage", "processed activations do not match the delivered ones")
            for d in sorted(union):
                src, ann = recv[d][0]
                if ann >> nout:
                    return ("spurious-output", "rank %d is announced an output that does not exist (mask %d)" % (d, ann))
                for k in range(nout):
                    if (ann >> k) & 1 and d not in sets[k]:
                        return ("spurious-output", "output %d announced to rank %d which does not consume it" % (k, d))
                    if (ann >> k) & 1 and src != root and src not in sets[k]:
                        return ("announced-not-held", "relay %d announces output %d to rank %d but never holds it" % (src, k, d))
                for k in range(nout):
                    if d in sets[k] and not (ann >> k) & 1:
                        if src != root and src not in sets[k]:
                            return ("relay-lacks-output",
                                    "rank %d consumes output %d but is activated by relay %d which never holds it "
                                    "(announced mask %d)" % (d, k, src, ann))
                        return ("output-not-announced", "rank %d consumes output %d, its activation from %d does not announce it" % (d, k, src))
            return None
        if kind == "act":
            n, root, me = int(w[1]), int(w[3]), int(w[4])
            try:
                ms = parse_msgs(obs.split(":", 1)[1])
            except Exception:
                return ("garbage", "unparsable observation: " + obs[:100])
            union = set(x for s in sets for x in s)
            ds = [d for d, _, _ in ms]
            if len(set(ds)) != len(ds):
                return ("dup-activation", "one activate call sends twice to the same rank: %s" % ds)
            for d in ds:
                if d == root or d == me or d not in union:
                    return ("spurious-activation", "activate on %d sends to %d (root %d)" % (me, d, root))
            return None
        if kind == "bit":
            n, root, rank = int(w[1]), int(w[2]), int(w[3])
            try:
                b, i, back = [int(x) for x in obs.split(":")[1].split()]
            except Exception:
                return ("garbage", "unparsable observation: " + obs[:100])
            if back != rank or not (0 <= i < 32) or not (0 <= b * 32 + i < n):
                return ("bit-mapping", "rank %d -> bank %d bit %d -> rank %d (n=%d root=%d)" % (rank, b, i, back, n, root))
            return None
        if kind == "par":
            him = int(w[2])
            try:
                ps = [int(x) for x in obs.split(":")[1].split()]
            except Exception:
                return ("garbage", "unparsable observation: " + obs[:100])
            if him >= 1 and (len(ps) != 1 or not (0 <= ps[0] < him)):
                return ("tree-parent", "index %d has parents %s under topology %s (exactly one in [0,%d) required)" % (him, ps, w[1], him))
            if him == 0 and [p for p in ps if p > 0 and int(w[1]) in (1, 2)]:
                return ("tree-parent", "index 0 has a parent %s" % ps)
            return None
        return None

    def oracle(self, case, obs):
        j = self.judge(case, obs)
        return j[1] if j else None

    def signature(self, case, obs):
        j = self.judge(case, obs)
        return j[0] if j else "none"

    def search_cases(self):
        out = []
        r = self.rng.fork()
        for n in (3, 4, 5, 6):
            for root in range(n):
                for topo in self.TOPOS:
                    out.append(self.sys_case(n, topo, root, [list(range(n))]))
                    out.append(self.sys_case(n, topo, root, [list(range(n)), list(range(n))]))
                    out.append(self.sys_case(n, topo, root, [[x for x in range(n) if x % 2 == 0], [x for x in range(n) if x % 2 == 1]]))
        for _ in range(3000):
            n = r.range(2, 40)
            out.append(self.sys_case(n, r.pick(self.TOPOS), r.below(n), self.family(r, n, r.range(1, 3))))
        return out
