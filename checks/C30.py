from vcheck import Check

# op codes of the case syntax (harness/h_lifo.c)
POP, TRY, EMP = 1, 2, 3


def parse_case(case):
    f = [x.strip() for x in case.split("|")]
    hd = [int(x) for x in f[0].split()]
    ch, nt, ni, s0 = hd[0], hd[1], hd[2], hd[3:]
    ths = []
    for t in range(nt):
        v = [int(x) for x in f[1 + t].split()]
        k = v[0]
        ths.append((v[1:1 + k], v[2 + k:2 + k + v[1 + k]]))
    sched = [int(x) for x in f[1 + nt].split()]
    return ch, nt, ni, s0, ths, sched


def parse_obs(obs):
    """-> (events [(kind 'i'/'r', t, payload)], stack [ids], cnt, owns [[ids]], steps) ; raises on junk"""
    f = [x.strip() for x in obs.split("|")]
    assert f[0].startswith("hist:") and f[1].startswith("stack:") and f[2].startswith("cnt=")
    ev = []
    for w in f[0][5:].split():
        a, b = w.split(":")
        ev.append((a[0], int(a[1:]), b))
    stack = f[1][6:].split()
    owns = [[int(x) for x in o.split()] for o in f[3][4:].split(";")]
    return ev, stack, int(f[2][4:]), owns, f[4]


class Lin:
    """Wing-Gong search: is the observed history (invocations / responses in real-time
    order) the history of a sequential stack that ends in the observed contents?"""

    def __init__(self, ops, s0, final, budget=300000):
        self.ops = ops            # list of (inv_pos, res_pos, kind, value)
        self.final = tuple(final)
        self.budget = budget
        self.seen = set()
        self.s0 = tuple(s0)
        # a try_pop that returned NULL while another operation was in flight may have lost its CAS
        self.contended = []
        for i, (a, b, k, v) in enumerate(ops):
            self.contended.append(any(j != i and not (d < a or c > b) for j, (c, d, _, _) in enumerate(ops)))

    def apply(self, i, st):
        _, _, k, v = self.ops[i]
        if k == "push":
            return [tuple(v) + st]
        if k == "empty":
            return [st] if v == (len(st) == 0) else []
        if v is None:            # pop / try_pop returned NULL
            out = [st] if len(st) == 0 else []
            if k == "try" and len(st) > 0 and self.contended[i]:
                out = [st]
            return out
        return [st[1:]] if st and st[0] == v else []

    def run(self):
        n = len(self.ops)
        todo = [(frozenset(), self.s0)]
        while todo:
            done, st = todo.pop()
            if len(done) == n:
                if st == self.final:
                    return True
                continue
            if (done, st) in self.seen:
                continue
            self.seen.add((done, st))
            self.budget -= 1
            if self.budget < 0:
                return None
            first_res = min(self.ops[i][1] for i in range(n) if i not in done)
            for i in range(n):
                if i in done or self.ops[i][0] > first_res:
                    continue
                for st2 in self.apply(i, st):
                    todo.append((done | {i}, st2))
        return False


class C30(Check):
    race = True
    id = "C30"
    prop_file = "theories/Properties/Properties_C30.v"
    theorems = ("C30_linearizable", "C30_final_contents", "C30_results_are_abstract_results",
                "C30_lp_within_operation", "C30_pop_returns_top", "C30_chain_keeps_order", "C30_conservation",
                "C30_counter_bound", "C30_without_counter_refuted")
    comp = "lifo"
    extract_file = "theories/Extract/Extract_Lifo.v"
    extracted = ("lifo",)
    harness_src = "harness/h_lifo.c"
    harness_cflags = ("-DBUILDING_PARSEC",)
    link_parsec = True
    level_text = ("Theorems over an atomic-step model of parsec_lifo_push / _chain / _pop / _try_pop / _is_empty (128-bit CAS "
                  "branch of lifo.h): for ANY number of threads, ANY per-thread operation lists, ANY initial contents and EVERY "
                  "schedule, the sequence of linearisation events (successful CAS; NULL read of an empty pop) is a legal history of "
                  "a sequential stack whose state is the list reachable from the head (forward simulation, invariant over all "
                  "schedules); each operation's return value is the one of its linearisation event, which lies between its "
                  "invocation and response; a chained ring goes on top in its order; stack contents plus items held by threads is "
                  "always a permutation of the initial items (no loss, no duplication). The counted pointer is used exactly where "
                  "the code has it: the same model with a pointer-only comparison in pop is refuted by the classic ABA schedule. "
                  "Tie: the real functions (parsec_lifo.c/lifo.h compiled in the harness with yielding atomics) run under the same "
                  "schedules in ucontext coroutines; history, drained contents, head counter, held items and per-thread step "
                  "counts are compared with the extracted model. Full level (sequentially consistent memory).")
    level_note = ("Trusted: Coq kernel, extraction, cosched/interpose.h plus one extra yield at parsec_atomic_rmb defined in "
                  "h_lifo.c, which also makes every CAS a step of its own (yield before and after). Granularity: plain accesses "
                  "belong to the segment that contains them, so 'read head.item, test NULL, read item->list_next' is one step and "
                  "'read head.item, write tail->list_next' is one step (the model is coarser than the hardware there); SC memory; "
                  "the int64 counter does not overflow (it counts successful pops: C30_counter_bound). "
                  "Clients are well behaved by construction (a thread pushes only items it holds). The LLSC and spin-lock branches "
                  "of lifo.h are not compiled in this build and not modelled; nolock variants are modelled on a quiescent LIFO only "
                  "(initial fill, final drain).")
    technique = ("Coq forward-simulation proof (linearisation points, ghost-free: the LP log is replayed on a list) over all schedules "
                 "+ controlled-schedule differential run (ucontext coroutines, macro-interposed atomics) of the real LIFO + "
                 "Wing-Gong linearizability search on the implementation's observed histories")
    rule = ("1..5 threads, <= 8 operations each, pool of 2..7 items (re-pushed after pops; thorough tier adds 6..16 threads); "
            "schedules: sequential, round-robin, bursts, one stalled thread, random, and directed ABA windows (a pop is suspended between its reads and its CAS while others pop and "
            "re-push the same item); non-trivial = at least 2 threads and an interleaving schedule; distinct = case text")
    trusted = ("cosched.h/interpose.h scheduling points, refined in harness/h_lifo.c (yield before and after each CAS, yield at "
               "parsec_atomic_rmb); per-thread item bags and ring construction done by the harness", "python Wing-Gong search of checks/C30.py (oracle only)")
    assumptions = ("sequentially consistent memory (parsec_atomic_* are full-barrier builtins; wmb/rmb are mfence)",
                   "fewer than 2^63 successful pops (int64 ABA counter does not wrap)",
                   "an item is pushed only by the thread that holds it and is in at most one LIFO")

    # ------------------------------------------------------------------
    def fmt(self, ch, ni, s0, ths, sched):
        out = ["%d %d %d %s" % (ch, len(ths), ni, " ".join(map(str, s0)))]
        for own, ops in ths:
            out.append("%d %s %d %s" % (len(own), " ".join(map(str, own)), len(ops), " ".join(map(str, ops))))
        out.append(" ".join(map(str, sched)))
        return " | ".join(" ".join(x.split()) for x in out)

    def rand_ops(self, r, n, bias):
        ops = []
        for _ in range(n):
            k = r.below(20)
            if bias == "pop":
                k = r.pick([0, 1, 2, 3, 4, 5, 10, 11, 15, 19])
            if k < 6:
                ops.append(POP)
            elif k < 9:
                ops.append(TRY)
            elif k < 15:
                ops.append(100 + r.below(3))
            elif k < 19:
                ops.append(200 + r.range(1, 3))
            else:
                ops.append(EMP)
        return ops

    def rand_sched(self, r, nt, nops):
        kind = r.below(6)
        tot = 4 * nops
        if kind == 0:        # sequential
            return [t for t in range(nt) for _ in range(30)]
        if kind == 1:        # round robin (the completion phase does it)
            return []
        if kind == 2:        # bursts
            s = []
            while len(s) < 2 * tot:
                s += [r.below(nt)] * r.range(1, 9)
            return s
        if kind == 3:        # one thread is stalled after 1..2 steps while the others run long bursts
            v = r.below(nt)
            s = [v] * r.range(1, 2)
            while len(s) < tot:
                u = r.below(nt)
                s += [u] * (r.range(3, 12) if u != v else r.range(0, 2))
            return s
        return [r.below(nt) for _ in range(r.range(0, 2 * tot))]

    def aba_case(self, r):
        """the classic window: thread 0 reads counter, item A and A->next = B, then the
        others pop A (and more) and push A back; thread 0's CAS must fail."""
        ni = r.range(2, 6)
        depth = r.range(2, ni)
        items = r.shuffle(range(ni))
        s0, spare = items[:depth], items[depth:]
        npop = r.range(1, min(depth, 3))
        victim = r.pick([POP, POP, TRY])
        v_ops = [victim] + self.rand_ops(r, r.range(0, 2), "")
        # after npop pops the attacker holds [last popped, ..., A, spare]; A is at index npop-1
        variant = r.below(4)
        if variant == 0:        # A goes back on top of what is left
            a_ops = [POP] * npop + [100 + npop - 1]
        elif variant == 1:      # the original contents are restored, item by item
            a_ops = [POP] * npop + [100] * npop
        elif variant == 2:      # something else goes below, then A
            a_ops = [POP] * npop + [100 + npop, 100 + npop - 1]
        else:                   # everything goes back as one ring (reversed order)
            a_ops = [POP] * npop + [200 + npop]
        a_ops += self.rand_ops(r, r.range(0, 2), "")
        ths = [([], v_ops), (spare[:1], a_ops)]
        a_steps = 4 * npop + 3 * (len(a_ops) - npop)
        sched = [0, 0] + [1] * a_steps + [0] * 8
        if r.chance(1, 3):      # a third thread takes part
            ths.append((spare[1:2], self.rand_ops(r, r.range(1, 4), "pop")))
            sched = [0, 0] + [r.pick([1, 1, 2]) for _ in range(a_steps + 8)] + [0] * 8
        return self.fmt(r.below(2), ni, s0, ths, sched)

    def cases(self):
        r = self.rng
        out = []
        # directed: the textbook ABA schedule, first
        out.append(self.fmt(1, 3, [0, 1, 2], [([], [POP]), ([], [POP, POP, 101])],
                            [0, 0] + [1] * 11 + [0] * 6))
        out.append(self.fmt(0, 3, [0, 1, 2], [([], [TRY, POP]), ([], [POP, POP, 101, POP])],
                            [0, 0] + [1] * 11 + [0] * 6))
        N = 2500 if self.tier == "quick" else 60000
        for i in range(N):
            if r.chance(1, 4):
                out.append(self.aba_case(r))
                continue
            nt = r.pick([1, 2, 2, 3, 3, 4, 5])
            ni = r.range(2, 7)
            big = self.tier != "quick" and r.chance(1, 10)      # stress: up to 16 threads, larger pool
            if big:
                nt = r.range(6, 16)
                ni = r.range(4, 16)
            items = r.shuffle(range(ni))
            ns0 = r.range(0, ni)
            s0, rest = items[:ns0], items[ns0:]
            owns = [[] for _ in range(nt)]
            for x in rest:
                owns[r.below(nt)].append(x)
            bias = r.pick(["", "pop"])
            ths = [(owns[t], self.rand_ops(r, r.range(1, 4 if big else 8), bias)) for t in range(nt)]
            nops = sum(len(o) for _, o in ths)
            out.append(self.fmt(r.below(2), ni, s0, ths, self.rand_sched(r, nt, nops)))
        return out

    def search_cases(self):
        r = self.rng.fork()
        return [self.aba_case(r) for _ in range(3000)]

    def race_cases(self, cases):
        # plain accesses to the head and to the items are scheduling points in the race build: lengthen the schedules
        out, r = [], self.rng.fork()
        for c in cases:
            try:
                ch, nt, ni, s0, ths, sched = parse_case(c)
            except Exception:
                continue
            if nt < 2:
                continue
            f = c.split("|")
            f[-1] = " " + " ".join(str(r.below(nt)) for _ in range(r.range(4 * nt, 30 * nt)))
            out.append("|".join(f))
        return out

    def nontrivial_key(self, case):
        try:
            ch, nt, ni, s0, ths, sched = parse_case(case)
        except Exception:
            return None
        if nt < 2:
            return None
        s = sched
        inter = len(s) == 0 or any(s[i] != s[i + 1] and s[i] in s[i + 2:] for i in range(len(s) - 2))
        return case if inter else None

    def dist(self, cases):
        d = {"threads_hist": {}, "ops_total": 0, "with_initial_contents": 0, "chain_ops": 0, "try_pop_ops": 0,
             "lin_search_out_of_budget": getattr(self, "inconclusive", 0)}
        for c in cases:
            try:
                ch, nt, ni, s0, ths, sched = parse_case(c)
            except Exception:
                continue
            d["threads_hist"][str(nt)] = d["threads_hist"].get(str(nt), 0) + 1
            d["with_initial_contents"] += 1 if s0 else 0
            for _, ops in ths:
                d["ops_total"] += len(ops)
                d["chain_ops"] += sum(1 for o in ops if o >= 200)
                d["try_pop_ops"] += sum(1 for o in ops if o == TRY)
        return d

    # ------------------------------------------------------------------
    def oracle(self, case, obs):
        try:
            ch, nt, ni, s0, ths, sched = parse_case(case)
        except Exception:
            return None                      # malformed case: nothing to decide
        if obs.startswith("<bad case>"):
            return None
        if obs.startswith("<crash") or obs.startswith("<exit") or obs.startswith("<impl"):
            return "crash: the LIFO operations did not complete (%s)" % obs[:60]
        if "<deadlock>" in obs:
            return "deadlock: operations did not complete"
        try:
            ev, stack, cnt, owns, _ = parse_obs(obs)
        except Exception:
            return "unparsable observation " + obs[:80]
        if "<cycle>" in stack or "?" in stack:
            return "corrupt: the list reachable from the head is cyclic or leaves the item pool"
        stack = [int(x) for x in stack]
        all0 = sorted(s0 + [x for own, _ in ths for x in own])
        # ---- per thread: every operation answered, in program order; item bags follow the answers
        pend = [None] * nt
        idx = [0] * nt
        bag = [list(own) for own, _ in ths]
        ops = []
        for pos, (k, t, v) in enumerate(ev):
            if t >= nt:
                return "unparsable observation (thread id)"
            if k == "i":
                if pend[t] is not None or idx[t] >= len(ths[t][1]) or int(v) != ths[t][1][idx[t]]:
                    return "unparsable observation (invocation order)"
                pend[t] = (pos, int(v))
            else:
                if pend[t] is None:
                    return "unparsable observation (response without invocation)"
                ipos, o = pend[t]
                pend[t] = None
                idx[t] += 1
                if o in (POP, TRY):
                    if v == "N":
                        ops.append((ipos, pos, "pop" if o == POP else "try", None))
                    else:
                        x = int(v)
                        if x < 0:
                            return "corrupt: pop returned a pointer outside the item pool"
                        if x in bag[t]:
                            return "dup: thread %d popped item %d which it already holds" % (t, x)
                        bag[t].insert(0, x)
                        ops.append((ipos, pos, "pop" if o == POP else "try", x))
                elif o == EMP:
                    ops.append((ipos, pos, "empty", v == "e1"))
                else:
                    xs = [int(x) for x in v[1:].split(".")] if len(v) > 1 else []
                    for x in xs:
                        if x not in bag[t]:
                            return "unparsable observation (pushed an item not held)"
                        bag[t].remove(x)
                    ops.append((ipos, pos, "push", xs))
        if any(p is not None for p in pend) or any(idx[t] != len(ths[t][1]) for t in range(nt)):
            return "deadlock: some operation was not answered"
        # ---- conservation: nothing lost, nothing twice
        now = stack + [x for b in bag for x in b]
        if sorted(now) != all0:
            lost = [x for x in all0 if x not in now]
            dup = sorted(set(x for x in now if now.count(x) > 1))
            if dup:
                return "dup: items %s are in two places (stack %s, held %s)" % (dup, stack, bag)
            return "lost: items %s are neither in the stack nor held (stack %s, held %s)" % (lost, stack, bag)
        if [sorted(b) for b in bag] != [sorted(o) for o in owns]:
            return "unparsable observation (held items differ from the answers)"
        # ---- linearizability of the observed history, ending in the observed contents
        r = Lin(ops, s0, stack).run()
        if r is None:
            self.inconclusive = getattr(self, "inconclusive", 0) + 1
        if r is False:
            return "nonlin: no sequential stack history explains the answers and the final contents %s" % stack
        return None

    def signature(self, case, obs):
        why = self.oracle(case, obs) or "none"
        return why.split(":")[0].split()[0]
