from vcheck import Check, Rng

UPPER, LOWER, FULL = 121, 122, 123
SIZES = (1, 2, 4, 8, 16)          # int8, int16, int, double, double complex
UNAME = {UPPER: "upper", LOWER: "lower", FULL: "full"}


def in_region(uplo, diag, i, j):
    """the mathematical region named by the property: diag != 0 asks for the diagonal"""
    if uplo == UPPER:
        return i <= j if diag else i < j
    if uplo == LOWER:
        return i >= j if diag else i > j
    return True


def expected(uplo, diag, m, n, ld):
    """column-major enumeration of the element offsets of the region"""
    return [i + j * ld for j in range(n) for i in range(m) if in_region(uplo, diag, i, j)]


class C19(Check):
    id = "C19"
    prop_file = "theories/Properties/Properties_C19.v"
    theorems = ("C19_datatype", "C19_triangle", "C19_rectangle", "C19_contiguous", "C19_exactly_once",
                "C19_extent_covers", "C19_region_enum_spec", "C19_column_major_increasing", "C19_adt",
                "C19_triangle_bad_uplo")
    comp = "dtype"
    extract_file = "theories/Extract/Extract_DType.v"
    extracted = ("dtype",)
    harness_src = "harness/h_dtype.c"
    link_parsec = True
    level_text = ("Theorems for every base size sz > 0, every m, n >= 1, ld >= m, every uplo and diag value, resized or not "
                  "(no bound on sizes): the datatype built by parsec_matrix_define_datatype / _triangle / _rectangle / "
                  "_contiguous and the adt shorthands selects, in type order, exactly the bytes of the elements of the named "
                  "region enumerated column-major, each once; lb = 0; extent = ld*n*sz for triangles, ((n-1)*ld+m)*sz for "
                  "unresized rectangles (= ld*n*sz when m = ld), resized*sz when a resize is requested; the extent covers "
                  "the tile when no resize is requested. The model (MPI type maps as byte-block lists with MPI-3.1 "
                  "contiguous/vector/indexed/resized semantics, the C index loops transcribed with their arrays and pointer "
                  "offsets) is tied to the code by packing marker buffers through the real MPI datatype for every point of "
                  "the property's box and all five base sizes; full level.")
    level_note = ("Trusted: Coq kernel, extraction, the harness's marker/MPI_Pack observation, Open MPI's implementation of "
                  "MPI_Type_* and MPI_Pack (its behaviour is compared with the modelled MPI semantics on every case). "
                  "Assumes a basic oldtype (extent = size) and ld*n*sz < 2^31 (no unsigned/int overflow in the C arithmetic).")
    technique = ("Coq proof (list-level semantics of MPI derived datatypes; C loops vs. region enumeration for all sizes) + "
                 "differential run of the real constructors (MPI_Pack of marker buffers, MPI_Type_get_extent) against the "
                 "extracted model + property oracle recomputing the region in Python")
    rule = ("exhaustive over the property's box m, n in 1..12, ld in m..m+3, (uplo, diag) in {upper, lower} x {0, 1} + full, "
            "for base sizes 1, 2, 4, 8, 16 through the public entry (dt); the same box through define_triangle / "
            "define_rectangle directly with rotating base size; adt shorthands; sampled larger tiles (up to 300 rows/cols) "
            "aimed at the clamps (n vs m-diag, mm vs m, m = ld); resized >= 0; malformed uplo / diag / zero-size base type. "
            "Non-trivial = tile with at least 2 elements; distinct = distinct case text")
    trusted = ("harness h_dtype.c: observation by MPI_Pack of 4 marker buffers (byte b holds digit p of b in base 256) and "
               "regrouping of the byte offsets into base elements; MPI singleton init",
               "Open MPI 4.1 datatype engine (MPI_Type_contiguous/vector/indexed/create_resized/commit, MPI_Pack): the "
               "model states the MPI-3.1 semantics of these calls")
    assumptions = ("oldtype is a predefined basic type (extent = size = sz > 0)",
                   "ld*n*sz < 2^31: unsigned int / int arithmetic of matrixtypes.c does not wrap",
                   "diag != 0 means 'with the diagonal' (the reading of the code and of tests/collections/reshape)")

    # ---- generator -------------------------------------------------------
    def cases(self):
        r = self.rng
        out = []
        quick = self.tier == "quick"
        B = 12 if quick else 20
        combos = [(UPPER, 0), (UPPER, 1), (LOWER, 0), (LOWER, 1), (FULL, 0)]
        k = 0
        for m in range(1, B + 1):
            for n in range(1, B + 1):
                for ld in range(m, m + 4):
                    for (uplo, diag) in combos:
                        for sz in SIZES:
                            out.append("dt %d %d %d %d %d %d -1" % (sz, uplo, diag, m, n, ld))
                        k += 1
                        sz = SIZES[k % 5]
                        if uplo != FULL:
                            out.append("tri %d %d %d %d %d %d" % (sz, uplo, diag, m, n, ld))
                        else:
                            out.append("rect %d %d %d %d -1" % (sz, m, n, ld))
                            out.append("rect %d %d %d %d %d" % (sz, m, n, ld, r.pick([ld * n, m * n, ld * n + 3, 1, (n - 1) * ld + m])))
                            out.append("dt %d %d %d %d %d %d %d" % (sz, FULL, 1, m, n, ld, r.pick([ld * n, ld * n + 1, m * n])))
                            out.append("adt 0 %d 0 %d %d %d" % (sz, m, n, ld))
            for sz in SIZES:
                for diag in (0, 1):
                    out.append("adt 1 %d %d %d 0 0" % (sz, diag, m))
                    out.append("adt 2 %d %d %d 0 0" % (sz, diag, m))
                out.append("adt 3 %d 0 %d 0 0" % (sz, m))
        for nb in range(1, 40):
            sz = SIZES[nb % 5]
            out.append("cont %d %d -1" % (sz, nb))
            out.append("cont %d %d %d" % (sz, nb, r.pick([nb, nb + 2, 1, 2 * nb])))
        # larger tiles aimed at the case splits: n against m-diag (lower clamp), column index against m (upper clamp), m = ld
        for _ in range(300 if quick else 3000):
            sz = r.pick(SIZES)
            cap = 60000 // sz                         # elements: keeps the printed lines and the model's lists moderate
            m = r.pick([r.range(1, 40), r.range(13, 300), r.range(1, 3)])
            n = r.pick([m, m - 1, m + 1, m - 2, m + 2, r.range(1, 40), r.range(13, 300), 1])
            n = max(1, n)
            while m * n > cap:
                if m >= n:
                    m = max(1, m // 2)
                else:
                    n = max(1, n // 2)
            ld = r.pick([m, m + 1, m + r.range(0, 3), m + r.range(0, 64)])
            while ld * n * sz > 4000000:
                ld = m
            uplo, diag = r.pick(combos)
            kind = r.below(8)
            if kind <= 3:
                out.append("dt %d %d %d %d %d %d %d" % (sz, uplo, diag, m, n, ld, r.pick([-1, -1, -1, -5, ld * n, m * n + 7])))
            elif kind == 4 and uplo != FULL:
                out.append("tri %d %d %d %d %d %d" % (sz, uplo, diag, m, n, ld))
            elif kind == 5:
                out.append("rect %d %d %d %d %d" % (sz, m, n, ld, r.pick([-1, -1, ld * n, 5])))
            elif kind == 6:
                ak = r.below(4)
                if ak != 0:                      # the square shorthands build an m-by-m tile
                    while m * m > cap:
                        m = max(1, m // 2)
                    ld = max(ld, m)
                out.append("adt %d %d %d %d %d %d" % (ak, sz, diag, m, n, ld))
            else:
                out.append("cont %d %d %d" % (sz, min(cap, m * n), r.pick([-1, -1, m * n + 1])))
        # malformed / out-of-box stream: other uplo and diag values, zero-size base type, resized = 0
        for _ in range(150 if quick else 1500):
            sz = r.pick(SIZES)
            m, n = r.range(1, 9), r.range(1, 9)
            ld = m + r.range(0, 2)
            w = r.below(6)
            if w == 0:
                out.append("tri %d %d %d %d %d %d" % (sz, r.pick([0, 1, 120, 123, 124, -1]), r.below(2), m, n, ld))
            elif w == 1:
                out.append("dt %d %d %d %d %d %d -1" % (sz, r.pick([0, 1, 120, 124, 125, -1]), r.below(2), m, n, ld))
            elif w == 2:
                out.append("dt %d %d %d %d %d %d -1" % (sz, r.pick([UPPER, LOWER]), r.pick([2, -1, 7, 256]), m, n, ld))
            elif w == 3:
                out.append(r.pick(["cont 0 %d -1" % (m * n), "rect 0 %d %d %d -1" % (m, n, ld),
                                   "dt 0 %d 0 %d %d %d -1" % (FULL, m, n, ld), "rect 0 %d %d %d 4" % (m, n, m)]))
            elif w == 4:
                out.append(r.pick(["rect %d %d %d %d 0" % (sz, m, n, ld), "cont %d %d 0" % (sz, m * n),
                                   "dt %d %d 1 %d %d %d 0" % (sz, FULL, m, n, ld)]))
            else:
                out.append("tri %d %d %d %d %d %d" % (sz, r.pick([UPPER, LOWER]), r.pick([2, -1, 3]), m, n, ld))
        return out

    # ---- case decoding -----------------------------------------------------
    @staticmethod
    def decode(case):
        """-> dict(kind, sz, uplo, diag, m, n, ld, rsz) with the effective parameters of the tile, or None"""
        w = case.split()
        try:
            v = [int(x) for x in w[1:]]
        except ValueError:
            return None
        k = w[0]
        if k == "tri" and len(v) == 6:
            return dict(kind=k, sz=v[0], uplo=v[1], diag=v[2], m=v[3], n=v[4], ld=v[5], rsz=-1)
        if k == "rect" and len(v) == 5:
            return dict(kind=k, sz=v[0], uplo=FULL, diag=0, m=v[1], n=v[2], ld=v[3], rsz=v[4])
        if k == "cont" and len(v) == 3:
            return dict(kind=k, sz=v[0], uplo=FULL, diag=0, m=v[1], n=1, ld=v[1], rsz=v[2])
        if k == "dt" and len(v) == 7:
            return dict(kind=k, sz=v[0], uplo=v[1], diag=v[2], m=v[3], n=v[4], ld=v[5], rsz=v[6])
        if k == "adt" and len(v) == 6 and 0 <= v[0] <= 3:
            kind, sz, diag, m, n, ld = v
            if kind == 0:
                return dict(kind=k, sz=sz, uplo=FULL, diag=0, m=m, n=n, ld=ld, rsz=-1)
            return dict(kind=k, sz=sz, uplo={1: UPPER, 2: LOWER, 3: FULL}[kind], diag=diag if kind != 3 else 0,
                        m=m, n=m, ld=m, rsz=-1)
        return None

    def in_box(self, d):
        """inputs the property quantifies over (sizes unbounded here)"""
        return (d is not None and d["sz"] > 0 and d["m"] >= 1 and d["n"] >= 1 and d["ld"] >= d["m"]
                and d["uplo"] in (UPPER, LOWER, FULL) and d["diag"] in (0, 1))

    def nontrivial_key(self, case):
        d = self.decode(case)
        if not self.in_box(d) or d["m"] * d["n"] < 2:
            return None
        return case

    def dist(self, cases):
        out = {}
        mx = 0
        for c in cases:
            k = c.split()[0]
            out[k] = out.get(k, 0) + 1
            d = self.decode(c)
            if d and k != "cont":
                mx = max(mx, d["m"], d["n"])
        out["max_dim"] = mx
        out["in_box"] = sum(1 for c in cases if self.in_box(self.decode(c)))
        return out

    # ---- property oracle on the implementation's observation ----------------
    def judge(self, case, obs):
        """-> (what, message) or None"""
        d = self.decode(case)
        if not self.in_box(d):
            return None                        # outside the property's quantifier: only the correspondence is checked
        if d["kind"] == "tri" and d["uplo"] == FULL:
            return None                        # define_triangle has no FULL
        if obs.startswith("<impl"):
            return ("crash", "the run of the real code stopped before or at this case: " + obs[:80])
        if not obs.startswith("rc=0 "):
            return ("rc", "constructor failed on a valid tile: " + obs[:60])
        try:
            head, rest = obs[len("rc=0 sel="):].split(" lb=", 1) if " lb=" in obs else (None, None)
            toks = head.split()
            f = dict(x.split("=") for x in ("lb=" + rest).split())
            lb, ext, size = int(f["lb"]), int(f["ext"]), int(f["size"])
        except Exception:
            return ("parse", "unparsable observation: " + obs[:80])
        sz, m, n, ld, rsz = d["sz"], d["m"], d["n"], d["ld"], d["rsz"]
        want = expected(d["uplo"], d["diag"], m, n, ld)
        if any(t.startswith("b") or t.startswith("<") for t in toks):
            return ("sel", "the type selects bytes that are not whole base elements: %s" % " ".join(toks[:12]))
        got = [int(t) for t in toks]
        if got != want:
            extra = sorted(set(got) - set(want))[:4]
            miss = sorted(set(want) - set(got))[:4]
            if not extra and not miss:
                why = "right elements in the wrong order or repeated"
            else:
                why = "selected-but-outside %s, missing %s" % (
                    [(e % ld, e // ld) for e in extra], [(e % ld, e // ld) for e in miss])
            return ("sel", "%s %s tile m=%d n=%d ld=%d diag=%d: %s (selects %d elements, region has %d)" % (
                d["kind"], UNAME[d["uplo"]], m, n, ld, d["diag"], why, len(got), len(want)))
        if size != len(want) * sz:
            return ("size", "type size %d, region has %d bytes" % (size, len(want) * sz))
        if lb != 0:
            return ("lb", "lower bound %d, the tile starts at 0" % lb)
        tile = ((n - 1) * ld + m) * sz
        if d["uplo"] == FULL and rsz > 0:
            if ext != rsz * sz:
                return ("ext", "extent %d, requested resize to %d elements = %d bytes" % (ext, rsz, rsz * sz))
        elif rsz < 0 or d["uplo"] != FULL:
            if ext < tile:
                return ("ext", "extent %d does not cover the tile (%d bytes) m=%d n=%d ld=%d" % (ext, tile, m, n, ld))
        for key in ("ret", "elem"):
            if key in f and int(f[key]) != ext:
                return ("ext", "%s=%s differs from the extent %d of the type" % (key, f[key], ext))
        if d["kind"] == "dt" and "ret" not in f:
            return ("parse", "no returned extent in: " + obs[-40:])
        return None

    def oracle(self, case, obs):
        j = self.judge(case, obs)
        return j[1] if j else None

    def signature(self, case, obs):
        d = self.decode(case)
        j = self.judge(case, obs)
        if d is None:
            return "bad-case"
        shape = "tall" if d["m"] > d["n"] else ("wide" if d["m"] < d["n"] else "square")
        return "%s-%s-diag%d-%s-%s" % (d["kind"], UNAME.get(d["uplo"], "u%d" % d["uplo"]), 1 if d["diag"] else 0,
                                       shape, j[0] if j else "none")

    def search_cases(self):
        out = []
        for m in range(1, 17):
            for n in range(1, 17):
                for ld in (m, m + 1, m + 5):
                    for (uplo, diag) in [(UPPER, 0), (UPPER, 1), (LOWER, 0), (LOWER, 1), (FULL, 0)]:
                        out.append("dt 8 %d %d %d %d %d -1" % (uplo, diag, m, n, ld))
                        if uplo != FULL:
                            out.append("tri 4 %d %d %d %d %d" % (uplo, diag, m, n, ld))
                        else:
                            out.append("rect 4 %d %d %d -1" % (m, n, ld))
                            out.append("rect 2 %d %d %d %d" % (m, n, ld, ld * n))
        return out
