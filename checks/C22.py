"""C22 — Matrix operators visit each tile once and reduce correctly (component ops).

Model side: Gen/Gen_ops.v is REGENERATED on every run from the repository's apply.jdf, reduce.jdf,
reduce_col.jdf, reduce_row.jdf, apply_wrapper.c and reduce_wrapper.c by tools/jdf2ast.py (a refusal
is a broken obligation); the theorems of Properties_C22.v are re-checked against it; the extracted
functions are run by ocaml/d_ops.ml.

Implementation side (driven from here): harness/h_ops.c linked with libparsec built from the
repository under test.  One process (or one mpiexec job of 2..4 ranks) per (ranks, threads,
scheduler) group runs all the cases of the group with logging operators; cases that are expected to
hang or crash (reduce_col / reduce_row, map_operator on a process without tiles) get a process of
their own.  The reduction tree of reduce.jdf is exercised twice: as shipped in libparsec (stdout
of its printf BODY gives the executed instances) and through a copy of the repository's reduce.jdf
whose BODY — a printf in the repository — is replaced by a combining, logging body (values flow
along the dependencies of the CURRENT text, compiled by the CURRENT parsec-ptgpp).
"""
import concurrent.futures
import os
import re
import shutil
import sys

import vcheck
from vcheck import Check, Failure, run, log

UPPER, LOWER, FULL = 121, 122, 123
SCHEDS = ("lfq", "ll", "gd", "ap", "ltq", "lhq", "pbq", "rnd", "llp", "ip", "spq")
MPI_ENV = {"OMPI_MCA_btl": "self,vader", "OMPI_MCA_pml": "ob1", "OMPI_MCA_rmaps_base_oversubscribe": "1",
           "OMPI_MCA_mpi_yield_when_idle": "1", "OMPI_MCA_hwloc_base_binding_policy": "none",
           "PARSEC_MCA_runtime_warn_slow_binding": "0"}
SINGLE_ENV = {"OMPI_MCA_ess_singleton_isolated": "1", "OMPI_MCA_btl": "self", "OMPI_MCA_pml": "ob1",
              "PARSEC_MCA_runtime_warn_slow_binding": "0"}
LOG_BODY = "BODY\n{\n    ops_reduce_body(l, p, A, B, C);\n}\nEND"


def head_tail(case):
    hd, _, tl = case.partition("|")
    return hd.split(), tl.split()


def owner(P, Q, m, n):
    return (m % P) * Q + (n % Q)


def in_region(uplo, m, n):
    return m <= n if uplo == UPPER else (n <= m if uplo == LOWER else True)


def ekey(e):
    out = []
    for x in re.split(r"[,:]", e.rstrip("!")):
        try:
            out.append(int(x))
        except ValueError:
            out.append(1 << 40)
    return out


class C22(Check):
    id = "C22"
    prop_file = "theories/Properties/Properties_C22.v"
    theorems = ("C22_apply_exactly_once", "C22_apply_uplo_argument", "C22_apply_on_tile",
                "C22_map_never_twice", "C22_map_exactly_once", "C22_map_progress", "C22_map_completion_refuted",
                "C22_reduce_leaves", "C22_reduce_root_fold", "C22_reduce_root_output", "C22_reduce_no_operator",
                "C22_reduce_in_matrix_refuted", "C22_reduce_col_refuted", "C22_reduce_row_refuted",
                "C22_reduce_col_dangling_witness")
    comp = "ops"
    extract_file = "theories/Extract/Extract_Ops.v"
    extracted = ("ops",)
    harness_src = "harness/h_ops.c"
    link_parsec = True
    run_timeout = int(os.environ.get("VERIF_OPS_TIMEOUT", "240"))
    jobs = int(os.environ.get("VERIF_OPS_JOBS", "4"))
    max_incomplete = 2
    model_fixed = 0     # 1 once notes/findings/C22-map-operator-termination.patch is in /repo (the model then follows the repaired code)
    level_text = ("apply.jdf and map_operator.c: full on the model — for every uplo in {upper, lower, full} and ALL mt, nt the operator "
                  "calls of APPLY_L, APPLY_U, APPLY_DIAG are a permutation of the region's tile list (each tile exactly once), with the "
                  "documented uplo argument and placement/data on the tile itself; for ALL shapes, core counts, ownership predicates and "
                  "ALL interleavings of the startup function and the task chains of map_operator.c no tile is visited twice, only local "
                  "tiles are visited, a complete run visits exactly the local tiles, and every step of an unfinished agent decreases a "
                  "measure.  reduce.jdf: partial — for ALL MT >= 1 the tree named by the input dependencies has every source tile as a leaf "
                  "exactly once (in order), its inner nodes are instances of the execution space, the root writes R(0,0) and, with an "
                  "associative operator combined in the bodies, carries the sequential fold (commutativity not needed); the shipped BODY is "
                  "a printf (no operator), so the value statement is about the dependency structure only.  reduce_col/reduce_row as "
                  "instantiated by parsec_reduce_col_New/parsec_reduce_row_New: refuted (operator never applied; for every shape an instance "
                  "outside the matrix; tasks waiting for instances that do not exist).  The apply/reduce definitions are translated from the "
                  "current .jdf and wrapper text on every run (tools/jdf2ast.py); the runtime statement is tied by observation: logging "
                  "operators on random shapes, uplo, 1..4 ranks, several thread counts and schedulers.")
    level_note = ("Trusted: tools/jdf2ast.py (parser of the JDF subset; refuses anything else), harness/h_ops.c and the merge of the per-rank "
                  "logs in checks/C22.py, the substituted BODY of reduce.jdf (C := A op B, slot-wise sum/max/sum of squares/count/min/max index). "
                  "That every instance of an execution space runs exactly once and after its predecessors is C01's theorem (not re-proved "
                  "for these programs: reduce.jdf is not a well-formed program in C01's sense, see the finding); map_operator: one virtual "
                  "process (nb_vp = 1), a task created by the iterator is executed exactly once by the scheduler (C08).")
    technique = ("Coq proofs over definitions translated from the JDF text on every run + hand model of map_operator.c as a transition "
                 "system (invariant over every interleaving, measure) + differential runs of the real runtime with logging operators "
                 "against the extracted model")
    rule = ("apply: uplo x random shapes mt, nt <= 12 (rows, columns, squares, wide, tall), tile sizes 1..3, P x Q block-cyclic over 1..4 "
            "ranks, threads 1..8, random scheduler; map: same shapes, plus a process without tiles and a stored grid larger than the "
            "matrix (own process); reduce: MT = 1..12 and random up to 40 with random tile values, as shipped (instances) and with the "
            "logging body (values); reduce_col/reduce_row: small shapes, own process.  Non-trivial = at least two tiles; distinct = case text")
    trusted = ("tools/jdf2ast.py: JDF/wrapper text -> Gallina (execution spaces, placements, dependencies, operator call of the BODY)",
               "the logging BODY substituted into a copy of reduce.jdf (the repository's BODY is a printf)",
               "block-cyclic ownership formula (m mod P)*Q + (n mod Q) in the model (C20 proves it for twoDBC_rank_of)")
    assumptions = ("every instance of a PTG execution space is executed exactly once, after its predecessors (C01), and every task handed to the "
                   "scheduler is executed exactly once (C08)",
                   "no int overflow: all indices and 2^(depth+1) below 2^30; (int)ceil(log(mt)/log(2.0)) = ceil(log2 mt) (checked for mt < 2^26 "
                   "and printed by the harness next to the model's value)",
                   "map_operator: one virtual process; the operator is associative for the fold statement of reduce")

    # ------------------------------------------------------------------ translation
    def pregen(self):
        fails = []
        cmd = [sys.executable, os.path.join(vcheck.VERIF, "tools/jdf2ast.py"), "--repo", vcheck.REPO,
               "--out", os.path.join(vcheck.COQ, "theories/Gen/Gen_ops.v")]
        with vcheck.Lock("coq"):
            rc, o, e = run(cmd, timeout=120)
        if rc != 0:
            fails.append(Failure("proof", "tools/jdf2ast.py could not translate the JDF files / wrappers of parsec/data_dist/matrix",
                                 (o + e)[-1500:]))
        return fails

    # ------------------------------------------------------------------------ build
    def workdir(self):
        return os.path.join(vcheck.WORK, "ops" + vcheck._SFX)

    def build_sides(self):
        wd = self.workdir()
        os.makedirs(wd, exist_ok=True)
        pre = []
        ok, msg = vcheck.ensure_parsec()
        if not ok:
            return [Failure("build", "PaRSEC does not build from /repo", msg)]
        # reduce.jdf of the repository with the BODY replaced by the logging body
        src = os.path.join(vcheck.REPO, "parsec/data_dist/matrix/reduce.jdf")
        try:
            txt = open(src).read()
            new, n = re.subn(r"^BODY\b.*?^END\b", LOG_BODY, txt, flags=re.S | re.M)
            if n != 1 or "%{" not in new:
                raise ValueError("expected one BODY ... END and a prologue, found %d" % n)
            new = new.replace("%{", "%{\nextern void ops_reduce_body(int l, int p, const void *A, const void *B, void *C);\n", 1)
        except Exception as ex:
            return [Failure("correspondence", "reduce.jdf no longer has the shape the harness instruments", str(ex))]
        jdf = os.path.join(wd, "opsrl.jdf")
        with vcheck.Lock("ops-build" + vcheck._SFX):
            for fn in ("opsrl.c", "opsrl.h", "opsrl.o"):
                if os.path.exists(os.path.join(wd, fn)):
                    os.remove(os.path.join(wd, fn))
            with open(jdf, "w") as f:
                f.write(new)
            ptgpp = os.path.join(vcheck.PBUILD, "parsec/interfaces/ptg/ptg-compiler/parsec-ptgpp")
            rc, o, e = run([ptgpp, "-E", "-i", "opsrl.jdf", "-o", "opsrl", "-f", "opsrl"], cwd=wd, timeout=120)
            if rc != 0 or not os.path.exists(os.path.join(wd, "opsrl.c")):
                return [Failure("correspondence", "parsec-ptgpp rejects reduce.jdf (with the logging BODY)", (o + e)[-2000:])]
            rc, o, e = run(["cc"] + vcheck.harness_cflags() + ["-O0", "-g0", "-w", "-I" + wd, "-c", "opsrl.c", "-o", "opsrl.o"],
                           cwd=wd, timeout=300)
            if rc != 0:
                return [Failure("correspondence", "the C generated from reduce.jdf does not compile", (o + e)[-2000:])]
        self.harness_cflags = ("-I" + wd,)
        self.harness_ldflags = (os.path.join(wd, "opsrl.o"), "-lm")
        return pre + Check.build_sides(self)

    # ------------------------------------------------------------------------ cases
    def shapes(self, r, k):
        out = [(1, 1), (1, 5), (5, 1), (2, 2), (3, 3), (4, 7), (7, 4), (12, 12), (1, 12), (12, 1), (2, 3), (3, 2)]
        out = r.shuffle(out)[:max(0, min(len(out), k // 2))]
        while len(out) < k:
            out.append((r.range(1, 12), r.range(1, 12)))
        return out

    def grids(self, R):
        return [(p, R // p) for p in range(1, R + 1) if R % p == 0]

    def cases(self):
        r = self.rng
        quick = self.tier == "quick"
        out = []
        cfgs = [(1, 1), (1, r.pick([2, 3, 4])), (1, 8), (2, r.pick([1, 2])), (3, r.pick([1, 2])), (4, r.pick([1, 2, 3]))]
        if not quick:
            cfgs += [(1, 16), (2, 4), (3, 3), (4, 4), (2, 8), (1, 5)]
        napply = 10 if quick else 60
        nmap = 8 if quick else 50
        for (R, T) in cfgs:
            S = r.pick(SCHEDS)
            for (mt, nt) in self.shapes(r, napply):
                P, Q = r.pick(self.grids(R))
                uplo = r.pick([UPPER, LOWER, FULL])
                out.append("apply %d %d %s %d %d %d %d %d %d %d" % (R, T, S, uplo, mt, nt, r.range(1, 3), r.range(1, 3), P, Q))
            # every uplo on one small square and one rectangular shape
            for uplo in (UPPER, LOWER, FULL):
                P, Q = r.pick(self.grids(R))
                mt, nt = r.pick([(3, 3), (4, 4), (2, 5), (5, 2), (3, 4), (4, 3)])
                out.append("apply %d %d %s %d %d %d 2 2 %d %d" % (R, T, S, uplo, mt, nt, P, Q))
            for (mt, nt) in self.shapes(r, nmap):
                P, Q = r.pick(self.grids(R))
                mt, nt = max(mt, P), max(nt, Q)      # every process owns a tile (the other situation is a directed case)
                sched = [r.below(T + 2) for _ in range(r.range(0, 30))]
                out.append("map %d %d %s %d %d %d %d %d %d %d %d %d | %s" % (R, T, S, mt, nt, mt, nt, r.range(1, 3), r.range(1, 3), P, Q, self.model_fixed,
                                                                     " ".join(map(str, sched))))
        # reduce.jdf: one process
        for T in ([1, 4] if quick else [1, 2, 4, 8]):
            S = r.pick(SCHEDS)
            mts = list(range(1, 13 if quick else 33)) + [r.range(13, 40) for _ in range(3 if quick else 20)]
            for MT in mts:
                mb, nb = r.pick([(2, 3), (3, 2), (6, 1), (1, 6), (3, 3), (2, 4)])
                vals = [r.range(0, 1000) for _ in range(MT + 1)]
                out.append("reduce 1 %d %s %d %d %d | %s" % (T, S, MT, mb, nb, " ".join(map(str, vals))))
            for MT in ([1, 2, 3, 4, 7, 8, 9, 16, 17] if quick else list(range(1, 34))):
                out.append("reducelib 1 %d %s %d 2 3" % (T, S, MT))
        # directed cases run in a process of their own (findings: see notes/findings/C22-*.md)
        sk = [(2, 2), (3, 3), (4, 4), (2, 4), (4, 2), (5, 5), (3, 5), (8, 2)]
        for (mt, nt) in r.shuffle(sk)[:(1 if quick else 4)]:
            out.append("rcol 1 %d %s %d %d 2 2" % (r.pick([1, 2]), r.pick(SCHEDS), mt, nt))
        for (mt, nt) in r.shuffle(sk)[:(1 if quick else 4)]:
            out.append("rrow 1 %d %s %d %d 2 2" % (r.pick([1, 2]), r.pick(SCHEDS), mt, nt))
        # map_operator on a process that owns no tile / on the leading part of a larger stored grid
        out.append("map 2 %d %s 1 1 1 1 2 2 1 2 %d | 0 1" % (r.pick([1, 2]), r.pick(SCHEDS), self.model_fixed))
        if not quick:
            out.append("map 4 1 %s 2 3 2 3 1 1 2 2 %d | 0" % (r.pick(SCHEDS), self.model_fixed))
            out.append("map 3 2 %s 2 2 2 2 2 2 3 1 %d | 1 0" % (r.pick(SCHEDS), self.model_fixed))
        out.append("map 1 %d %s 2 2 3 3 2 2 1 1 %d | 0 1 1" % (r.pick([1, 2]), r.pick(SCHEDS), self.model_fixed))
        return out

    def search_cases(self):
        out = []
        for uplo in (UPPER, LOWER, FULL):
            for mt in range(1, 6):
                for nt in range(1, 6):
                    out.append("apply 1 2 lfq %d %d %d 2 2 1 1" % (uplo, mt, nt))
        for mt in range(1, 6):
            for nt in range(1, 6):
                out.append("map 1 2 lfq %d %d %d %d 2 2 1 1 %d | 0 1 2" % (mt, nt, mt, nt, self.model_fixed))
                out.append("map 2 2 lfq %d %d %d %d 2 2 2 1 %d | 0 1 2" % (mt + 1, nt, mt + 1, nt, self.model_fixed))
        for MT in range(1, 25):
            out.append("reduce 1 2 lfq %d 2 3 | %s" % (MT, " ".join(str((7 * i * i + 3) % 1000) for i in range(MT + 1))))
        return out

    def nontrivial_key(self, case):
        w, _ = head_tail(case)
        try:
            if w[0] == "apply":
                return case if int(w[5]) * int(w[6]) >= 2 else None
            if w[0] == "map":
                return case if int(w[4]) * int(w[5]) >= 2 else None
            if w[0] in ("reduce", "reducelib"):
                return case if int(w[4]) >= 2 else None
            return case
        except Exception:
            return None

    def dist(self, cases):
        d = {"kinds": {}, "ranks": {}, "threads": {}, "schedulers": {}, "uplo": {}, "max_mt": 0, "max_nt": 0, "max_MT": 0}
        for c in cases:
            w, _ = head_tail(c)
            if len(w) < 5:
                continue
            d["kinds"][w[0]] = d["kinds"].get(w[0], 0) + 1
            d["ranks"][w[1]] = d["ranks"].get(w[1], 0) + 1
            d["threads"][w[2]] = d["threads"].get(w[2], 0) + 1
            d["schedulers"][w[3]] = d["schedulers"].get(w[3], 0) + 1
            if w[0] == "apply":
                d["uplo"][w[4]] = d["uplo"].get(w[4], 0) + 1
                d["max_mt"], d["max_nt"] = max(d["max_mt"], int(w[5])), max(d["max_nt"], int(w[6]))
            elif w[0] == "map":
                d["max_mt"], d["max_nt"] = max(d["max_mt"], int(w[4])), max(d["max_nt"], int(w[5]))
            elif w[0] in ("reduce", "reducelib"):
                d["max_MT"] = max(d["max_MT"], int(w[4]))
        return d

    # ------------------------------------------------------------------- running
    def isolated(self, case):
        """cases that may not complete get a process of their own"""
        w, _ = head_tail(case)
        if w[0] in ("rcol", "rrow"):
            return True
        if w[0] == "map":
            R, mt, nt, smt, snt, P, Q = int(w[1]), int(w[4]), int(w[5]), int(w[6]), int(w[7]), int(w[10]), int(w[11])
            if (smt, snt) != (mt, nt):
                return True
            owners = {owner(P, Q, m, n) for m in range(smt) for n in range(snt)}
            return len(owners) < R
        return False

    def run_group(self, tag, gi, cases, watchdog):
        """-> list of merged observation lines"""
        w0, _ = head_tail(cases[0])
        R = int(w0[1])
        gd = os.path.join(self.workdir(), "%s-%d" % (tag, self.seed), "g%03d" % gi)
        shutil.rmtree(gd, ignore_errors=True)
        os.makedirs(gd)
        cf = os.path.join(gd, "cases.txt")
        with open(cf, "w") as f:
            for c in cases:
                f.write(c + "\n")
        prefix = os.path.join(gd, "out")
        env = dict(os.environ)
        env["H_OPS_WATCHDOG"] = str(watchdog)
        first, restarts, incomplete, stop_at = 0, 0, 0, None
        per = {}
        while first < len(cases) and restarts <= len(cases) + 3:
            args = [self.hbin(), cf, prefix, str(first)]
            if R > 1:
                env.update(MPI_ENV)
                args = ["mpiexec", "--allow-run-as-root", "--oversubscribe", "--bind-to", "none", "-n", str(R)] + args
            else:
                env.update(SINGLE_ENV)
            rc, o, e = run(args, timeout=self.run_timeout, env=env, cwd=gd)
            per = {}
            for rk in range(R):
                p = "%s.%d" % (prefix, rk)
                if os.path.exists(p):
                    for line in open(p, errors="replace"):
                        m = re.match(r"k (\d+) ?(.*)$", line.rstrip("\n"))
                        if m:
                            per.setdefault(int(m.group(1)), {})[rk] = m.group(2)
            nxt = first
            while nxt < len(cases) and len(per.get(nxt, {})) == R and not any(
                    v in ("HANG", "CRASH") or "end=hang" in v or "end=crash" in v for v in per[nxt].values()):
                nxt += 1
            if nxt >= len(cases):
                break
            if rc == 0 and nxt == first and not per.get(nxt):
                # nothing was produced and no error: start-up problem, try again a few times
                restarts += 1
                if restarts > 3:
                    break
                continue
            if nxt < len(cases):
                log("%s: group %d case %d did not complete (rc=%d): %s ; stderr: %s" % (
                    self.id, gi, nxt, rc, per.get(nxt), e.strip()[-300:].replace("\n", " | ")))
            first = nxt + 1
            restarts += 1
            incomplete += 1
            if incomplete >= self.max_incomplete and first < len(cases):
                stop_at = first      # a hang costs a watchdog period and a restart: do not pay it for every case of the group
                break
        lines = [self.merge(c, per.get(i, {}), R) if stop_at is None or i < stop_at
                 else "<not run: %d earlier cases of this group did not complete>" % incomplete
                 for i, c in enumerate(cases)]
        if len(cases) > 1:
            # a case that did not complete inside a group is confirmed alone, with a longer watchdog (a loaded machine is not a hang)
            for i, c in enumerate(cases):
                if (stop_at is None or i < stop_at) and (len(per.get(i, {})) < R or any(
                        v in ("HANG", "CRASH") or "end=hang" in v for v in per[i].values())):
                    lines[i] = self.run_group(tag + "-confirm", gi * 1000 + i, [c], 25)[0]
        return lines

    def merge(self, case, ranks, R):
        w, _ = head_tail(case)
        kind = w[0]
        missing = [rk for rk in range(R) if rk not in ranks]
        if kind in ("rcol", "rrow"):
            v = ranks.get(0)
            if v is None:
                return "ops=? end=undef"
            return re.sub(r"end=(crash|hang)", "end=undef", v)
        if kind in ("reduce", "reducelib"):
            return ranks.get(0, "<no output>")
        sec = {}
        status = []
        for rk in range(R):
            v = ranks.get(rk)
            if v is None or v in ("HANG", "CRASH"):
                status.append((rk, v or "missing"))
                continue
            for part in v.split(" | "):
                t = part.split()
                if not t:
                    continue
                if t[0] in ("A", "V", "D"):
                    sec.setdefault(t[0], []).extend(t[1:])
                elif t[0].startswith("end="):
                    if t[0] != "end=ok":
                        status.append((rk, t[0][4:]))
                else:
                    status.append((rk, part))
        first = "A" if kind == "apply" else "V"
        line = "%s%s | D%s" % (first, "".join(" " + x for x in sorted(sec.get(first, []), key=ekey)),
                               "".join(" " + x for x in sorted(sec.get("D", []), key=ekey)))
        if kind == "map":
            hung = [rk for rk, s in status if s in ("hang", "HANG", "missing")]
            other = [(rk, s) for rk, s in status if s not in ("hang", "HANG", "missing")]
            line += " | end=" + ("ok" if not status else ("hang@" + ",".join(map(str, sorted(hung))) if hung and not other
                                                            else "bad@" + ";".join("%d:%s" % x for x in status)))
        elif status:
            line += " | bad@" + ";".join("%d:%s" % x for x in status)
        return line

    def run_impl(self, casefile, n):
        cases = [l.rstrip("\n") for l in open(casefile) if l.strip() and not l.startswith("#")]
        tag = os.path.basename(casefile).split("-")[1] if "-" in os.path.basename(casefile) else "x"
        groups, order = {}, []
        for i, c in enumerate(cases):
            w, _ = head_tail(c)
            if len(w) < 4:
                key = ("bad", i)
            elif self.isolated(c):
                key = ("iso", i)
            else:
                key = (w[1], w[2], w[3])
            if key not in groups:
                groups[key] = []
                order.append(key)
            groups[key].append(i)
        out = [None] * len(cases)

        def work(gi, key):
            idx = groups[key]
            if key[0] == "bad":
                return idx, ["<bad case>"]
            return idx, self.run_group(tag, gi, [cases[i] for i in idx], 6 if key[0] == "iso" else 12)
        with concurrent.futures.ThreadPoolExecutor(max_workers=self.jobs) as ex:
            futs = [ex.submit(work, gi, key) for gi, key in enumerate(order)]
            for f in concurrent.futures.as_completed(futs):
                try:
                    idx, lines = f.result()
                except Exception as exn:
                    log("%s: group failed: %s" % (self.id, exn))
                    continue
                for i, l in zip(idx, lines):
                    out[i] = l
        return ([o if o is not None else "<impl missing>" for o in out] + ["<impl missing>"] * n)[:n]

    # -------------------------------------------------------------------- oracle
    def oracle(self, case, obs):
        w, tl = head_tail(case)
        kind = w[0]
        if obs.startswith("<not run"):
            return None
        if obs.startswith("<") or "bad@" in obs:
            return "the operation did not complete normally: " + obs[:120]
        try:
            if kind == "apply":
                uplo, mt, nt, P, Q = int(w[4]), int(w[5]), int(w[6]), int(w[9]), int(w[10])
                parts = obs.split(" | ")
                calls = parts[0].split()[1:]
                touched = parts[1].split()[1:]
                want = sorted((m, n) for m in range(mt) for n in range(nt) if in_region(uplo, m, n))
                got = []
                for e in calls:
                    if e.endswith("!"):
                        return "operator called on (%s) with a pointer that is not that tile" % e
                    m, n, u, rk = (int(x) for x in e.split(","))
                    got.append((m, n))
                    if u != (uplo if m == n else FULL):
                        return "tile (%d,%d): operator got uplo=%d, expected %d" % (m, n, u, uplo if m == n else FULL)
                if sorted(got) != want:
                    extra = sorted(set(x for x in got if got.count(x) > 1))
                    miss = sorted(set(want) - set(got))
                    out = sorted(set(got) - set(want))
                    return "apply uplo=%d %dx%d: tiles visited twice %s, never %s, outside the region %s" % (uplo, mt, nt, extra[:4], miss[:4], out[:4])
                td = {}
                for e in touched:
                    k, d = e.split(":")
                    td[tuple(int(x) for x in k.split(","))] = d
                for t in want:
                    if td.get(t) != "1":
                        return "tile %s modified %s times" % (t, td.get(t, "0"))
                if set(td) - set(want):
                    return "tiles outside the region were modified: %s" % sorted(set(td) - set(want))[:4]
                return None
            if kind == "map":
                mt, nt, P, Q = int(w[4]), int(w[5]), int(w[10]), int(w[11])
                parts = obs.split(" | ")
                vis = parts[0].split()[1:]
                touched = parts[1].split()[1:]
                end = parts[2] if len(parts) > 2 else "end=?"
                got = []
                for e in vis:
                    if e.endswith("!"):
                        return "map operator called on (%s) with pointers that are not that tile" % e
                    m, n, rk = (int(x) for x in e.split(","))
                    got.append((m, n))
                    if rk != owner(P, Q, m, n):
                        return "tile (%d,%d) visited on rank %d, owner is %d" % (m, n, rk, owner(P, Q, m, n))
                want = sorted((m, n) for m in range(mt) for n in range(nt))
                if sorted(got) != want:
                    extra = sorted(set(x for x in got if got.count(x) > 1))
                    miss = sorted(set(want) - set(got))
                    return "map %dx%d: tiles visited twice %s, never %s, outside %s" % (mt, nt, extra[:4], miss[:4], sorted(set(got) - set(want))[:4])
                for e in touched:
                    if not e.endswith(":1"):
                        return "destination tile %s modified more than once" % e
                if end != "end=ok":
                    return "every tile was visited once but the map_operator taskpool never completes (%s)" % end
                return None
            if kind == "reduce":
                MT = int(w[4])
                vals = [int(x) for x in tl][:MT]
                m = re.search(r"\| R (\S+)", obs)
                if not m:
                    return "no result: " + obs[:100]
                want = "%d,%d,%d,%d,%d,%d" % (0, MT - 1, MT, sum(vals), max(vals), sum(v * v for v in vals))
                if m.group(1) != want:
                    return "reduction over %d tiles delivered lo,hi,count,sum,max,sumsq = %s, the sequential fold is %s" % (MT, m.group(1), want)
                if ":null" in obs:
                    return "a reduction task ran without its input A"
                return None
            if kind == "reducelib":
                MT = int(w[4])
                inst = obs.split(" | ")[0].split()[1:]
                if len(set(inst)) != len(inst):
                    return "an instance of reduce ran twice: " + " ".join(sorted(x for x in set(inst) if inst.count(x) > 1))
                for i in range(MT):
                    if "1,%d" % (i // 2) not in inst:
                        return "no level-1 task covers tile %d" % i
                depth = (MT - 1).bit_length()
                if "%d,0" % (depth + 1) not in inst:
                    return "the root reduce(%d,0) did not run" % (depth + 1)
                return None
            if kind in ("rcol", "rrow"):
                mt, nt = int(w[4]), int(w[5])
                need = (mt - 1) * nt if kind == "rcol" else mt * (nt - 1)
                m = re.match(r"ops=(\S+) end=(\S+)", obs)
                if not m:
                    return "unparsable: " + obs[:80]
                if m.group(2) != "ok":
                    return "parsec_reduce_%s_New on a %dx%d tile matrix does not complete (crash or hang), operator calls: %s" % (
                        kind[1:], mt, nt, m.group(1))
                if m.group(1) != str(need):
                    return "parsec_reduce_%s_New on %dx%d applied the operator %s times, %d combinations are needed" % (kind[1:], mt, nt, m.group(1), need)
                return None
        except Exception as ex:
            return "unparsable observation (%s): %s" % (ex, obs[:100])
        return None

    def signature(self, case, obs):
        w, _ = head_tail(case)
        if w[0] in ("rcol", "rrow"):
            return "reduce-col-row-skeleton"
        if w[0] == "map":
            why = self.oracle(case, obs) or ""
            if "never completes" in why:
                # all the visits are right, the taskpool does not terminate: classify by the situation
                R, mt, nt, smt, snt, P, Q = int(w[1]), int(w[4]), int(w[5]), int(w[6]), int(w[7]), int(w[10]), int(w[11])
                if len({owner(P, Q, m, n) for m in range(smt) for n in range(snt)}) < R:
                    return "map-termination-empty-rank"
                if (smt, snt) != (mt, nt):
                    return "map-termination-submatrix"
                return "map-termination"
            return "map-visits"
        if w[0] == "apply":
            return "apply-uplo%s" % w[4]
        return w[0]
