from vcheck import Check, Failure, ensure_parsec

LIST_VARIANTS = "nldefgtuv"


def _items(s):
    if s == ".":
        return []
    out = []
    for w in s.split(","):
        a, b = w.split(":")
        out.append((int(a), int(b)))
    return out


def _item(s):
    a, b = s.split(":")
    return (int(a), int(b))


def _pairs(t):
    if len(t) % 2:
        raise ValueError("odd item list")
    return [(int(t[i]), int(t[i + 1])) for i in range(0, len(t), 2)]


def _desc(l):
    return all(l[i][1] >= l[i + 1][1] for i in range(len(l) - 1))


def _asc(l):
    return all(l[i][1] <= l[i + 1][1] for i in range(len(l) - 1))


class C31(Check):
    id = "C31"
    prop_file = "theories/Properties/Properties_C31.v"
    theorems = ("C31_conservation", "C31_no_duplication", "C31_deque_laws", "C31_fifo_order",
                "C31_push_sorted_placement", "C31_push_sorted_sorted", "C31_chain_sorted_sorted",
                "C31_chain_sorted_any", "C31_sort_sorted", "C31_sort_is_reversed_stable_sort",
                "C31_sort_not_stable", "C31_ring_push_sorted", "C31_sorted_sequences",
                "C31_sorted_pop_front_is_max", "C31_sort_direction_differs",
                "C31_locked_linearizable", "C31_locked_complete", "C31_locked_mutual_exclusion",
                "C31_locked_conservation")
    comp = "listm"
    extract_file = "theories/Extract/Extract_ListM.v"
    extracted = ("listm",)
    harness_src = "harness/h_listm.c"
    link_parsec = False
    harness_cflags = ("-DBUILDING_PARSEC",)
    race = True
    level_text = ("Theorems over ALL lists and ALL operation sequences of the model (Gallina list of (id, priority) per "
                  "parsec_list_t, one free ring): every operation conserves the multiset of items (none lost, none duplicated); "
                  "push/pop front/back obey the deque laws and fifo order; push_sorted inserts without moving other items and, on "
                  "a non-increasing list, keeps it non-increasing and places the item after all items of priority >= its own "
                  "(both scan directions proved equal there, so the odd pivot expression is harmless on sorted lists); "
                  "chain_sorted on a non-increasing list equals successive stable insertions (sorted, stable), and is a "
                  "permutation on any list; sort (bottom-up mergesort) yields a NON-DECREASING permutation in which items of "
                  "equal priority come out in REVERSE order (sort l = rev (chain_sorted [] l)): it is not stable and its "
                  "direction is the opposite of the sorted insertions; ring_push_sorted keeps a non-increasing ring "
                  "non-increasing (item placed BEFORE equals). Any sequence of order-preserving operations keeps both lists "
                  "and the ring sorted. The model is tied to the real inline code of list.h/list_item.h/dequeue.h/fifo.h by "
                  "differential runs of random operation sequences (all API variants) printing the whole list after every "
                  "operation. Concurrent use of the LOCKED entry points: atomic-step model (pre-lock code incl. the unlocked "
                  "emptiness test of the pops / one lock attempt + critical section / unlock) for any number of threads, any "
                  "programs and EVERY schedule: the log of linearisation points replayed sequentially gives the logged results "
                  "and the list, per thread in program order (C31_locked_linearizable/_complete), mutual exclusion, conservation; "
                  "tied to the real code by controlled-schedule runs (ucontext coroutines, interposed lock operations) compared "
                  "with the extracted model, then forward/backward walk and pop_back drain. Full at list level; concurrency "
                  "at critical-section granularity.")
    level_note = ("Trusted: Coq kernel, extraction, harness (walks list_next and list_prev and compares them) and driver. "
                  "Pointer-level well-formedness is observed by the harness, not proved. The locked entry points take the "
                  "list's atomic lock around the same code (push_front/push_back/chain_* prepare the item outside the lock "
                  "and link inside). In the concurrent model a critical section is ONE atomic step (assumption on the lock, "
                  "C33) and plain accesses belong to the step that contains them; SC memory. The race exploration (clang "
                  "-fsanitize=thread + tsanrt.c: every plain access to the list head, lock and items yields) is search only. "
                  "Histories containing a locked sort are checked for structure and conservation only: the tie order of sort is "
                  "not part of the property, and at plain-access granularity parsec_list_sort empties the list while it sorts, "
                  "so the unlocked emptiness test of a concurrent pop may answer NULL (no caller sorts a shared list).")
    technique = ("Coq proof (induction over lists / operation sequences; run-structured invariant for the bottom-up mergesort) "
                 "+ differential run of the real inline list code against the extracted model after every operation "
                 "+ invariant over all schedules for the locked operations, controlled-schedule differential runs (cosched, "
                 "interpose.h), Wing-Gong style linearizability search on the observed histories, race exploration")
    rule = ("operation sequences (8-60 ops) over two lists and a free ring drawn from profiles: deque traffic, sorted-only "
            "traffic, sort of lists with lengths around powers of two, ring insertion, everything mixed (unsorted lists hit "
            "both scan directions of push_sorted), exhaustive small boxes for the pivot expression; priorities mostly in a "
            "range of 2-4 values (ties), sometimes negative or wide. Non-trivial = at least 3 operations and 2 items; "
            "distinct = distinct case text. Concurrent cases: 1-4 threads x 1-6 locked operations (all list/dequeue/fifo/"
            "try variants) on one list, schedules: directed (every thread stopped before its lock attempt, released in "
            "every order), sequential, bursts, random; race exploration re-runs them with long bursty schedules")
    trusted = ("harness includes parsec_object.c/parsec_list.c/parsec_dequeue.c/parsec_fifo.c and the inline headers "
               "(no libparsec); a case that crashes or loops is abandoned through a signal handler and reported as such",)
    assumptions = ("locked variants: the critical section guarded by parsec_list_lock is atomic and the lock is a correct "
                   "mutual-exclusion lock (C33); sequentially consistent memory",
                   "priorities fit an int with |p| < 2^30 (the pivot expression of push_sorted cannot overflow); fewer "
                   "than 2^30 items in a list (int insize of the mergesort)",
                   "callers respect the documented preconditions: items are in no other list/ring, position/removed item "
                   "belongs to the list, chained rings are well formed")

    # the harness needs the generated parsec_config.h: make sure the build directory is configured
    def build_sides(self):
        ok, msg = ensure_parsec(targets=("build.ninja",))
        if not ok:
            return [Failure("build", "PaRSEC build directory cannot be configured", msg)]
        return Check.build_sides(self)

    # ------------------------------------------------------------------ generation
    def _prio(self, r, mode):
        if mode == 0:
            return r.range(0, 1)
        if mode == 1:
            return r.range(0, 2)
        if mode == 2:
            return r.range(-2, 2)
        if mode == 3:
            return r.range(0, 5)
        return r.pick([r.range(-1000000, 1000000), r.range(-3, 3), 0, 1, 2, 1000000, -1000000])

    def _gen(self, r, profile):
        nid = [0]
        mode = r.pick([0, 1, 1, 2, 2, 3, 4])

        def it():
            nid[0] += 1
            return "%d %d" % (nid[0], self._prio(r, mode))

        def chain(lo, hi, srt=None):
            n = r.range(lo, hi)
            ps = [self._prio(r, mode) for _ in range(n)]
            if srt == "desc":
                ps.sort(reverse=True)
            elif srt == "asc":
                ps.sort()
            out = []
            for p in ps:
                nid[0] += 1
                out.append("%d %d" % (nid[0], p))
            return " ".join(out)

        def v(cands):
            return r.pick(cands)

        ops = []
        nops = r.pick([r.range(3, 12), r.range(8, 30), r.range(20, 60)])
        L = lambda: r.pick([0, 0, 0, 1])
        if profile == "deque":
            for _ in range(nops):
                k = r.below(10)
                if k < 3:
                    ops.append("%s %s %d %s" % (r.pick(["pf", "pb"]), v("nldefg"), L(), it()))
                elif k < 6:
                    ops.append("%s %s %d" % (r.pick(["of", "ob"]), v(LIST_VARIANTS), L()))
                elif k < 8:
                    ops.append("%s %s %d %s" % (r.pick(["cf", "cb"]), v("nldefg"), L(), chain(1, 5)))
                elif k < 9:
                    ops.append("ie %s %d" % (v("nldefg"), L()))
                else:
                    ops.append("rm n %d %d" % (L(), r.range(0, 6)))
        elif profile == "sorted":
            for _ in range(nops):
                k = r.below(12)
                if k < 4:
                    ops.append("ps %s %d %s" % (v("nl"), L(), it()))
                elif k < 7:
                    ops.append("cs %s %d %s" % (v("nl"), L(), chain(0, 6, r.pick([None, None, "desc", "asc"]))))
                elif k < 9:
                    ops.append("%s %s %d" % (r.pick(["of", "ob"]), v(LIST_VARIANTS), L()))
                elif k < 10:
                    ops.append("rm n %d %d" % (L(), r.range(0, 8)))
                elif k < 11:
                    ops.append("rq %s" % it())
                else:
                    ops.append(r.pick(["xs %s %d" % (v("nl"), L()), "rc", "ct n %d %d" % (L(), r.range(1, max(1, nid[0])))]))
        elif profile == "sort":
            base = r.pick([0, 1, 2, 3, 4, 5, 7, 8, 9, 15, 16, 17, 31, 32, 33, 63, 64, 65, r.range(0, 100)])
            if base:
                ops.append("cb n 0 " + chain(base, base, r.pick([None, None, None, "desc", "asc"])))
            ops.append("so %s 0" % v("nl"))
            for _ in range(r.range(0, 4)):
                ops.append(r.pick(["ps n 0 " + it(), "so l 0", "of n 0", "ob l 0", "cs n 0 " + chain(0, 4),
                                   "un n 0", "xs n 0", "pf n 0 " + it()]))
        elif profile == "ring":
            for _ in range(nops):
                k = r.below(12)
                if k < 5:
                    ops.append("rq %s" % it())
                elif k < 6:
                    ops.append("rp %s" % it())
                elif k < 8:
                    ops.append("rc")
                elif k < 9:
                    ops.append("rg %s" % chain(0, 4))
                elif k < 10:
                    ops.append("%s %s %d" % (r.pick(["xf", "xb", "xs"]), v("nl"), L()))
                elif k < 11:
                    ops.append("un %s %d" % (v("nl"), L()))
                else:
                    ops.append("ps n %d %s" % (L(), it()))
        else:  # mixed
            for _ in range(nops):
                k = r.below(22)
                if k < 2:
                    ops.append("%s %s %d %s" % (r.pick(["pf", "pb"]), v("nldefg"), L(), it()))
                elif k < 5:
                    ops.append("%s %s %d" % (r.pick(["of", "ob"]), v(LIST_VARIANTS), L()))
                elif k < 7:
                    ops.append("%s %s %d %s" % (r.pick(["cf", "cb"]), v("nldefg"), L(), chain(1, 6)))
                elif k < 10:
                    ops.append("ps %s %d %s" % (v("nl"), L(), it()))
                elif k < 12:
                    ops.append("cs %s %d %s" % (v("nl"), L(), chain(0, 6, r.pick([None, None, "desc", "asc"]))))
                elif k < 13:
                    ops.append("so %s %d" % (v("nl"), L()))
                elif k < 14:
                    ops.append("rm n %d %d" % (L(), r.range(0, 8)))
                elif k < 15:
                    ops.append("%s %s %d %d %s" % (r.pick(["ab", "aa"]), v("nl"), L(), r.range(0, 8), it()))
                elif k < 16:
                    ops.append(r.pick(["ie %s %d" % (v("nldefg"), L()), "ct n %d %d" % (L(), r.range(1, max(1, nid[0])))]))
                elif k < 17:
                    ops.append("un %s %d" % (v("nl"), L()))
                elif k < 18:
                    ops.append("%s %s %d" % (r.pick(["xf", "xb", "xs"]), v("nl"), L()))
                elif k < 19:
                    ops.append("rq %s" % it())
                elif k < 20:
                    ops.append(r.pick(["rp %s" % it(), "rg %s" % chain(0, 4)]))
                else:
                    ops.append("rc")
        return ";".join(ops)

    def _boxes(self, full):
        """small exhaustive boxes: pivot expression x scan direction on unsorted lists, ties."""
        out = []
        rng = range(-3, 5) if full else range(-2, 4)
        for h in rng:
            for t in rng:
                for x in (-2, -1, 0, 1, 2, 3):
                    # unsorted middle: the two scan directions give different results
                    out.append("cb n 0 1 %d 2 %d 3 %d 4 %d;ps n 0 5 %d" % (h, x + 1, x - 1, t, x))
                    out.append("cb n 0 1 %d 2 %d;ps l 0 3 %d" % (h, t, x))
        return out

    def cases(self):
        r = self.rng
        out = self._boxes(self.tier != "quick")
        n = 6000 if self.tier == "quick" else 80000
        profiles = ["deque", "sorted", "sorted", "sort", "ring", "mixed", "mixed", "mixed"]
        for i in range(n):
            out.append(self._gen(r.fork(), profiles[i % len(profiles)]))
        out += self._conc_directed()
        cprof = ["append", "deque", "sorted", "mixed", "append", "deque"]
        for i in range(1500 if self.tier == "quick" else 30000):
            out.append(self._gen_conc(r.fork(), cprof[i % len(cprof)]))
        return out

    # ---- concurrent cases (locked entry points under a chosen schedule)
    def _conc_directed(self):
        """two or three threads using one entry point each, every thread stopped between its prelude
        and its lock acquisition, then released in every order."""
        out = []
        import itertools
        ops = ["pb l 0 %d 1", "pb d 0 %d 1", "pb f 0 %d 1", "pf l 0 %d 1", "pf d 0 %d 1", "cb l 0 %d 1 %d 0",
               "cf l 0 %d 1 %d 0", "cb f 0 %d 1 %d 0", "ps l 0 %d 1", "cs l 0 %d 1 %d 2"]
        def mk(tmpl, base):
            return tmpl % tuple(base + k for k in range(tmpl.count("%d")))
        for init in ("", "90 3", "90 3 91 2"):
            for a, b in itertools.product(ops, ops):
                for order in ((0, 1), (1, 0)):
                    x, y = order
                    sched = [0, 1] + [x] * 4 + [y] * 4
                    out.append("conc I: %s / %s ; ob l 0 / %s ; of l 0 / S: %s" % (
                        init, mk(a, 10), mk(b, 20), " ".join(map(str, sched))))
            for a in ops[:5]:
                for perm in itertools.permutations(range(3)):
                    sched = [0, 1, 2] + [t for t in perm for _ in range(3)]
                    out.append("conc I: %s / %s / %s / %s ; ob u 0 / S: %s" % (
                        init, mk(a, 10), mk(a, 20), mk(a, 30), " ".join(map(str, sched))))
        return out

    def _gen_conc(self, r, profile):
        nid = [0]
        mode = r.pick([0, 1, 1, 2, 3])

        def it():
            nid[0] += 1
            return "%d %d" % (nid[0], self._prio(r, mode))

        def chain(lo, hi):
            return " ".join(it() for _ in range(r.range(lo, hi)))

        nt = r.pick([1, 2, 2, 2, 3, 3, 4])
        ninit = r.range(0, 4)
        ps = sorted([self._prio(r, mode) for _ in range(ninit)], reverse=True)
        init = []
        for p_ in ps:
            nid[0] += 1
            init.append("%d %d" % (nid[0], p_))
        threads = []
        total = 0
        for _ in range(nt):
            ops = []
            for _ in range(r.pick([1, 2, 2, 3, 4, 6])):
                k = r.below(12)
                if profile == "append":
                    if k < 6:
                        ops.append("pb %s 0 %s" % (r.pick("ldf"), it()))
                    elif k < 8:
                        ops.append("cb %s 0 %s" % (r.pick("ldf"), chain(1, 3)))
                    elif k < 10:
                        ops.append("ob %s 0" % r.pick("lldtu"))
                    else:
                        ops.append(r.pick(["of l 0", "of f 0", "of v 0", "ie l 0"]))
                elif profile == "sorted":
                    if k < 5:
                        ops.append("ps l 0 %s" % it())
                    elif k < 7:
                        ops.append("cs l 0 %s" % chain(0, 3))
                    elif k < 10:
                        ops.append("%s %s 0" % (r.pick(["of", "ob"]), r.pick("ldtu")))
                    elif k < 11:
                        ops.append("ie %s 0" % r.pick("ldf"))
                    else:
                        ops.append("un l 0")
                else:
                    if k < 2:
                        ops.append("pf %s 0 %s" % (r.pick("ld"), it()))
                    elif k < 4:
                        ops.append("pb %s 0 %s" % (r.pick("ldf"), it()))
                    elif k < 6:
                        ops.append("of %s 0" % r.pick("ldftuv"))
                    elif k < 8:
                        ops.append("ob %s 0" % r.pick("ldtu"))
                    elif k < 9:
                        ops.append("%s %s 0 %s" % (r.pick(["cf", "cb"]), r.pick("ld"), chain(1, 3)))
                    elif k < 10:
                        ops.append("ie %s 0" % r.pick("ldf"))
                    elif k < 11:
                        ops.append("un l 0")
                    elif profile == "mixed":
                        ops.append(r.pick(["so l 0", "ps l 0 " + it(), "cs l 0 " + chain(0, 3)]))
                    else:
                        ops.append("pb l 0 " + it())
            total += len(ops)
            threads.append(" ; ".join(ops))
        kind = r.below(6)
        if kind == 0:
            sched = []
        elif kind == 1:    # everyone does its first step, then thread after thread
            order = r.shuffle(list(range(nt)))
            sched = list(range(nt)) + [t for t in order for _ in range(4 * total)]
        elif kind == 2:    # bursts
            sched = []
            while len(sched) < 5 * total:
                sched += [r.below(nt)] * r.range(1, 4)
        else:
            sched = [r.below(nt) for _ in range(r.range(1, 6 * total))]
        return "conc I: %s / %s / S: %s" % (" ".join(init), " / ".join(threads), " ".join(map(str, sched)))

    def race_cases(self, cases):
        """the concurrent cases again, with long bursty schedules: in the race build every plain access to
        the list head, the lock and the items is a scheduling point, so operations take many more steps"""
        from vcheck import Rng
        r = Rng(self.seed * 7919 + 31)
        conc = [c for c in cases if c.startswith("conc ")]
        keep = 1200 if self.tier == "quick" else 12000
        out = []
        for c in conc[::max(1, len(conc) // keep)][:keep]:
            head = c.rsplit("/ S:", 1)[0]
            nt = head.count("/")
            sched = []
            n = r.pick([40, 120, 400])
            while len(sched) < n:
                sched += [r.below(nt)] * r.pick([1, 1, 2, 3, 5, 9, 17])
            out.append(head + "/ S: " + " ".join(map(str, sched)))
        return out

    def search_cases(self):
        out = self._boxes(True)
        rc = self.rng.fork()
        for i in range(3000):
            out.append(self._gen_conc(rc.fork(), ["append", "deque", "sorted", "mixed"][i % 4]))
        # every sequence of up to 5 sorted insertions over 3 priorities, then drained from the front
        def seqs(n):
            if n == 0:
                yield []
                return
            for s in seqs(n - 1):
                for p in (0, 1, 2):
                    yield s + [p]
        for n in range(1, 6):
            for s in seqs(n):
                ops = ["ps n 0 %d %d" % (i + 1, p) for i, p in enumerate(s)]
                out.append(";".join(ops + ["of n 0"] * n))
                out.append("cb n 0 " + " ".join("%d %d" % (i + 1, p) for i, p in enumerate(s)) + ";so n 0")
                out.append("cs n 0 " + " ".join("%d %d" % (i + 1, p) for i, p in enumerate(s)))
                out.append("cs n 0 10 2 11 1 12 1 13 0;cs l 0 " + " ".join("%d %d" % (i + 1, p) for i, p in enumerate(s)))
                out.append(";".join("rq %d %d" % (i + 1, p) for i, p in enumerate(s)))
        r = self.rng.fork()
        for i in range(1500):
            out.append(self._gen(r.fork(), ["deque", "sorted", "sort", "ring", "mixed"][i % 5]))
        return out

    def nontrivial_key(self, case):
        if case.startswith("conc "):
            return case if case.count("/") >= 3 else None
        ops = case.split(";")
        nitems = sum(max(0, (len(o.split()) - 1) // 2) for o in ops)
        return case if len(ops) >= 3 and nitems >= 2 else None

    def dist(self, cases):
        d = {}
        nops = 0
        conc = [c for c in cases if c.startswith("conc ")]
        cases = [c for c in cases if not c.startswith("conc ")]
        d["concurrent_cases"] = len(conc)
        d["concurrent_threads_max"] = max([c.count("/") - 1 for c in conc] or [0])
        for c in cases:
            for o in c.split(";"):
                k = o.split()[0]
                d[k] = d.get(k, 0) + 1
                nops += 1
        d["cases"] = len(cases)
        d["ops"] = nops
        d["max_ops_per_case"] = max(len(c.split(";")) for c in cases)
        return d

    # ------------------------------------------------------------------ oracle
    # Decides the property on the implementation's observation alone: the state before an
    # operation is the state the implementation itself showed after the previous ones.
    def _check(self, case, obs):
        """returns None or (tag, message)"""
        if case.startswith("conc "):
            return self._check_conc(case, obs)
        if obs.startswith("<"):
            return ("crash", "no observation from the implementation: " + obs[:80])
        ops = [o.split() for o in case.split(";")]
        segs = obs.split(" | ")
        if len(segs) != len(ops):
            return ("shape", "expected %d segments, got %d" % (len(ops), len(segs)))
        lists = {"0": [], "1": []}
        ring = []
        for idx, (t, seg) in enumerate(zip(ops, segs)):
            o = t[0]
            where = "op %d (%s)" % (idx + 1, " ".join(t)[:60])
            if "BROKEN" in seg or "WILD" in seg:
                return (o + "-links", "%s: forward and backward walks disagree or do not close: %s" % (where, seg[:160]), idx)
            if "LOCKED" in seg:
                return (o + "-lock", "%s: the list lock is still held after the operation" % where, idx)
            w = seg.split(" ")
            try:
                ret = w[0]
                new = newr = None
                if o in ("rp", "rq", "rc", "rg"):
                    if w[1] != "R":
                        raise ValueError(seg)
                    newr = _items(w[2])
                else:
                    new = _items(w[1])
                    if o in ("un", "xf", "xb", "xs"):
                        if w[2] != "R":
                            raise ValueError(seg)
                        newr = _items(w[3])
                    old = lists[t[2]]
            except Exception:
                return ("shape", "%s: unparsable segment %r" % (where, seg[:120]))

            def bad(kind, msg):
                return (o + "-" + kind, "%s: %s; before=%s after=%s" % (
                    where, msg, old if new is not None else ring, new if new is not None else newr), idx)

            def sorted_insert(old, xs, new):
                if sorted(new) != sorted(old + xs):
                    return bad("lost", "items lost or duplicated")
                ids = {i for i, _ in xs}
                if [e for e in new if e[0] not in ids] != old:
                    return bad("moved", "items already present were reordered")
                if _desc(old):
                    if not _desc(new):
                        return bad("order", "a non-increasing list is no longer non-increasing")
                    for v in {p for _, p in xs}:
                        want = [e for e in old if e[1] == v] + [e for e in xs if e[1] == v]
                        if [e for e in new if e[1] == v] != want:
                            return bad("ties", "items of priority %d are not placed after the existing ones of "
                                                "equal priority, in insertion order" % v)
                return None

            if o == "pf":
                x = (int(t[3]), int(t[4]))
                if new != [x] + old:
                    return bad("order", "push_front did not put the item first")
            elif o == "pb":
                x = (int(t[3]), int(t[4]))
                if new != old + [x]:
                    return bad("order", "push_back did not put the item last")
            elif o in ("of", "ob"):
                if not old:
                    if ret != "-" or new:
                        return bad("empty", "pop on an empty list returned %s" % ret)
                else:
                    want = old[0] if o == "of" else old[-1]
                    rest = old[1:] if o == "of" else old[:-1]
                    if ret == "-" or _item(ret) != want:
                        return bad("wrong", "pop returned %s, the %s item is %s" % (ret, "first" if o == "of" else "last", want))
                    if new != rest:
                        return bad("lost", "pop changed the other items")
            elif o in ("cf", "cb"):
                xs = _pairs(t[3:])
                if new != (xs + old if o == "cf" else old + xs):
                    return bad("order", "chain did not keep contents and order")
            elif o == "ps":
                r_ = sorted_insert(old, [(int(t[3]), int(t[4]))], new)
                if r_:
                    return r_
            elif o == "cs":
                r_ = sorted_insert(old, _pairs(t[3:]), new)
                if r_:
                    return r_
            elif o == "xs":
                r_ = sorted_insert(old, ring, new)
                if r_:
                    return r_
                if newr:
                    return bad("ring", "ring not consumed")
            elif o == "so":
                if sorted(new) != sorted(old):
                    return bad("lost", "sort lost or duplicated items")
                if not _asc(new):
                    return bad("order", "sorted list is not in natural (non-decreasing) priority order")
            elif o == "rm":
                k = int(t[3])
                if k >= len(old):
                    if ret != "-" or new != old:
                        return bad("wrong", "nothing to remove but the list changed")
                else:
                    prev = "g" if k == 0 else "%d:%d" % old[k - 1]
                    if ret != "%d:%d<%s" % (old[k][0], old[k][1], prev):
                        return bad("wrong", "remove returned %s" % ret)
                    if new != old[:k] + old[k + 1:]:
                        return bad("lost", "remove changed other items")
            elif o in ("ab", "aa"):
                k = int(t[3])
                x = (int(t[4]), int(t[5]))
                if o == "ab":
                    want = old[:k] + [x] + old[k:]
                else:
                    want = old[:k + 1] + [x] + old[k + 1:] if k < len(old) else [x] + old
                if new != want:
                    return bad("order", "add_before/after misplaced the item")
            elif o == "ie":
                if new != old or ret != ("1" if not old else "0"):
                    return bad("wrong", "is_empty returned %s" % ret)
            elif o == "ct":
                if new != old or ret != ("1" if int(t[3]) in {i for i, _ in old} else "0"):
                    return bad("wrong", "contains returned %s" % ret)
            elif o == "un":
                if new or newr != ring + old:
                    return bad("lost", "unchain did not move the whole list, in order, to the ring (ring was %s)" % ring)
            elif o in ("xf", "xb"):
                if newr or new != (ring + old if o == "xf" else old + ring):
                    return bad("order", "chaining the ring did not keep contents and order (ring was %s)" % ring)
            elif o == "rp":
                if newr != ring + [(int(t[1]), int(t[2]))]:
                    return bad("order", "ring_push did not add the item last")
            elif o == "rg":
                if newr != ring + _pairs(t[1:]):
                    return bad("order", "ring_merge did not append the second ring")
            elif o == "rc":
                if not ring:
                    if ret != "-" or newr:
                        return bad("empty", "chop of nothing")
                elif ret == "-" or _item(ret) != ring[0] or newr != ring[1:]:
                    return bad("wrong", "ring_chop returned %s" % ret)
            elif o == "rq":
                x = (int(t[1]), int(t[2]))
                if sorted(newr) != sorted(ring + [x]):
                    return bad("lost", "ring_push_sorted lost or duplicated items")
                if [e for e in newr if e[0] != x[0]] != ring:
                    return bad("moved", "ring_push_sorted reordered the ring")
                if _desc(ring) and not _desc(newr):
                    return bad("order", "a non-increasing ring is no longer non-increasing")
            else:
                return ("shape", "%s: unknown operation" % where)
            if new is not None:
                lists[t[2]] = new
            if newr is not None:
                ring = newr
        return None


    # ---- concurrent cases: structure, conservation, and linearizability of the observed history
    def _check_conc(self, case, obs):
        if obs.startswith("<"):
            return ("conc-crash", "no observation from the implementation: " + obs[:80], None)
        secs = [x.strip() for x in case[5:].split("/")]
        init = _pairs(secs[0].split()[1:])
        progs = [[o.split() for o in sec.split(";")] for sec in secs[1:-1]]
        osec = [x.strip() for x in obs.split(" / ")]
        nt = len(progs)
        if len(osec) != nt + 3:
            return ("shape", "unexpected observation " + obs[:100], None)
        lsec, dsec, ssec = osec[nt], osec[nt + 1], osec[nt + 2]
        if "DEADLOCK" in ssec:
            return ("conc-deadlock", "the threads did not finish (lock never released?): " + obs[:160], None)
        if "LOCKED" in lsec:
            return ("conc-lock", "the list lock is still held after all threads finished", None)
        if "BROKEN" in lsec or "WILD" in lsec:
            return ("conc-links", "after the concurrent phase the forward and backward walks of the list disagree "
                                  "or do not close: " + lsec[:200], None)
        if "BROKEN" in obs or "WILD" in obs or "CYCLE" in obs:
            return ("conc-links", "broken ring or drain: " + obs[:200], None)
        final = _items(lsec.split()[1])
        drained = _items(dsec.split()[1])
        if drained != final[::-1]:
            return ("conc-drain", "draining with pop_back gives %s, the forward walk was %s" % (drained, final), None)
        ops = []          # per thread: (name, variant, items, result, inv, res)
        outs = []
        ins = list(init)
        for t in range(nt):
            w = osec[t].split()[1:]
            if len(w) != len(progs[t]):
                return ("shape", "thread %d: %d results for %d operations" % (t, len(w), len(progs[t])), None)
            th = []
            for o, x in zip(progs[t], w):
                if x == "?":
                    return ("conc-deadlock", "an operation did not complete", None)
                res, st = x.rsplit("@", 1)
                a, b = st.split("-")
                xs = _pairs(o[3:])
                ins += xs
                if o[0] in ("of", "ob") and res != "-":
                    outs.append(_item(res))
                if o[0] == "un":
                    outs += _items(res[1:-1])
                th.append((o[0], o[1], xs, res, int(a), int(b)))
            ops.append(th)
        if sorted(ins) != sorted(final + outs):
            return ("conc-lost", "items lost or duplicated: given %s, list %s + returned %s" % (
                sorted(ins), final, outs), None)
        if any(o[0] == "so" for th in ops for o in th):
            return None          # the tie order of sort is not part of the property: no sequential spec to search with
        allops = [(t, i) for t in range(nt) for i in range(len(ops[t]))]

        def overlaps(t, i):
            a, b = ops[t][i][4], ops[t][i][5]
            return any((u, j) != (t, i) and not (ops[u][j][5] < a or ops[u][j][4] > b) for (u, j) in allops)

        class Unknown(Exception):
            pass

        def ins_sorted(l, x):
            if not _desc(l):
                raise Unknown()
            k = 0
            while k < len(l) and l[k][1] >= x[1]:
                k += 1
            return l[:k] + [x] + l[k:]

        def apply(l, t, i):
            name, v, xs, res, _, _ = ops[t][i]
            l = list(l)
            if name == "pf":
                return [(xs + l, "-")]
            if name == "pb":
                return [(l + xs, "-")]
            if name == "cf":
                return [(xs + l, "-")]
            if name == "cb":
                return [(l + xs, "-")]
            if name in ("of", "ob"):
                out = []
                if l:
                    out.append((l[1:], "%d:%d" % l[0]) if name == "of" else (l[:-1], "%d:%d" % l[-1]))
                    if v in "tuv" and overlaps(t, i):
                        out.append((l, "-"))     # try_pop may find the lock busy
                else:
                    out.append((l, "-"))
                return out
            if name == "ps":
                return [(ins_sorted(l, xs[0]), "-")]
            if name == "cs":
                for x in xs:
                    l = ins_sorted(l, x)
                return [(l, "-")]
            if name == "ie":
                return [(l, "1" if not l else "0")]
            if name == "un":
                return [([], "[" + (",".join("%d:%d" % e for e in l) if l else ".") + "]")]
            raise Unknown()

        seen = set()
        todo = [(tuple([0] * nt), tuple(init))]
        budget = 200000
        try:
            while todo:
                idx, l = todo.pop()
                if all(idx[t] == len(ops[t]) for t in range(nt)):
                    if list(l) == final:
                        return None
                    continue
                if (idx, l) in seen:
                    continue
                seen.add((idx, l))
                budget -= 1
                if budget < 0:
                    return None
                first_res = min(ops[t][idx[t]][5] for t in range(nt) if idx[t] < len(ops[t]))
                for t in range(nt):
                    i = idx[t]
                    if i >= len(ops[t]) or ops[t][i][4] > first_res:
                        continue
                    for l2, r2 in apply(l, t, i):
                        if r2 == ops[t][i][3]:
                            todo.append((idx[:t] + (i + 1,) + idx[t + 1:], tuple(l2)))
        except Unknown:
            return None
        return ("conc-lin", "no sequential order of the locked operations (respecting their real-time order) explains "
                            "the returned values and the final list %s: %s" % (final, obs[:200]), None)

    def oracle(self, case, obs):
        try:
            r = self._check(case, obs)
        except Exception as e:  # malformed observation
            return "oracle could not read the observation (%s): %s" % (e, obs[:80])
        return None if r is None else r[1]

    def shrink(self, case, obs):
        """cut the case after the operation the oracle rejects (the prefix behaves the same)."""
        try:
            r = self._check(case, obs)
            if r and len(r) > 2 and r[2] is not None:
                k = r[2] + 1
                return ";".join(case.split(";")[:k]), " | ".join(obs.split(" | ")[:k])
        except Exception:
            pass
        return case, obs

    def signature(self, case, obs):
        try:
            r = self._check(case, obs)
        except Exception:
            r = None
        return r[0] if r else "unknown"
