import itertools
import os

from vcheck import Check, Rng, run, CASES


def _ceil(a, b):
    return (a + b - 1) // b


class C28(Check):
    id = "C28"
    prop_file = "theories/Properties/Properties_C28.v"
    theorems = ("C28_malloc_returns_live", "C28_in_range_aligned", "C28_live_disjoint", "C28_malloc_fails_iff_no_run",
                "C28_best_fit", "C28_segments_wellformed", "C28_coalesced", "C28_in_use",
                "C28_free_space", "C28_index_consistent", "C28_ignored_free", "C28_malloc_zero")
    comp = "zone"
    extract_file = "theories/Extract/Extract_Zone.v"
    extracted = ("zone",)
    harness_src = "harness/h_zone.c"
    link_parsec = True
    level_text = ("Theorems over every state a client can reach by any finite sequence of zone_malloc / zone_free calls "
                  "(frees of live allocations, repeated frees of stale offsets, frees past the end) on a zone of any number "
                  "n >= 1 of units of any size >= 1: live allocations are unit-aligned, inside the zone and pairwise disjoint; "
                  "zone_malloc(size > 0) returns NULL exactly when no window of ceil(size/unit) units is free of live "
                  "allocations; on success the block starts a maximal free run whose length is minimal among the fitting "
                  "maximal free runs (best fit); the segment walk partitions [0,n) with consistent nb_prev links and never "
                  "shows two adjacent free segments; zone_in_use = unit * sum of the unit counts of the live allocations and "
                  "zone_debug returns the complement; the free index lists exactly the free segments under their sizes; "
                  "ignored frees change nothing.  The Gallina model mirrors zone_malloc.c cell by cell (status, nb_units, "
                  "nb_prev, stale interior cells) and the chunk-list index as the in-order key -> list view of the tree, "
                  "including the in-place key update branches; it is tied to the real code by a differential run that "
                  "compares results, zone_in_use, zone_debug, the segment walk and the index after every operation.  Full.")
    level_note = ("Trusted: Coq kernel, extraction, the harness (includes zone_malloc.c, prints the segment array and the "
                  "chunk lists in tree order) and the OCaml driver that resolves 'k-th live allocation' to an offset. The "
                  "red-black tree is abstracted to its ordered key -> list content (its own correctness is C36); the lock is "
                  "not modelled (sequential clients).")
    technique = ("Coq proof (representation invariant over the segment array and the free index, preserved by every "
                 "operation; client-level specification derived from it) + differential run of the real allocator "
                 "against the extracted model")
    rule = ("'z N UNIT | ops': exhaustive op sequences over {malloc 1..N+1 units, free k-th live (k<3), stale free} on zones "
            "of 1..16 units up to a per-N length; all free orders of b blocks (every neighbour configuration of a coalescing "
            "free) with a malloc probe at every step; hole layouts probing best fit and ties; fill-to-full and drain "
            "patterns; sizes around unit multiples; long random sequences on zones up to 4096 units.  "
            "Non-trivial = at least one successful-looking malloc op; distinct = distinct case text")
    trusted = ("harness includes parsec/utils/zone_malloc.c and reads gdata->segments and the rbtree's chunk lists directly; "
               "a fixed fake base pointer is used (the allocator never dereferences it)",
               "free index abstracted as the sorted key -> list view of the red-black tree (C36 covers the tree)")
    assumptions = ("no arithmetic wrap: size + unit_size - 1 < 2^64 and ceil(size/unit_size) <= INT_MAX (the C code "
                   "truncates the unit count to int), max_segment >= 1, unit_size >= 1, base != NULL",
                   "zone_free is called only on offsets returned earlier by zone_malloc (live or stale) or beyond the zone; "
                   "an address strictly inside a never-freed block reads an uninitialised segment cell in C",
                   "single-threaded client (the allocator's lock serialises callers)")

    # ------------------------------------------------------------------ generation
    def cases(self):
        r = self.rng
        quick = self.tier == "quick"
        out = []

        def case(n, unit, ops):
            out.append("z %d %d | %s" % (n, unit, " ".join(ops)))

        # 1. exhaustive sequences on zones of 1..16 units (unit size 1: sizes are unit counts)
        budget = 1200 if quick else 40000
        for n in range(1, 17):
            alpha = ["m%d" % s for s in range(1, n + 2)] + ["f0", "f1", "f2"]
            if n <= 6:
                alpha.append("x0")
            L = 2
            while len(alpha) ** (L + 1) <= budget:
                L += 1
            for seq in itertools.product(alpha, repeat=L):
                if seq[0][0] != "m":
                    continue            # a leading free/stale free is a no-op prefix
                case(n, 1, seq)
        # 1b. exhaustive continuations from a fragmented zone: b unit blocks, then all sequences
        for n in (4, 5, 6) if quick else (4, 5, 6, 7, 8):
            alpha = ["m1", "m2", "m3", "f0", "f1", "f2", "f3"]
            L = 4 if quick else 5
            for seq in itertools.product(alpha, repeat=L):
                if seq[0][0] == "f":
                    case(n, 1, ["m1"] * n + list(seq))

        # 2. all free orders of b blocks: every (prev free?, next free?, first/last) configuration
        def frees_by_perm(perm):
            livel = list(range(len(perm)))
            ops = []
            for b in perm:
                ops.append("f%d" % livel.index(b))
                livel.remove(b)
            return ops
        maxb = 5 if quick else 7
        for b in range(1, maxb + 1):
            for sizes in ([1] * b, list(range(1, b + 1)), [2] * b, [(i * 7) % 3 + 1 for i in range(b)]):
                tot = sum(sizes)
                for tail in (0, 1, 3):
                    for perm in itertools.permutations(range(b)):
                        fr = frees_by_perm(perm)
                        case(tot + tail, 1, ["m%d" % s for s in sizes] + fr + ["m%d" % (tot + tail), "m1"])
                        if b <= 4 or r.chance(1, 6 if quick else 2):
                            # probe with a malloc/free pair after every free: exercises the index at every step
                            ops = ["m%d" % s for s in sizes]
                            for i, f in enumerate(fr):
                                ops += [f, "m%d" % r.range(1, 3), "f%d" % (b - i - 1)]
                            case(tot + tail, 1, ops)

        # 3. best fit: holes of chosen sizes between 1-unit spacers, freed in random order, then a request
        for _ in range(150 if quick else 3000):
            nh = r.range(2, 6)
            holes = [r.pick([1, 2, 2, 3, 3, 4, 5, 6, 8]) for _ in range(nh)]
            tail = r.pick([0, 0, 1, 2, 5, 9])
            unit = r.pick([1, 1, 8, 512])
            ops, idx = [], []
            for h in holes:
                idx.append(len(ops) // 1)
                ops.append("m%d" % (h * unit))
                ops.append("m%d" % unit)
            n = sum(holes) + nh + tail
            if tail == 0 and r.chance(1, 2):
                ops.pop()               # last hole touches the end of the zone
                n -= 1
            order = r.shuffle(range(nh))
            livel = list(range(len(ops)))
            for h in order:
                pos = 2 * h
                ops.append("f%d" % livel.index(pos))
                livel.remove(pos)
            for _ in range(r.range(1, 6)):
                req = r.range(1, max(holes) + 1)
                ops.append("m%d" % (req * unit - r.pick([0, 0, 0, 1]) * (unit > 1)))
                if r.chance(1, 3) and livel:
                    ops.append("f%d" % r.below(len(livel) + 1))
            case(n, unit, ops)

        # 4. fill to full, drain in patterns, then ask for the whole zone
        for n in ([1, 2, 3, 5, 8, 16, 33] if quick else [1, 2, 3, 4, 5, 7, 8, 16, 33, 64, 127, 300]):
            for unit in (1, 8) if quick else (1, 7, 8, 4096):
                fill = ["m%d" % unit] * (n + 2)
                for pat in ("asc", "desc", "even-odd", "odd-even", "rand", "inside-out"):
                    if pat == "asc":
                        perm = list(range(n))
                    elif pat == "desc":
                        perm = list(range(n - 1, -1, -1))
                    elif pat == "even-odd":
                        perm = list(range(0, n, 2)) + list(range(1, n, 2))
                    elif pat == "odd-even":
                        perm = list(range(1, n, 2)) + list(range(0, n, 2))
                    elif pat == "rand":
                        perm = r.shuffle(range(n))
                    else:
                        mid = n // 2
                        perm = sorted(range(n), key=lambda i: (abs(i - mid), i))
                    case(n, unit, fill + frees_by_perm(perm) + ["m%d" % (n * unit), "m1", "f0", "x0", "o0",
                                                                 "m%d" % (n * unit + 1), "m%d" % (n * unit)])

        # 5. sizes around unit multiples
        for unit in (2, 3, 8, 512, 4096):
            for n in (1, 2, 5, 9):
                szs = sorted({0, 1, unit - 1, unit, unit + 1, 2 * unit - 1, 2 * unit, 2 * unit + 1,
                              n * unit - 1, n * unit, n * unit + 1, (n - 1) * unit + 1})
                for s in szs:
                    for s2 in szs:
                        case(n, unit, ["m%d" % s, "m%d" % s2, "m1", "f0", "m%d" % s2, "f1", "f0", "f0",
                                       "m%d" % (n * unit)])

        # 6. long random sequences
        for _ in range(70 if quick else 1500):
            n = r.pick([r.range(2, 16), r.range(17, 64), r.range(17, 64), r.range(65, 300), 256, 1000, 4096])
            unit = r.pick([1, 1, 2, 8, 512, 4096])
            nops = r.range(100, 400) if quick else r.range(100, 1200)
            ops = []
            big = r.pick([2, 4, 8, n])
            phase, left = 0, 0
            for _ in range(nops):
                if left == 0:
                    phase = r.pick([0, 0, 1, 2])        # mixed / fill / drain
                    left = r.range(5, 60)
                left -= 1
                pm = (5, 9, 2)[phase]                    # malloc probability out of 10
                x = r.below(10)
                if x < pm:
                    u = r.pick([1, 1, 1, 2, 2, 3, r.range(1, big), r.range(1, big), r.range(1, max(1, n // 3)),
                                n, n + 1])
                    s = u * unit - (r.below(unit) if r.chance(1, 3) else 0)
                    if r.chance(1, 40):
                        s = 0
                    ops.append("m%d" % max(s, 0))
                elif r.chance(1, 12):
                    ops.append(r.pick(["x%d" % r.below(50), "o%d" % r.below(3)]))
                else:
                    ops.append("f%d" % r.pick([0, r.below(1000), r.below(1000), 999999]))
            case(n, unit, ops)
        return out

    def nontrivial_key(self, case):
        ops = case.split("|")[1].split()
        return case if any(o[0] == "m" and o != "m0" for o in ops) else None

    def dist(self, cases):
        d = {"cases": len(cases), "ops": 0, "malloc": 0, "free": 0, "stale_or_out": 0, "max_units": 0, "max_ops": 0}
        for c in cases:
            hd, ops = c.split("|")
            ops = ops.split()
            d["ops"] += len(ops)
            d["max_ops"] = max(d["max_ops"], len(ops))
            d["max_units"] = max(d["max_units"], int(hd.split()[1]))
            for o in ops:
                d["malloc" if o[0] == "m" else "free" if o[0] == "f" else "stale_or_out"] += 1
        return d

    # ------------------------------------------------------------------ oracle
    # Decides the property on the implementation's observation alone: it keeps its own list of
    # live allocations from the returned offsets and checks every clause of the statement.
    def _check(self, case, obs):
        """returns (None, None, None) or (signature-class, message, index of the failing op)"""
        try:
            hd, opss = case.split("|")
            _, n, unit = hd.split()
            n, unit = int(n), int(unit)
            ops = opss.split()
        except Exception:
            return ("badcase", "unparsable case", 0)
        if "CRASH" in obs or obs.startswith("<impl"):
            k = obs.count(" ; ")
            return ("crash", "the allocator crashed or hung: " + obs[-60:], max(0, min(k, len(ops)) - 0))
        parts = obs.split(" ; ")
        if len(parts) != len(ops) + 2:
            return ("crash", "observation has %d entries for %d ops" % (len(parts), len(ops)), len(ops))
        live = []                       # (offset, size) oldest first
        prev_dump = None
        for i in range(len(ops) + 1):
            ent = parts[i]
            try:
                res, rest = ent.split(" ", 1)
                ustr, dstr, rest = rest.split(" ", 2)
                u, dfree = int(ustr[2:]), int(dstr[2:])
                wpart, ipart = rest.split(" I")
                wtoks = wpart.split()[1:] if wpart.startswith("W") else None
                walk = []
                bang = False
                for t in wtoks:
                    if t == "!":
                        bang = True
                        continue
                    a, s, b, c = t.split(":")
                    walk.append((int(a), s, int(b), int(c)))
                index = []
                for t in ipart.split():
                    k, l = t.split("[")
                    l = l.rstrip("]")
                    index.append((int(k), [int(x) for x in l.split(",")] if l else []))
            except Exception:
                return ("crash", "unparsable observation entry: " + ent[:80], max(0, i - 1))
            dump = ent.split(" ", 1)[1]
            oi = i - 1
            if i > 0:
                op = ops[oi]
                a = int(op[1:])
                if op[0] == "m":
                    req = _ceil(a, unit)
                    # maximal free runs of the zone according to the allocations the client holds
                    iv = sorted((o // unit, o // unit + _ceil(s, unit)) for o, s in live)
                    runs, pos = [], 0
                    for (x, y) in iv:
                        if x > pos:
                            runs.append((pos, x))
                        pos = max(pos, y)
                    if pos < n:
                        runs.append((pos, n))
                    fitting = [y - x for (x, y) in runs if y - x >= req]
                    if res == "m%d=NULL" % a:
                        if a > 0 and fitting:
                            return ("spurious-null", "op %d %s returned NULL although a free run of %d >= %d units exists"
                                    % (oi, op, max(fitting), req), oi)
                    else:
                        try:
                            off = int(res.split("=")[1])
                        except Exception:
                            return ("crash", "unparsable result " + res, oi)
                        if off % unit != 0:
                            return ("align", "op %d %s returned offset %d, not a multiple of the unit %d" % (oi, op, off, unit), oi)
                        if off < 0 or off + a > n * unit or off + req * unit > n * unit:
                            return ("range", "op %d %s returned offset %d: outside the zone of %d bytes" % (oi, op, off, n * unit), oi)
                        t = off // unit
                        for (x, y) in iv:
                            if t < y and x < t + max(req, 1):
                                return ("overlap", "op %d %s returned units [%d,%d) overlapping the live allocation [%d,%d)"
                                        % (oi, op, t, t + req, x, y), oi)
                        inrun = [(x, y) for (x, y) in runs if x <= t and t + req <= y]
                        if a > 0 and (not inrun or inrun[0][1] - inrun[0][0] != min(fitting)):
                            return ("not-best-fit", "op %d %s was placed in a free run of %s units, the smallest fitting run has %d"
                                    % (oi, op, inrun[0][1] - inrun[0][0] if inrun else "?", min(fitting) if fitting else -1), oi)
                        live.append((off, a))
                elif op[0] == "f":
                    if not live:
                        if res != "f%d-" % a:
                            return ("crash", "harness protocol: " + res, oi)
                    else:
                        o, s = live.pop(a % len(live))
                        if res != "f%d@%d" % (a, o):
                            return ("crash", "harness protocol: %s, expected offset %d" % (res, o), oi)
                else:
                    # stale / out-of-range free: the allocator must ignore it
                    if dump != prev_dump:
                        return ("ignored-free", "op %d %s (a free the allocator must ignore) changed the zone" % (oi, op), oi)
            prev_dump = dump
            # state clauses, after init and after every op
            want = sum(_ceil(s, unit) for o, s in live) * unit
            if u != want:
                return ("in-use", "after op %d zone_in_use=%d but the live allocations hold %d bytes" % (oi, u, want), oi)
            if bang or not walk or walk[0][0] != 0:
                return ("walk", "after op %d the segment walk is broken: %s" % (oi, wpart[:80]), oi)
            for j, (t, s, nu, npv) in enumerate(walk):
                if s not in "EF" or nu < 1:
                    return ("walk", "after op %d segment %d has status %s, %d units" % (oi, t, s, nu), oi)
                nxt = walk[j + 1][0] if j + 1 < len(walk) else n
                if t + nu != nxt:
                    return ("walk", "after op %d segment %d (+%d units) is followed by %d" % (oi, t, nu, nxt), oi)
                if j == 0:
                    if npv < 1:
                        return ("links", "after op %d nb_prev of segment 0 is %d" % (oi, npv), oi)
                elif npv != walk[j - 1][2]:
                    return ("links", "after op %d nb_prev of segment %d is %d, previous segment has %d units"
                            % (oi, t, npv, walk[j - 1][2]), oi)
                if j > 0 and s == "E" and walk[j - 1][1] == "E":
                    return ("adjacent-free", "after op %d segments %d and %d are both free: not coalesced"
                            % (oi, walk[j - 1][0], t), oi)
            full = sorted((t, nu) for (t, s, nu, _) in walk if s == "F")
            if full != sorted((o // unit, _ceil(s, unit)) for o, s in live):
                return ("live-set", "after op %d the full segments %s are not the live allocations" % (oi, full[:8]), oi)
            if dfree != n * unit - want:
                return ("in-use", "after op %d zone_debug reports %d free bytes, expected %d" % (oi, dfree, n * unit - want), oi)
            free = sorted((nu, t) for (t, s, nu, _) in walk if s == "E")
            keys = [k for k, _ in index]
            if keys != sorted(set(keys)) or any(not l for _, l in index) \
               or sorted((k, t) for k, l in index for t in l) != free:
                return ("index", "after op %d the free index %s does not list the free segments %s" % (oi, index[:6], free[:6]), oi)
        if not parts[-1].endswith("fini=1"):
            return ("fini", "zone_malloc_fini did not return the base pointer", len(ops))
        return (None, None, None)

    def oracle(self, case, obs):
        sig, msg, at = self._check(case, obs)
        return msg

    def signature(self, case, obs):
        sig, msg, at = self._check(case, obs)
        return sig or "none"

    def shrink(self, case, impl_line):
        """keep the ops up to the first failing one and re-run the implementation on that prefix"""
        sig, msg, at = self._check(case, impl_line)
        if sig is None or sig == "badcase":
            return case, impl_line
        hd, opss = case.split("|")
        ops = opss.split()[:at + 1]
        small = hd.strip() + " | " + " ".join(ops)
        try:
            p = os.path.join(CASES, "C28-shrink-%d.txt" % self.seed)
            with open(p, "w") as f:
                f.write(small + "\n")
            rc, o, e = run([self.hbin(), p], timeout=60)
            line = o.splitlines()[0] if o.splitlines() else ""
            if self._check(small, line)[0] is not None:
                return small, line
        except Exception:
            pass
        return case, impl_line

    def search_cases(self):
        r = Rng(self.seed + 777)
        out = []
        for n in range(1, 9):
            alpha = ["m1", "m2", "m3", "m%d" % n, "f0", "f1", "f2"]
            for seq in itertools.product(alpha, repeat=4):
                out.append("z %d 1 | %s" % (n, " ".join(("m1", "m2", "m1") + seq)))
        return out
