import os
import re
import sys

sys.path.insert(0, os.path.dirname(os.path.abspath(__file__)))
from ptg_common import PtgCheck, jdfgen  # noqa: E402


def fmt_inst(names_order, ents):
    """sorted multiset of completed invocations: class order of the program, then parameters"""
    key = {n: i for i, n in enumerate(names_order)}
    items = sorted((key.get(e.cls, 99), e.params, e.cls) for e in ents if not e.again)
    return "n=%d %s" % (len(items), " ".join("%s(%s)" % (c, ",".join(str(v) for v in ps)) for _, ps, c in items))


def parse_inst_list(txt):
    return [(m.group(1), tuple(int(x) for x in m.group(2).split(",")) if m.group(2) else ())
            for m in re.finditer(r"([A-Za-z_][A-Za-z0-9_]*)\(([-0-9,]*)\)", txt)]


class C01(PtgCheck):
    id = "C01"
    prop_file = "theories/Properties/Properties_C01.v"
    theorems = ("C01_wf_program_is_first_match", "C01_no_task_begins_twice", "C01_only_instances_run", "C01_begin_after_predecessors_ended",
                "C01_quiescent_all_done", "C01_complete_run_executes_each_instance_once", "C01_progress",
                "C01_engine_generic")
    mode = "inst"
    level_text = ("Theorems over an AST of the JDF subset (PTG/PTGDefs.v) and an abstract dataflow engine (PTG/Engine.v): for "
                  "EVERY program accepted by wf_first_match (first applicable input dependency wins; wf_program is the special case of exclusive guards) and EVERY schedule (arbitrary list of Startup / StartupOne / Begin / End events, "
                  "any number of tasks running at once) no task begins twice, only instances of the execution space begin, every "
                  "Begin comes after the End of all predecessors, and in every state where startup is complete and nothing is ready "
                  "or running every instance is done — hence any complete run executes the multiset `instances P`, each exactly once. "
                  "Tie (T-obs): random JDF programs (tools/jdfgen.py) are compiled by the repository's parsec-ptgpp, linked with "
                  "libparsec and run under several scheduler x thread x startup-chunk configurations; the sorted body log is compared "
                  "with `instances P` printed by the extracted model, which also re-checks wf_program on every program. Full for the "
                  "modelled subset and engine; partial for jdf2c's generated C and the real interleavings (tied by observation only).")
    level_note = ("Trusted: Coq kernel, extraction, ocaml/d_ptg.ml parser, tools/jdfgen.py printers (two printers from one structure), "
                  "harness/ptg_driver.c log. The engine's atomic Begin/End steps abstract the runtime: the exactly-once readiness "
                  "of a successor is C07's theorem, the scheduler's no-loss property C08, termination detection C10. Single process "
                  "(every instance local); int32 arithmetic of the generated code is assumed not to overflow; no division by zero.")
    technique = ("Coq invariant proof over all schedules of an abstract dataflow engine instantiated with the JDF semantics + "
                 "observation-differential runs of generated JDF programs through parsec-ptgpp and the real runtime")
    rule = ("programs drawn from DAG templates (firstmatch [overlapping input guards, mask-mode consumer fed twice by one producer], chain, bcast_gather, diamond, split_merge, branch, pipeline2d, fan, tri, mixed) with random "
            "sizes, negative/expression lower bounds, steps, derived locals, ternary/range dependencies, NEW/NULL, priorities, "
            "count_deps; each run under 2-3 configurations scheduler:threads[:startup_iter:startup_chunk]; startup-only programs with chunked startup; "
            "gather2: 1000-1500 successors with exactly two counter-tracked inputs from concurrent startup producers, 4-16 threads, 5 repetitions. "
            "non-trivial = at least 2 instances and 1 dependency edge; distinct = program text")
    trusted = ("tools/jdfgen.py (JDF and model printers of one structure), harness/ptg_driver.c + ptg_rt.h (body log), "
               "OpenMPI singleton init (MPI_Init_thread precedes parsec_init)",)
    assumptions = ("single process: every instance is local (rank_of = 0)",
                   "the generated code's int32 arithmetic does not overflow and never divides by zero (generator stays far inside)",
                   "C07 (a successor becomes ready exactly once, with its last input), C08 (schedulers do not lose or duplicate "
                   "ready tasks) and C10 (termination detection) justify the engine's atomic End/Begin steps")

    def cases(self):
        if self.tier == "quick":
            return (self.firstmatch_cases(4) + self.program_cases(22, 2) + self.program_cases(3, 3) + self.startup_cases(3)
                    + self.gather_cases(3))
        return self.firstmatch_cases(40) + self.program_cases(200, 4) + self.startup_cases(40) + self.gather_cases(24)

    def firstmatch_cases(self, n):
        """overlapping input guards, first match wins (wf_first_match): a mask-mode consumer whose flow A lists
        `<- g ? X PROD(k)` before an unguarded/overlapping memory fallback while its flow B is released first by the
        same producer; the last class (the readers KEEP) runs slow bodies in one of the configurations"""
        r = self.rng
        out = []
        for _ in range(n):
            p = jdfgen.gen_program(r, "firstmatch")
            slow = ":-:-:0:1:%d:%s" % (r.pick([20000, 50000]), p.classes[-1].name)
            c1 = "%s:%d%s" % (r.pick(ptg_scheds()), r.pick([1, 2, 4]), slow)
            c2 = "%s:%d" % (r.pick(ptg_scheds()), r.pick([1, 4, 8]))
            out.append("inst %s %s | %s" % (c1, c2, jdfgen.to_case(p)))
        return out

    def gather_cases(self, n):
        """hundreds of successors with exactly two counter-tracked inputs whose producers are startup tasks,
        many threads, five repetitions in one context: concurrent releases into parsec_update_deps_with_counter
        (a lost successor shows up as a hang under the watchdog, a doubled one as 'ran 2 times')"""
        r = self.rng
        out = []
        variants = ["ctl", "ctl", "data2", "ctl", "ctl", "mixed"]
        for i in range(n):
            v = variants[i % len(variants)]
            # the control gather evaluates ctl_gather_nb between the read of the counter and the CAS: widest window
            p = jdfgen.gen_program(r, "gather2", max_inst=9000, gather_variant=v, gather_n=r.range(1000, 1500))
            cfgs = ["%s:%d:-:-:0:5" % (r.pick(ptg_scheds()), th) for th in r.shuffle([4, 8, 16])[:2]]
            out.append("inst %s | %s" % (" ".join(cfgs), jdfgen.to_case(p)))
        return out

    def startup_cases(self, n):
        """programs of independent tasks with 1-4 parameters (every instance is a startup task),
        always with small startup_iter/startup_chunk values: exercises the chunked enumeration"""
        r = self.rng
        out = []
        for _ in range(n):
            p = jdfgen.gen_program(r, "keys", max_inst=150)
            s1, s2 = r.pick(ptg_scheds()), r.pick(ptg_scheds())
            out.append("inst %s:%d:1:1 %s:%d:%d:%d | %s" % (s1, r.pick([1, 2, 4]), s2, r.pick([1, 4, 8]),
                                                            r.pick([1, 2, 3]), r.pick([1, 2, 5, 7]), jdfgen.to_case(p)))
        return out

    def observation(self, prog, runs):
        names = [c.name for c in prog.classes]
        per = []
        for cs, ents, info in runs:
            per.append((cs, info["end"], fmt_inst(names, ents)))
        if per and all(e == "rc=0" for _, e, _ in per) and len({x for _, _, x in per}) == 1:
            return "wf=1 " + per[0][2]
        return " || ".join("cfg=%s end=%s %s" % x for x in per)

    def oracle(self, case, obs):
        try:
            prog = jdfgen.parse_case(case.split("|", 1)[1])
        except Exception as ex:
            return None if obs.startswith("<bad case") else "unparsable case: %s" % ex
        if obs.startswith("<ptgpp-rejected") or obs.startswith("<generated-C") or obs.startswith("<link-failed"):
            # the compiler refusing a program is not a statement about instances running (C24's subject);
            # it shows up as a disagreement with the model
            return None
        if obs.startswith("<"):
            return "no observation: " + obs[:120]
        space = sorted((prog.classes[ci].name, ps) for ci, ps in jdfgen.instances(prog))
        chunks = [obs] if obs.startswith("wf=1 ") else obs.split(" || ")
        for ch in chunks:
            m = re.match(r"cfg=(\S+) end=(\S+) (.*)$", ch)
            cfg, end, body = (m.group(1), m.group(2), m.group(3)) if m else ("all", "rc=0", ch[5:])
            got = sorted(parse_inst_list(body))
            tail = "" if end == "rc=0" else " (and the run ended with %s)" % end
            # what did run is judged first: a crashed or hung run still shows its duplicates and strangers
            dup = [x for i, x in enumerate(got) if i > 0 and got[i - 1] == x]
            if dup:
                return "[%s] instance %s%s ran %d times%s" % (cfg, dup[0][0], dup[0][1], got.count(dup[0]), tail)
            extra = [x for x in got if x not in space]
            if extra:
                return "[%s] %s%s ran but is not in the execution space%s" % (cfg, extra[0][0], extra[0][1], tail)
            missing = [x for x in space if x not in got]
            if end != "rc=0":
                return "[%s] run did not complete (%s); %d of %d instances ran%s" % (
                    cfg, end, len(got), len(space), (", e.g. %s%s never ran" % missing[0]) if missing else "")
            if missing:
                return "[%s] instance %s%s never ran (%d of %d ran)" % (cfg, missing[0][0], missing[0][1], len(got), len(space))
        return None

    def signature(self, case, obs):
        r = self.oracle(case, obs) or ""
        for k, pat in (("hang", "did not complete (timeout"), ("crash", "did not complete"), ("twice", " times"),
                       ("extra", "not in the execution space"), ("missing", "never ran"), ("noobs", "no observation")):
            if pat in r:
                kind = k
                break
        else:
            kind = "other"
        return kind

    def shrink(self, case, impl_line):
        """keep only the configuration that failed"""
        why = self.oracle(case, impl_line) or ""
        m = re.match(r"\[([^\]]+)\]", why)
        if not m or m.group(1) == "all":
            return case, impl_line
        hd, pt = case.split("|", 1)
        small = "%s %s |%s" % (hd.split()[0], m.group(1), pt)
        chunk = [c for c in impl_line.split(" || ") if c.startswith("cfg=%s " % m.group(1))]
        return small, (chunk[0] if chunk else impl_line)

    def search_cases(self):
        # more programs, every scheduler once
        r = self.rng
        out = []
        for i, s in enumerate(ptg_scheds()):
            p = jdfgen.gen_program(r)
            out.append("inst %s:4 %s:1:1:1 | %s" % (s, s, jdfgen.to_case(p)))
        return out


def ptg_scheds():
    from ptg_common import SCHEDULERS
    return SCHEDULERS
