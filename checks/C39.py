import itertools
import re

from vcheck import Check

SPECIAL = "".join(chr(i) for i in range(1, 11))     # cmd_line.c special_empty_token
DELIMS = [",", ":", ";", "/", "+"]


def enc(s):
    """case-file form of a string: '=' + characters, everything unusual as \\xNN"""
    return "=" + "".join(c if ("!" <= c <= "~" and c != "\\") else "\\x%02x" % ord(c) for c in s)


def encv(v):
    return "NULL" if v is None else "[ " + "".join(enc(s) + " " for s in v) + "]"


def dec_out(tok):
    """a printed string: "..." with \\xNN escapes, or NULL"""
    if tok == "NULL":
        return None
    return re.sub(r"\\x([0-9a-f]{2})", lambda m: chr(int(m.group(1), 16)), tok[1:-1])


def dec_in(tok):
    if tok == "NULL":
        return None
    return re.sub(r"\\x([0-9a-fA-F]{2})", lambda m: chr(int(m.group(1), 16)), tok[1:])


class Toks:
    def __init__(self, text):
        self.t = text.split()
        self.i = 0

    def next(self):
        self.i += 1
        return self.t[self.i - 1]

    def more(self):
        return self.i < len(self.t)

    def vec(self, dec):
        t = self.next()
        if t == "NULL":
            return None
        assert t == "["
        out = []
        while True:
            t = self.next()
            if t == "]":
                return out
            out.append(dec(t))


def out_vec(text):
    return Toks(text).vec(dec_out)


def L(v):
    return [] if v is None else v


class C39(Check):
    id = "C39"
    prop_file = "theories/Properties/Properties_C39.v"
    theorems = ("C39_split_join_modulo_empty_fields", "C39_split_join_roundtrip_iff",
                "C39_split_with_empty_join",
                "C39_split_after_join", "C39_split_with_empty_after_join_iff",
                "C39_join_is_intercalate", "C39_join_range",
                "C39_insert_positions", "C39_insert_element", "C39_delete_positions", "C39_delete_noop",
                "C39_delete_after_insert", "C39_delete_after_insert_beyond_end", "C39_delete_argc",
                "C39_append_prepend_copy_count_len", "C39_append_unique",
                "C39_parse_reports_options_and_tail", "C39_parse_queries",
                "C39_split_with_empty_join_prefix_refuted", "C39_parse_missing_parameter_double_free_prefix_refuted")
    comp = "argv"
    extract_file = "theories/Extract/Extract_Argv.v"
    extracted = ("argv",)
    harness_src = "harness/h_argv.c"
    link_parsec = True
    level_text = (
        "Coq theorems for every string, delimiter, vector and position about an executable model that mirrors the loops of "
        "argv.c: exact characterisation of join(split) for both split variants (split: the empty fields are dropped and "
        "nothing else, round trip iff no leading/trailing/doubled delimiter; split_with_empty: all fields are returned "
        "and the join gives the string back, for every string), split(join v) = v on delimiter-free non-empty tokens, insert = firstn ++ source ++ skipn "
        "with all positional laws, delete = firstn ++ skipn, delete after insert is the identity for start <= count "
        "(and what happens beyond), append/prepend/append_unique/copy/count/len.  For cmd_line.c: a model of make_opt, "
        "find_option, split_shorts, parse, get_ninsts, get_param; theorem for every well-formed command line (options "
        "written as -name/--name or as a group of short options -xyz, each followed by its parameters, then end / '--' "
        "tail / a non-dash token; the model's fuel is shown sufficient): the parser reports exactly those options with "
        "those parameters, in order, and that tail, and get_ninsts/get_param answer accordingly.  "
        "Both findings of this property are repaired in the repository (37250ca: split_with_empty dropped the field after a "
        "trailing delimiter; 6bc250b: the parser freed a parameter vector twice); the model follows the repaired code and the "
        "previous code is refuted in the two ..._prefix_refuted theorems; the oracle still flags both classes "
        "(signatures splitwe-trailing-delim, cmd-crash-multiparam).  "
        "Malformed command lines (unknown option, missing parameter) are modelled and compared with "
        "the code without a theorem of their own.  The model is tied to the code "
        "by running both on every generated case.")
    level_note = ("Trusted: Coq kernel, extraction, harness (vectors are built with malloc/strdup, results printed with "
                  "explicit quoting), the Python oracle.  Assumes malloc/realloc/strdup succeed, delimiter in 1..127, "
                  "int arguments far from overflow, argc == count(argv) for the parser, options declared with "
                  "parsec_cmd_line_make_opt3 (no destination variable, no MCA parameter).")
    technique = ("Coq proof (induction over strings/vectors; loops mirrored with array updates and proved equal to list "
                 "splicing) + differential run of libparsec's argv functions and cmd_line.c against the extracted model")
    rule = ("split/splitwe: every string over {a,b,','} up to length 6 (7 in the thorough tier) plus random strings with other "
            "delimiters and tokens around ARGSIZE=128; join/joinr/ins/inse/del/app/...: small exhaustive boxes of vectors "
            "and positions (including out-of-range and negative) plus random ones; cmd: random declarations and command "
            "lines, mostly well formed, with combined shorts, missing parameters, '--', unknown tokens.  Non-trivial = "
            "the case has at least one non-empty string; distinct = distinct case text")
    trusted = ("harness forks children so that a crash of the code under test is an observation ('<crash>')",
               "cmd_line.c is #included in the harness to print the private list of parsed parameters in order")
    assumptions = ("malloc/realloc/strdup never fail", "delimiter is an ASCII character 1..127",
                   "int positions/counts far from INT_MAX; size_t positions of join_range below 2^31",
                   "parsec_cmd_line_parse is called with argc == parsec_argv_count(argv) on a fresh handle",
                   "options carry no destination variable and no MCA parameter (set_dest has no effect)")

    # ------------------------------------------------------------------ cases
    def rstr(self, r, alpha, lo, hi):
        return "".join(r.pick(alpha) for _ in range(r.range(lo, hi)))

    def rvec(self, r, maxlen=5, allow_null=True, toks=("a", "b", "ab", "ba", "", "c")):
        if allow_null and r.chance(1, 12):
            return None
        return [r.pick(toks) for _ in range(r.range(0, maxlen))]

    def cases(self):
        r = self.rng
        quick = self.tier == "quick"
        out = []
        # --- split: exhaustive over a 2-letter alphabet + the delimiter
        for n in range(0, (6 if quick else 7) + 1):
            for t in itertools.product("ab,", repeat=n):
                s = "".join(t)
                out.append("split , " + enc(s))
                out.append("splitwe , " + enc(s))
        for _ in range(600 if quick else 8000):
            d = r.pick(DELIMS)
            s = self.rstr(r, "ab" + d * 2 + r.pick("cxyz-"), 0, r.pick([8, 16, 40]))
            out.append("%s %s %s" % (r.pick(["split", "splitwe"]), d, enc(s)))
        # tokens around the ARGSIZE buffer (128)
        for n in (126, 127, 128, 129, 200):
            for s in ("a" * n, "a" * n + ",b", "b," + "a" * n + ",", "," + "a" * n, "a" * n + "," + "b" * n):
                out.append("split , " + enc(s))
                out.append("splitwe , " + enc(s))
        # --- join, then split again
        small = ["", "a", "b", "ab"]
        for n in range(0, 4):
            for v in itertools.product(small, repeat=n):
                out.append("join , " + encv(list(v)))
        out.append("join , NULL")
        for _ in range(400 if quick else 5000):
            d = r.pick(DELIMS)
            kind = r.below(3)
            toks = ("a", "b", "ab", "bab") if kind == 0 else ("a", "b", "", "ab") if kind == 1 else ("a", d, "a" + d, d + "b", "", "b")
            out.append("join %s %s" % (d, encv(self.rvec(r, 6, True, toks))))
        out.append("join , " + encv(["a" * 130, "b" * 127, "c" * 128]))
        # --- join_range
        for n in range(0, 5):
            v = ["a", "b", "", "ab", "c"][:n]
            for st in range(0, n + 3):
                for en in range(0, n + 3):
                    out.append("joinr , %s %d %d" % (encv(v), st, en))
        out.append("joinr , NULL 0 3")
        for _ in range(150 if quick else 2000):
            v = self.rvec(r, 6)
            out.append("joinr %s %s %d %d" % (r.pick(DELIMS), encv(v), r.range(0, 8), r.range(0, 9)))
        # --- insert (+ delete at the same position), insert_element
        for tn in range(0, 5):
            t = ["t0", "t1", "t2", "t3"][:tn]
            for sn in range(0, 4):
                s = ["x", "", "z"][:sn]
                for st in range(-1, tn + 3):
                    out.append("ins %s %d %s" % (encv(t), st, encv(s)))
            for st in range(-1, tn + 3):
                out.append("inse %s %d %s" % (encv(t), st, enc("e")))
                out.append("inse %s %d NULL" % (encv(t), st))
                out.append("ins %s %d NULL" % (encv(t), st))
        out += ["ins NULL 0 [ =x ]", "ins NULL 0 NULL", "ins NULL -1 [ =x ]", "inse NULL 0 =x", "inse NULL 0 NULL"]
        for _ in range(500 if quick else 6000):
            t = self.rvec(r, 7)
            s = self.rvec(r, 4)
            n = len(L(t))
            st = r.pick([0, n, n + 1, n - 1, r.range(-2, n + 3), r.range(0, max(n, 1))])
            if r.chance(3, 4):
                out.append("ins %s %d %s" % (encv(t), st, encv(s)))
            else:
                out.append("inse %s %d %s" % (encv(t), st, r.pick(["NULL", enc(r.pick(["a", "", "bb"]))])))
        # --- delete
        for n in range(0, 6):
            v = ["d0", "d1", "", "d3", "d4"][:n]
            for st in range(-1, n + 3):
                for num in range(-1, n + 3):
                    out.append("del %d %s %d %d" % (n, encv(v), st, num))
        out += ["del 3 NULL 0 1", "del 0 NULL 5 0"]
        for _ in range(300 if quick else 4000):
            v = self.rvec(r, 8)
            n = len(L(v))
            argc = r.pick([n, n, n, r.range(-3, 12)])
            out.append("del %d %s %d %d" % (argc, encv(v), r.range(-2, n + 3), r.range(-2, n + 3)))
        # --- append / prepend / unique / copy / count / len
        for _ in range(300 if quick else 3000):
            v = self.rvec(r, 6)
            s = r.pick(["a", "b", "", "ab", "zz", "a" * 40])
            op = r.pick(["app", "appn", "prep", "uniq", "uniq", "copy", "count", "len"])
            if op == "uniq":
                out.append("uniq %s %s %d" % (encv(v), enc(s), r.below(2)))
            elif op in ("copy", "count", "len"):
                out.append("%s %s" % (op, encv(v)))
            else:
                out.append("%s %s %s" % (op, encv(v), enc(s)))
        out += ["copy NULL", "copy [ ]", "count NULL", "count [ ]", "len NULL", "len [ ]", "app NULL =", "prep NULL =", "uniq NULL =a 1"]
        # --- command lines
        for _ in range(2500 if quick else 30000):
            out.append(self.cmd_case(r))
        out += self.cmd_directed()
        return out

    # option pools: names collide on purpose (a long name of one letter, the same name twice, ...)
    SHORTS = ["a", "b", "c", "", ""]
    SDS = [None, None, "sd", "ab", "x", "a"]
    LONGS = [None, "alpha", "beta", "ab", "b", "help"]

    def cmd_decls(self, r):
        n = r.range(1, 4)
        decls = []
        for _ in range(n):
            sh, sd, lg = r.pick(self.SHORTS), r.pick(self.SDS), r.pick(self.LONGS)
            np = r.pick([0, 0, 1, 1, 2, 3]) if r.chance(19, 20) else -1
            decls.append((sh, sd, lg, np))
        return decls

    def cmd_case(self, r, style=None):
        decls = self.cmd_decls(r)
        ok = [d for d in decls if not (d[0] == "" and d[1] is None and d[2] is None) and d[3] >= 0]
        ign = r.below(2)
        style = style if style is not None else r.pick(["wf", "wf", "wf", "shorts", "shorts", "messy"])
        av = ["prog"]
        words = ["p1", "p2", "7", "x", "-a", "--", "", "-", "--beta"]
        n = r.range(0, 5)
        for _ in range(n):
            if not ok:
                break
            if style == "wf" or r.chance(1, 2):
                d = r.pick(ok)
                forms = ([("-" + d[0])] if d[0] else []) + ([("-" + d[1]), ("--" + d[1])] if d[1] is not None else []) \
                    + ([("--" + d[2]), ("-" + d[2])] if d[2] is not None else [])
                av.append(r.pick(forms))
                npar = d[3] if (style == "wf" or r.chance(5, 6)) else r.range(0, d[3])
                for _ in range(npar):
                    av.append(r.pick(["p1", "p2", "7", "x"]) if style == "wf" else r.pick(words))
            elif style == "shorts":
                # combined short options, with or without enough parameters behind them
                letters = [d[0] for d in ok if d[0]] + ["q"] * r.below(2)
                if not letters:
                    continue
                tok = "-" + "".join(r.pick(letters) for _ in range(r.range(2, 3)))
                av.append(tok)
                for _ in range(r.range(0, 4)):
                    av.append(r.pick(["p1", "p2", "x"]))
            else:
                av.append(r.pick(words + ["-zz", "--nope", "-q", SPECIAL, "-ab", "-ba"]))
        end = r.below(5)
        if end == 0:
            av += ["--"] + [r.pick(words) for _ in range(r.range(0, 3))]
        elif end == 1:
            av += [r.pick(["tail", "", "t-1"])] + [r.pick(words) for _ in range(r.range(0, 3))]
        if r.chance(1, 40):
            av = r.pick([None, [], ["prog"]])
        qs = []
        names = [x for d in decls for x in (d[0], d[1], d[2]) if x] + ["nope"]
        for _ in range(r.range(0, 4)):
            qs.append((r.pick(names), r.range(0, 2), r.range(0, 2)))
        return self.cmd_text(ign, decls, av, qs)

    @staticmethod
    def cmd_text(ign, decls, av, qs):
        s = "cmd %d |" % ign
        for sh, sd, lg, np in decls:
            s += " o %s %s %s %d |" % (enc(sh), "NULL" if sd is None else enc(sd), "NULL" if lg is None else enc(lg), np)
        s += " a " + encv(av)
        for name, inst, idx in qs:
            s += " | q %s %d %d" % (enc(name), inst, idx)
        return s

    def cmd_directed(self):
        D = [("a", None, "alpha", 2), ("b", "bb", None, 0), ("c", None, "gamma", 1)]
        M = [("", "mca", "mca", 2)]
        out = []
        for ign in (0, 1):
            for av in (["prog", "-a", "1", "2", "-b", "--gamma", "3", "--", "t", "-a"],
                       ["prog", "--alpha", "1", "2", "rest", "-b"],
                       ["prog", "-bc", "9", "-alpha", "1", "2"],
                       ["prog", "-cb", "9", "tail"],
                       ["prog", "-a", "1"], ["prog", "-a"], ["prog", "-ba"], ["prog", "-bab", "1", "2", "3", "4"],
                       ["prog", "-ab", "x"], ["prog", "-ca"], ["prog", "-cab", "1", "2"],
                       ["prog", "-bq"], ["prog", "-qb"], ["prog", "-"], ["prog", ""], ["prog", "--"], ["prog"],
                       ["prog", "--alpha", "1", SPECIAL], ["prog", "--alpha", SPECIAL, "2"], ["prog", "-c", SPECIAL]):
                out.append(self.cmd_text(ign, D, av, [("a", 0, 0), ("alpha", 0, 1), ("b", 1, 0), ("gamma", 0, 0), ("zz", 0, 0)]))
            out.append(self.cmd_text(ign, M, ["prog", "--mca", "k", "v", "-mca", "k2", "v2", "app", "-x"], [("mca", 1, 1), ("mca", 2, 0)]))
            out.append(self.cmd_text(ign, M, ["prog", "--mca", "k", SPECIAL], [("mca", 0, 0)]))
        return out

    def nontrivial_key(self, case):
        return case if re.search(r"=[^ ]", case) else None

    def dist(self, cases):
        d = {}
        for c in cases:
            k = c.split(" ", 1)[0]
            d[k] = d.get(k, 0) + 1
        d["max_case_len"] = max(len(c) for c in cases)
        return d

    # ----------------------------------------------------------- the oracle
    # decides the property on what the implementation printed; the expected
    # values below are computed from the statement (Python's own split/join/
    # slicing), not from the Coq model
    def oracle(self, case, obs):
        try:
            return self._oracle(case, obs)
        except Exception as e:                      # unparsable = the implementation printed garbage
            return "unparsable observation (%s): %s" % (type(e).__name__, obs[:100])

    def _oracle(self, case, obs):
        op = case.split(" ", 1)[0]
        if obs.startswith("<crash>") or obs.startswith("<timeout>") or obs.startswith("<exit") or obs.startswith("<impl"):
            return "the code under test did not return: " + obs[:60]
        if obs == "<bad case>":
            return None
        t = Toks(case)
        t.next()
        parts = [p.strip() for p in obs.split(" | ")]
        if op in ("split", "splitwe"):
            d, s = t.next(), dec_in(t.next())
            v, j = out_vec(parts[0]), dec_out(parts[1])
            if j != d.join(L(v)):
                return "join of %r with %r gave %r" % (v, d, j)
            if op == "split":
                want = [f for f in s.split(d) if f != ""]
                if L(v) != want:
                    return "split(%r) = %r, expected the non-empty fields %r" % (s, v, want)
                if (v is None) != (want == []):
                    return "split(%r) returned %s for %d tokens" % (s, "NULL" if v is None else "an empty vector", len(want))
            else:
                if j != s:
                    return "join(split_with_empty(%r)) = %r: not the original string (fields %r)" % (s, j, v)
            return None
        if op == "join":
            d, v = t.next(), t.vec(dec_in)
            j, v1, v2 = dec_out(parts[0]), out_vec(parts[1]), out_vec(parts[2])
            if j != d.join(L(v)):
                return "join(%r) = %r" % (v, j)
            if L(v1) != [f for f in j.split(d) if f != ""]:
                return "split(%r) = %r" % (j, v1)
            if d.join(L(v2)) != j:
                return "join(split_with_empty(%r)) = %r: not the original string (fields %r)" % (j, d.join(L(v2)), v2)
            if all(f != "" and d not in f for f in L(v)) and (L(v1) != L(v) or L(v2) != L(v)):
                return "split(join(%r)) = %r / %r" % (v, v1, v2)
            return None
        if op == "joinr":
            d, v, st, en = t.next(), t.vec(dec_in), int(t.next()), int(t.next())
            want = d.join(L(v)[st:en]) if st <= len(L(v)) else ""
            if dec_out(parts[0]) != want:
                return "join_range(%r, %d, %d) = %r, expected %r" % (v, st, en, dec_out(parts[0]), want)
            return None
        if op in ("ins", "inse"):
            tv = t.vec(dec_in)
            st = int(t.next())
            if op == "ins":
                sv = t.vec(dec_in)
            else:
                e = dec_in(t.next())
                sv = None if e is None else [e]
            a = parts[0].split(" ", 1)
            rc, v1 = a[0], out_vec(a[1])
            if tv is None or st < 0:
                want_rc, want = "BAD_PARAM", tv
            elif sv is None:
                want_rc, want = "OK", tv
            else:
                want_rc, want = "OK", tv[:st] + sv + tv[st:]
            if rc != want_rc or v1 != want:
                return "insert(%r, %d, %r) = %s %r, expected %s %r" % (tv, st, sv, rc, v1, want_rc, want)
            if op == "ins" and want_rc == "OK" and sv is not None and st <= len(tv):
                b = parts[1].split(" ", 2)
                if b[0] != "OK" or out_vec(b[2]) != tv or int(b[1]) != len(tv):
                    return "delete(%d, %d) after insert gave %s, expected the original %r" % (st, len(sv), parts[1], tv)
            return None
        if op == "del":
            argc, v, st, num = int(t.next()), t.vec(dec_in), int(t.next()), int(t.next())
            a = parts[0].split(" ", 2)
            rc, argc2, v1 = a[0], int(a[1]), out_vec(a[2])
            if v is None or num == 0 or st > len(v):
                want_rc, want = "OK", v
            elif st < 0 or num < 0:
                want_rc, want = "BAD_PARAM", v
            else:
                want_rc, want = "OK", v[:st] + v[st + num:]
            if rc != want_rc or v1 != want:
                return "delete(%r, %d, %d) = %s %r, expected %s %r" % (v, st, num, rc, v1, want_rc, want)
            if want is not v and st + num <= len(v) and argc2 != argc - num:
                return "delete(%r, %d, %d) set argc to %d from %d" % (v, st, num, argc2, argc)
            if want is v and argc2 != argc:
                return "a delete that does nothing changed argc from %d to %d" % (argc, argc2)
            return None
        if op in ("app", "appn", "prep", "uniq"):
            v, s = t.vec(dec_in), dec_in(t.next())
            a = parts[0].split(" ", 2 if op == "app" else 1)
            v1 = out_vec(a[-1])
            want = (L(v) + [s]) if op in ("app", "appn") else ([s] + L(v)) if op == "prep" else \
                (v if (v is not None and s in v) else L(v) + [s])
            if a[0] != "OK" or v1 != want:
                return "%s(%r, %r) = %s" % (op, v, s, parts[0])
            if op == "app" and int(a[1]) != len(want):
                return "append set argc to %s for %d elements" % (a[1], len(want))
            return None
        if op == "copy":
            v = t.vec(dec_in)
            return None if out_vec(parts[0]) == v else "copy(%r) = %s" % (v, parts[0])
        if op == "count":
            v = t.vec(dec_in)
            return None if int(obs) == len(L(v)) else "count(%r) = %s" % (v, obs)
        if op == "len":
            v = t.vec(dec_in)
            want = 0 if v is None else 8 + sum(len(s) + 1 + 8 for s in v)
            return None if int(obs) == want else "len(%r) = %s, expected %d" % (v, obs, want)
        if op == "cmd":
            return self.cmd_oracle(case, obs)
        return None

    @staticmethod
    def cmd_parse_case(case):
        t = Toks(case)
        t.next()
        ign = int(t.next()) != 0
        decls, av, qs = [], None, []
        while t.more():
            k = t.next()
            if k == "o":
                decls.append((dec_in(t.next()), dec_in(t.next()), dec_in(t.next()), int(t.next())))
            elif k == "a":
                av = t.vec(dec_in)
            elif k == "q":
                qs.append((dec_in(t.next()), int(t.next()), int(t.next())))
        return ign, decls, av, qs

    def cmd_oracle(self, case, obs):
        """What the statement requires: every declared option that appears (as -x, -name, --name,
        or inside a group of short options) is reported with its parameters, in order; what follows
        '--' or starts at the first non-option token is the tail.  Where the command line is
        malformed (unknown option, missing parameter) only an error return is required."""
        ign, decls, av, qs = self.cmd_parse_case(case)
        parts = [p.strip() for p in obs.split(" | ")]
        mk = parts[0].split()[1:]
        opts = []
        for (sh, sd, lg, np), rc in zip(decls, mk):
            bad = (sh == "" and sd is None and lg is None) or np < 0
            if (rc == "BAD_PARAM") != bad:
                return "make_opt(%r, %r, %r, %d) returned %s" % (sh, sd, lg, np, rc)
            if not bad:
                opts.append((sh, sd, lg, np))

        def find(name):
            for k, (sh, sd, lg, np) in enumerate(opts):
                if name == lg or name == sd or (len(name) == 1 and name == sh):
                    return k
            return None

        rc = parts[1]
        if not av:
            return None if rc == "OK" and parts[2] == "params:" else "empty command line: " + obs[:80]
        want, tail, i, malformed, n = [], [], 1, False, len(av)
        av = list(av)
        while i < n:
            tok = av[i]
            if tok == "--":
                tail = av[i + 1:]
                break
            if not tok.startswith("-"):
                tail = av[i:]
                if not ign:
                    malformed = True
                break
            name = tok[2:] if tok.startswith("--") else tok[1:]
            k = find(name)
            if k is None and not tok.startswith("--") and len(name) >= 1 and all(find(c) is not None for c in name):
                # a group of short options: each takes its parameters from the following tokens, in order
                exp, used = [], 0
                for c in name:
                    exp.append("-" + c)
                    for _ in range(opts[find(c)][3]):
                        if i + 1 + used < n:
                            exp.append(av[i + 1 + used])
                            used += 1
                        else:
                            malformed = True
                if malformed:
                    break
                av[i:i + 1 + used] = exp
                n = len(av)
                continue
            if k is None:
                malformed = True
                break
            np = opts[k][3]
            ps = av[i + 1:i + 1 + np]
            if len(ps) < np or SPECIAL in ps:
                malformed = True
                break
            want.append((k, ps))
            i += 1 + np
        if malformed:
            return None if rc == "ERROR" else "malformed command line %r accepted with %s" % (av, rc)
        if rc != "OK":
            return "well-formed command line %r rejected with %s" % (av, rc)
        got = [(int(m.group(1)), [dec_out(x) for x in m.group(2).split()])
               for m in re.finditer(r"\((-?\d+):((?: \"[^\"]*\")*)\)", parts[2])]
        if got != want:
            return "parse(%r) reported %r, expected %r" % (av, got, want)
        tl = parts[3].split(" ", 2)
        if L(out_vec(tl[2])) != tail or int(tl[1]) != len(tail):
            return "parse(%r) left the tail %s, expected %r" % (av, parts[3], tail)
        if qs:
            ans = parts[5][2:].strip().split(" ; ")
            for (name, inst, idx), a in zip(qs, ans):
                k = find(name)
                insts = [ps for (kk, ps) in want if kk == k] if k is not None else []
                wp = insts[inst][idx] if inst < len(insts) and k is not None and idx < opts[k][3] else None
                g = a.split(" ", 1)
                if int(g[0]) != len(insts) or dec_out(g[1]) != wp:
                    return "get_ninsts/get_param(%r, %d, %d) = %s, expected %d %r" % (name, inst, idx, a, len(insts), wp)
        return None

    def signature(self, case, obs):
        w = case.split()
        op = w[0]
        if op == "cmd":
            ign, decls, av, qs = self.cmd_parse_case(case)
            if obs.startswith("<crash>"):
                return "cmd-crash-multiparam" if any(d[3] >= 2 for d in decls) else "cmd-crash"
            return "cmd-" + ("ok" if not obs.startswith("<") else "noreturn")
        if obs.startswith("<"):
            return op + "-noreturn"
        if op == "splitwe":
            return "splitwe-trailing-delim" if dec_in(w[2]).endswith(w[1]) else "splitwe-other"
        if op == "join":
            parts = obs.split(" | ")
            j = dec_out(parts[0].strip())
            t = Toks(case)
            t.next()
            d, v = t.next(), t.vec(dec_in)
            if j == d.join(L(v)) and j.endswith(d) and L(out_vec(parts[1])) == [f for f in j.split(d) if f]:
                return "splitwe-trailing-delim"
            return "join-other"
        return op

    def search_cases(self):
        out = []
        for n in range(0, 8):
            for t in itertools.product("ab,", repeat=n):
                out.append("splitwe , " + enc("".join(t)))
                out.append("split , " + enc("".join(t)))
        out += self.cmd_directed()
        return out
