import os, re, subprocess, sys, shutil
from concurrent.futures import ThreadPoolExecutor
import vcheck
from vcheck import Check
sys.path.insert(0, os.path.join(vcheck.VERIF, "tools"))
import jdflimits as J

LIM = {"in": 10, "out": 10, "flows": 20, "locals": 20, "class_in": 28, "class_out": 23}


def keep_ldefs(acc, dep):
    """local definitions only where the generator's family can carry them: both targets of the dependency
    are tasks (CTL flows, outputs of READ flows), the guard is binary or ternary (an unguarded dependency
    with a bracket is ambiguous for the grammar), and the false-branch call exists"""
    if len(dep) < 5:
        return tuple(dep[:2])
    d, g, l, ct, cf = dep
    if g == "u" or not (acc == "C" or (acc == "R" and d == "o")):
        return (d, g)
    if g != "t":
        cf = 0
    return (d, g, l, ct, cf) if (l or ct or cf) else (d, g)


def slots(dep):
    l, ct, cf = J.ldefs(dep)
    return l + max(ct, cf)


def normalise(prog):
    """make the drawn structure a valid JDF of the generator's family (see tools/jdflimits.py)"""
    out = []
    for (nloc, flows) in prog:
        fl2 = []
        for (acc, deps) in flows:
            deps = [keep_ldefs(acc, dep) for dep in deps]
            # 'm' (ternary, memory on both sides) only where the flow may name memory
            deps = [((d[0], "t") + tuple(d[2:]) if (d[1] == "m" and (acc == "C" or (acc == "R" and d[0] == "o"))) else d)
                    for d in deps]
            if acc == "W":
                # a WRITE flow has outputs only; a ternary would need a task target with a matching input flow
                deps = [(d[0], ("b" if d[1] == "t" else d[1])) for d in deps if d[0] == "o"] or [("o", "u")]   # 'm' stays
            if acc in ("R", "RW") and not any(d[0] == "i" for d in deps):
                deps = [("i", "u")] + deps
            if acc in ("R", "RW") and any(d[:2] == ("i", "t") for d in deps) and not any(d[0] == "o" for d in deps):
                deps = deps + [("o", "u")]
            if acc == "C" and not deps:
                deps = [("i", "b"), ("o", "b")]
            fl2.append((acc, deps))
        out.append((nloc, fl2 or [("R", [("i", "u")])]))
    return out


class C24(Check):
    id = "C24"
    prop_file = "theories/Properties/Properties_C24.v"
    theorems = ("C24_accept_sound", "C24_overlimit_rejected", "C24_malformed_rejected", "C24_prefix_counting_refuted",
                "C24_ldef_counted_is_needed", "C24_ternary_ldef_counting_refuted")
    comp = "ptgcheck"
    extract_file = "theories/Extract/Extract_PTGCheck.v"
    extracted = ("ptgcheck",)
    harness_src = None
    link_parsec = True      # parsec-ptgpp is rebuilt from the repository on every run
    level_text = ("Partial. Proved (all programs): the limit decision of the compiler — every accepted program fits the fixed-size "
                  "runtime arrays (dep_in/dep_out per flow counting two entries per ternary guard, flows per task class, locals), every "
                  "over-limit or malformed program is rejected; the counting of the pinned tree is refuted by a witness (six ternary "
                  "dependencies), repaired by a fix: commit. Tie: generated JDFs (valid at/around each limit, and malformed) go through "
                  "the real parsec-ptgpp in its default generate-and-compile mode; exit status is compared with the model's decision. "
                  "A second mode, 'parsec-ptgpp --Werror -E', is observed too: exit status 0 there must come with C that compiles. "
                  "'Emitted C compiles', 'no non-NULL element overflows a runtime array' (gcc's excess-initializer diagnostics on the "
                  "generated C) and 'same input, same output' (two runs diffed) are TESTED on every program, not proved.")
    level_note = ("Trusted: Coq kernel, extraction, tools/jdflimits.py (two printers from one structure: JDF text and model case), gcc's "
                  "diagnostics. The model covers only the limit checks and two malformed kinds; the other sanity rules of jdf.c, the parser "
                  "and the code generator are exercised, not modelled.")
    technique = ("Coq proof of the limit decisions (per-flow dependencies, flows, locals and local-definition slots, class-level dependency "
                 "indices) + differential run of the real parsec-ptgpp (generate-and-compile mode and --Werror -E mode) on generated JDF programs")
    rule = ("random task classes with flow/dependency/local counts concentrated at limit-1, limit, limit+1 (ternary guards weighted), "
            "plus malformed inputs; non-trivial = some count within 1 of a limit or malformed; distinct = case text")
    trusted = ("tools/jdflimits.py printers; gcc -c of the generated C (invoked by ptgpp itself)",)
    assumptions = ("the compile step uses the limits of the same build (parsec_options.h of _work/pbuild)",)

    def build_sides(self):
        fails = super().build_sides()
        self.ptgpp = os.path.join(vcheck.PBUILD, "parsec/interfaces/ptg/ptg-compiler/parsec-ptgpp")
        return fails

    # ---- generator -------------------------------------------------------
    def rand_flow(self, r, heavy):
        acc = r.pick(["R", "RW", "W", "C", "R", "RW"])
        deps = []
        if heavy:
            # aim at the dependency limits: emitted entries around 10
            for direction in ("i", "o"):
                if r.chance(2, 3):
                    target = r.pick([8, 9, 10, 10, 11, 12])
                    n = 0
                    while n < target:
                        g = r.pick(["t", "t", "m", "b", "u"]) if target - n >= 2 else r.pick(["b", "u"])
                        deps.append((direction, g))
                        n += 2 if g in ("t", "m") else 1
        else:
            for _ in range(r.range(1, 4)):
                deps.append((r.pick(["i", "o"]), r.pick(["u", "b", "t", "m"])))
        return (acc, deps)

    def ldef_flow(self, r, want):
        """a flow one of whose OUTPUT dependencies needs [want] local-definition slots, at a random position
        among its dependencies (the compiler must count the dependency that needs most, wherever it is)"""
        acc = r.pick(["C", "R"])
        g = r.pick(["b", "t"])
        l = r.range(0, want)
        rest = want - l
        big = ("o", g, l, rest, 0) if g == "b" else r.pick([("o", g, l, rest, r.range(0, rest)), ("o", g, l, r.range(0, rest), rest)])
        others = []
        for _ in range(r.range(0, 3)):
            w = r.range(0, max(0, want - 1))
            others.append(r.pick([("o", "b", w, 0, 0), ("o", "u"), ("o", "b"), ("o", "t", 0, w, 0)]))
        pos = r.range(0, len(others))
        deps = [("i", "u")] + others[:pos] + [big] + others[pos:]
        if r.chance(1, 2):
            deps.append(("o", "u"))          # the needy dependency is then never the last one
        return (acc, deps)

    def cases(self):
        r = self.rng
        out = []
        n = 60 if self.tier == "quick" else 1200
        # every malformed kind on a small valid program, on every run
        base = [(1, [("R", [("i", "b"), ("i", "u")]), ("RW", [("i", "u"), ("o", "b")])])]
        for mal in ("syntax", "paren", "unbound", "unbound-guard", "unbound-arg", "unbound-then", "unbound-else"):
            out.append(J.case_text(normalise(base), mal))
        # local definitions ("[ i = a .. b ]") on a dependency that is not the last one of its flow: a small valid
        # program, and programs at / one over the locals limit because of the slots such a dependency needs
        out.append(J.case_text(normalise([(0, [("R", [("i", "u"), ("o", "b", 1, 0, 0), ("o", "u")])])])))
        out.append(J.case_text(normalise([(0, [("C", [("i", "u"), ("o", "t", 1, 1, 2), ("o", "b")]), ("R", [("i", "u")])])])))
        for total in (20, 21):
            out.append(J.case_text(normalise([(total - 4, [("R", [("i", "u"), ("o", "b", 2, 1, 0), ("o", "b", 1, 0, 0), ("o", "u")])])])))
            out.append(J.case_text(normalise([(total - 3, [("C", [("i", "u"), ("o", "t", 0, 1, 2), ("o", "u")]), ("R", [("i", "u"), ("o", "u")])])])))
        # class-level dependency indices: 23 / 24 / 25 output dependencies over three flows (8, 8, 7/8/9), the last
        # flow being the one that crosses the limit; 28 / 29 input dependencies
        for last in (7, 8, 9):
            out.append(J.case_text(normalise([(0, [("R", [("i", "u")] + [("o", "b")] * n_) for n_ in (8, 8, last)])])))
        for last in (8, 9):
            out.append(J.case_text(normalise([(0, [("C", [("i", "b")] * n_ + [("o", "u")]) for n_ in (10, 10, last)])])))
        # a ternary whose TRUE branch introduces more local definitions than its false branch
        out.append(J.case_text(normalise([(0, [("R", [("i", "u"), ("o", "t", 0, 1, 0), ("o", "b"), ("o", "u")])])])))
        out.append(J.case_text(normalise([(17, [("C", [("i", "u"), ("o", "t", 2, 1, 0), ("o", "b")]), ("RW", [("i", "u"), ("o", "t")])])])))
        # a ternary whose two branches both reference memory (each branch needs its own accessor function)
        out.append(J.case_text(normalise([(0, [("RW", [("i", "u"), ("o", "m"), ("o", "b")]), ("W", [("o", "m")]), ("R", [("i", "m")])])])))
        # known finding: a CTL gather (input) dependency with local definitions at both levels
        out.append(J.case_text(normalise([(0, [("C", [("i", "b", 1, 1, 0), ("o", "u")])])])))
        for i in range(n):
            kind = r.below(10)
            mal = None
            if kind <= 3:        # dependency limits
                prog = [(r.range(0, 3), [self.rand_flow(r, True) for _ in range(r.range(1, 3))])]
            elif kind == 4:      # flow-count limits
                nf = r.pick([19, 20, 21, 22])
                prog = [(0, [(r.pick(["R", "RW", "C", "W"]), []) for _ in range(nf)])]
            elif kind == 5:      # locals limit (the parameter k counts); half of the time part of the locals are
                                 # local-definition slots of a dependency
                total = r.pick([19, 20, 21, 22])
                if r.chance(1, 2):
                    prog = [(total - 1, [self.rand_flow(r, False)])]
                else:
                    want = r.range(1, 4)
                    fls = [self.ldef_flow(r, want)]
                    if r.chance(1, 2):
                        fls.insert(r.range(0, 1), self.rand_flow(r, False))
                    prog = [(total - 1 - want, fls)]
            elif kind == 9 and r.chance(1, 2):
                # class-level limit on dependency indices (24-bit action mask for outputs, 29 bits for inputs): several
                # flows, each within its own limit of 10 entries, whose totals sit around the limit; the flow that
                # crosses it is the last one, the first one, or one in the middle
                direction = r.pick(["o", "o", "i"])
                total = r.pick([22, 23, 24, 25, 26]) if direction == "o" else r.pick([27, 28, 29, 30])
                sizes = []
                while sum(sizes) < total:
                    sizes.append(min(r.range(6, 10), total - sum(sizes)))
                if r.chance(1, 2):
                    sizes = r.shuffle(sizes)
                fls = []
                for n_ in sizes:
                    acc = r.pick(["C", "R"]) if direction == "o" else "C"
                    if direction == "o":
                        fls.append((acc, [("i", "u")] + [("o", r.pick(["b", "b", "u"])) for _ in range(n_)]))
                    else:
                        fls.append((acc, [("i", "b") for _ in range(n_)] + [("o", "u")]))
                prog = [(r.range(0, 2), fls)]
            elif kind == 8 and r.chance(1, 2):   # small valid programs with local definitions anywhere
                prog = [(r.range(0, 3), [self.ldef_flow(r, r.range(1, 3)) for _ in range(r.range(1, 2))])]
            elif kind == 6:      # several classes, one over a limit
                prog = [(r.range(0, 2), [self.rand_flow(r, False) for _ in range(r.range(1, 3))]) for _ in range(2)]
                prog.append((0, [self.rand_flow(r, True)]))
            elif kind == 7:
                prog = [(r.range(0, 2), [self.rand_flow(r, False) for _ in range(r.range(1, 4))])]
                mal = r.pick(["syntax", "paren", "unbound", "unbound-guard", "unbound-arg", "unbound-then", "unbound-else"])
                # the unbound-* kinds add one control flow to the first class: keep it within the flow limit
                prog[0] = (prog[0][0], prog[0][1][:18])
            else:
                prog = [(r.range(0, 5), [self.rand_flow(r, r.chance(1, 3)) for _ in range(r.range(1, 4))])
                        for _ in range(r.range(1, 3))]
            out.append(J.case_text(normalise(prog), mal))
        return out

    def counts(self, case):
        mal, prog = J.parse_case(case)
        m = []
        for (nloc, flows) in prog:
            m.append(("locals", nloc + 1 + max([slots(dep) for (acc, deps) in flows for dep in deps] + [0])))
            m.append(("flows", len(flows)))
            m.append(("class_in", sum(1 for (acc, deps) in flows for dep in deps if dep[0] == "i")))
            m.append(("class_out", sum(1 for (acc, deps) in flows for dep in deps if dep[0] == "o")))
            for (acc, deps) in flows:
                m.append(("in", sum((2 if dep[1] in ("t", "m") else 1) for dep in deps if dep[0] == "i")))
                m.append(("out", sum((2 if dep[1] in ("t", "m") else 1) for dep in deps if dep[0] == "o")))
        return mal, m

    def nontrivial_key(self, case):
        mal, m = self.counts(case)
        if mal or any(abs(v - LIM[k]) <= 1 for (k, v) in m):
            return case
        return None

    def dist(self, cases):
        d = {"malformed": 0, "at_limit": 0, "over_limit": 0, "ternary_heavy": 0}
        for c in cases:
            mal, m = self.counts(c)
            d["malformed"] += 1 if mal else 0
            d["at_limit"] += 1 if any(v == LIM[k] for (k, v) in m) else 0
            d["over_limit"] += 1 if any(v > LIM[k] for (k, v) in m) else 0
            d["ternary_heavy"] += 1 if c.count("t ") + c.count("t;") >= 5 else 0
            d["local_definitions"] = d.get("local_definitions", 0) + (1 if re.search(r"[io][bt]\.\d", c) else 0)
        return d

    # ---- implementation side: the real ptgpp --------------------------------
    def one(self, idx_case):
        idx, case = idx_case
        mal, prog = J.parse_case(case)
        d = os.path.join(self.wd, "p%d" % idx)
        os.makedirs(d, exist_ok=True)
        with open(os.path.join(d, "t.jdf"), "w") as f:
            f.write(J.jdf_text(prog, mal))
        inc = ["-I" + os.path.join(vcheck.PBUILD, "parsec/include"), "-I" + vcheck.PBUILD,
               "-I" + os.path.join(vcheck.REPO, "parsec/include"), "-I" + vcheck.REPO]
        try:
            r = subprocess.run([self.ptgpp, "--noline", "-i", "t.jdf", "-o", "t", "-f", "t", "--"] + inc,
                               cwd=d, capture_output=True, text=True, timeout=120)
        except subprocess.TimeoutExpired:
            return "accept=0 overflow=0 det=1 undiag=0 werr_bad=0 <timeout>"
        acc = 1 if r.returncode == 0 else 0
        compiled = os.path.exists(os.path.join(d, "t.o"))
        over = 0
        # a rejection must come with a diagnostic of the compiler itself (or the "#error Too many ..." guard it writes
        # into the generated C): C that merely fails to compile without any such diagnostic is not a rejection
        own = [l for l in r.stderr.splitlines() if l.startswith(("Fatal Error", "parse error", "Error"))]
        limit_guard = "#error Too many" in r.stderr
        self_undiag = 1 if (not acc and not own and not limit_guard) else 0
        if acc:
            # gcc reports every initializer element that does not fit its array; the NULL terminator of an
            # array filled exactly to its limit is benign, any other element is a lost runtime entry
            src = {}
            for m in re.finditer(r"^(t\.[ch]):(\d+):(\d+): warning: excess elements in array initializer", r.stderr, re.M):
                fn, ln, col = m.group(1), int(m.group(2)), int(m.group(3))
                if fn not in src:
                    src[fn] = open(os.path.join(d, fn)).read().splitlines()
                tok = src[fn][ln - 1][col - 1:col + 5]
                if not tok.startswith("NULL"):
                    over += 1
            if not os.path.exists(os.path.join(d, "t.o")):
                acc = 0
        det = 1
        outs = []
        werr_bad = 0
        for k in (1, 2):
            # second mode of use: emit only (-E), warnings are errors.  An exit status 0 there promises C that compiles.
            rw = subprocess.run([self.ptgpp, "--Werror", "--noline", "-E", "-i", "t.jdf", "-o", "u%d" % k, "-f", "t"],
                                cwd=d, capture_output=True, text=True, timeout=120)
            if k == 1 and rw.returncode == 0 and not compiled:
                werr_bad = 1
            if rw.returncode != 0:
                subprocess.run([self.ptgpp, "--noline", "-E", "-i", "t.jdf", "-o", "u%d" % k, "-f", "t"],
                               cwd=d, capture_output=True, text=True, timeout=120)
            try:
                outs.append(open(os.path.join(d, "u%d.c" % k)).read().replace("u%d" % k, "u") +
                            open(os.path.join(d, "u%d.h" % k)).read().replace("u%d" % k, "u"))
            except OSError:
                outs.append(None)
        if outs[0] != outs[1]:
            det = 0
        shutil.rmtree(d, ignore_errors=True)
        return "accept=%d overflow=%d det=%d undiag=%d werr_bad=%d" % (acc, over, det, self_undiag, werr_bad)

    def run_impl(self, casefile, n):
        cases = [l.rstrip("\n") for l in open(casefile) if l.strip() and not l.startswith("#")]
        self.wd = os.path.join(vcheck.WORK, "c24-%d-%d" % (os.getpid(), self.seed))
        os.makedirs(self.wd, exist_ok=True)
        with ThreadPoolExecutor(max_workers=12) as ex:
            res = list(ex.map(self.one, enumerate(cases)))
        shutil.rmtree(self.wd, ignore_errors=True)
        return res

    # ---- property on the implementation's observation ----------------------
    def oracle(self, case, obs):
        m = re.match(r"accept=(\d) overflow=(\d+) det=(\d) undiag=(\d) werr_bad=(\d)", obs)
        if not m:
            return "unparsable observation " + obs
        acc, over, det, undiag = int(m.group(1)), int(m.group(2)), int(m.group(3)), int(m.group(4))
        if int(m.group(5)):
            return ("parsec-ptgpp --Werror -E exits with status 0 and no diagnostic, but the C it emits does not compile "
                    "(a limit of the runtime is exceeded and only the generated #error notices it)")
        if undiag:
            return ("parsec-ptgpp generated C that does not compile without diagnosing the input itself "
                    "(no Fatal/parse error of its own, no limit guard): not a rejection with a diagnostic")
        if det == 0:
            return "two runs of parsec-ptgpp on the same input produced different output"
        if acc and over:
            return "accepted (exit status 0, C compiled) although %d generated entries do not fit a runtime array" % over
        if acc:
            mal, cnt = self.counts(case)
            co = max([v for (k, v) in cnt if k == "class_out"] + [0])
            ci = max([v for (k, v) in cnt if k == "class_in"] + [0])
            if co > 24 or ci > 29:
                return ("accepted (exit status 0, C compiled) although a task class has %d output / %d input dependencies: "
                        "their indices do not fit the 24-bit action mask / 29-bit dependency mask of the runtime" % (co, ci))
            worst = max([v for (k, v) in cnt if k == "locals"] + [0])
            if worst > LIM["locals"]:
                return ("accepted (exit status 0, C compiled) although a task class needs %d locals (named locals + "
                        "local-definition slots), more than MAX_LOCAL_COUNT = %d" % (worst, LIM["locals"]))
        return None

    def signature(self, case, obs):
        if "det=0" in obs:
            return "nondeterministic"
        if "undiag=1" in obs or "werr_bad=1" in obs:
            mal, prog = J.parse_case(case)
            if mal is None and any(acc == "C" and dep[0] == "i" and J.ldefs(dep)[0] and max(J.ldefs(dep)[1:])
                                   for (nloc, flows) in prog for (acc, deps) in flows for dep in deps):
                return "undiagnosed-ctl-gather-ldef-both-levels"
            if "werr_bad=1" in obs and "undiag=0" in obs:
                return "werror-accepts-uncompilable"
            return "undiagnosed-" + (case.split("|")[0].strip())
        mal, m = self.counts(case)
        worst = sorted(((v - LIM[k], k) for (k, v) in m), reverse=True)[0]
        return "overflow-%s" % worst[1]

    def search_cases(self):
        out = []
        for acc in ("R", "RW", "C"):
            for direction in ("i", "o"):
                for nt in (5, 6, 7):
                    for extra in (0, 1):
                        deps = [(direction, "t")] * nt + [(direction, "b")] * extra
                        out.append(J.case_text(normalise([(0, [(acc, deps)])])))
        return out
