"""Shared base of the DTD checks (C03, C04; C17 can build on it).

Case text (one line, see harness/h_dtd.c):
  dtd <ndata> <threads> <sched> <window> <threshold> <spin> <flags> | <task> ; <task> ; ...
  task = blank separated accesses "<datum><r|w|x>", "." = no data, leading ">" = nested.
Observation (both sides):
  in: <t>=<v>,<v> ... | data: v ... | runs: c ... | conflicts=<n> null=<k>
"""
import os
import re
from vcheck import Check, run, log

PMOD = 1000003
MAXF = 8
SCHEDS = ("lfq", "ap", "ll", "gd", "ltq", "lhq", "pbq", "llp", "spq", "rnd", "ip")


# ---- the body function shared by harness, model and oracle ------------------
def fval(tid, ins):
    a = tid + 1
    for v in ins:
        a = (a * 31 + v + 7) % PMOD
    return (a * 17 + 3) % PMOD


def parse_case(case):
    """-> (hdr dict, tasks) with tasks = list of (nested, [(datum, mode)])"""
    head, _, body = case.partition("|")
    w = head.split()
    hdr = {"ndata": int(w[1]), "threads": int(w[2]), "sched": w[3], "window": int(w[4]),
           "threshold": int(w[5]), "spin": int(w[6]), "flags": int(w[7])}
    tasks = []
    body = body.strip()
    if body:
        for t in body.split(";"):
            t = t.strip()
            nested = t.startswith(">")
            if nested:
                t = t[1:]
            acc = [(int(a[:-1]), a[-1]) for a in t.split() if a != "."]
            tasks.append((nested, acc))
    return hdr, tasks


def seq_reference(ndata, tasks):
    """sequential execution in insertion order: (inputs per task, final data)"""
    data = [100 + d for d in range(ndata)]
    ins_all = []
    for tid, (_, acc) in enumerate(tasks):
        ins = [data[d] for (d, m) in acc if m != "w"]
        v = fval(tid, ins)
        for (d, m) in acc:
            if m != "r":
                data[d] = v
        ins_all.append(ins)
    return ins_all, data


def parse_obs(obs):
    """-> dict(ins=[list|None], data=[...], runs=[...], conflicts=int, null=int) or None"""
    m = re.match(r"^in:(.*)\| data:(.*)\| runs:(.*)\| conflicts=(-?\d+) null=(-?\d+)\s*$", obs)
    if not m:
        return None
    ins = []
    for tok in m.group(1).split():
        k, _, v = tok.partition("=")
        ins.append([] if v == "-" else v.split(","))
    return {"ins": ins, "data": [int(x) for x in m.group(2).split()],
            "runs": [int(x) for x in m.group(3).split()],
            "conflicts": int(m.group(4)), "null": int(m.group(5))}


def task_txt(acc, nested=False):
    s = " ".join("%d%s" % (d, m) for (d, m) in acc) if acc else "."
    return (">" if nested else "") + s


def case_txt(ndata, threads, sched, window, threshold, spin, flags, tasks):
    return "dtd %d %d %s %d %d %d %d | %s" % (
        ndata, threads, sched, window, threshold, spin, flags,
        " ; ".join(task_txt(a, n) for (n, a) in tasks))


def repeat_class(acc):
    """how a task uses one datum several times:
       None      no datum twice
       'rw'      supported shape: reads, then ONE final write/read-write flow of that datum
       'rr'      the same datum through several read flows only
       'wx'      a write/read-write flow of the datum followed by another flow of it"""
    worst = None
    for d in set(x for x, _ in acc):
        ms = [m for (x, m) in acc if x == d]
        if len(ms) < 2:
            continue
        if all(m == "r" for m in ms):
            c = "rr"
        elif all(m == "r" for m in ms[:-1]):
            c = "rw"
        else:
            c = "wx"
        order = {None: 0, "rw": 1, "rr": 2, "wx": 3}
        if order[c] > order[worst]:
            worst = c
    return worst


# ---- generator ----------------------------------------------------------------
class SeqGen:
    """insertion sequences aimed at the case splits of the proofs: long reader groups
       between writers, WAW chains, independent groups, repeated data, empty tasks."""

    def __init__(self, rng):
        self.r = rng

    def access_list(self, ndata, maxacc, repeats):
        r = self.r
        k = r.pick([1, 1, 1, 2, 2, 2, 3, 3, 4, maxacc]) if maxacc > 1 else 1
        k = min(k, maxacc)
        ds = r.shuffle(range(ndata))[:min(k, ndata)]
        acc = [(d, r.pick(["r", "r", "r", "w", "x", "x"])) for d in ds]
        if repeats and r.chance(1, 3) and acc and len(acc) < MAXF:
            # supported repeat shape: extra read flows of a datum before its write flow
            i = r.below(len(acc))
            d, m = acc[i]
            if m != "r":
                acc = acc[:i] + [(d, "r")] * r.range(1, 2) + acc[i:]
        return acc[:MAXF]

    def sequence(self, ndata, ntasks, style, repeats=True):
        r = self.r
        tasks = []
        if style == "mixed":
            for _ in range(ntasks):
                if r.chance(1, 25):
                    tasks.append([])
                else:
                    tasks.append(self.access_list(ndata, 4, repeats))
        elif style == "readers":      # writer, many readers, writer ... on few data
            while len(tasks) < ntasks:
                d = r.below(ndata)
                tasks.append([(d, r.pick(["w", "x"]))])
                for _ in range(r.range(2, 9)):
                    a = [(d, "r")]
                    if r.chance(1, 3):
                        e = r.below(ndata)
                        if e != d:
                            a.append((e, r.pick(["r", "x", "w"])))
                    tasks.append(r.shuffle(a))
            tasks = tasks[:ntasks]
        elif style == "chain":        # RW chains on each datum, interleaved
            for i in range(ntasks):
                d = i % ndata if r.chance(3, 4) else r.below(ndata)
                a = [(d, r.pick(["x", "x", "w"]))]
                if r.chance(1, 4):
                    e = r.below(ndata)
                    if e != d:
                        a.append((e, "r"))
                tasks.append(a)
        elif style == "groups":       # independent groups of data: no edge between groups
            g = max(1, ndata // 2)
            for _ in range(ntasks):
                lo = r.below(g) * 2
                ds = [d for d in (lo, lo + 1) if d < ndata]
                a = [(d, r.pick(["r", "r", "w", "x"])) for d in r.shuffle(ds)[:r.range(1, len(ds))]]
                tasks.append(a)
        elif style == "wide":         # tasks touching most data
            for _ in range(ntasks):
                ds = r.shuffle(range(ndata))[:r.range(max(1, ndata - 2), min(ndata, MAXF))]
                tasks.append([(d, r.pick(["r", "r", "x", "w"])) for d in ds])
        else:
            raise ValueError(style)
        return [(False, a) for a in tasks]


class DTDCheck(Check):
    """common plugin part of the DTD properties (component `dtd`)."""
    comp = "dtd"
    extract_file = "theories/Extract/Extract_DTD.v"
    extracted = ("dtd",)
    harness_src = "harness/h_dtd.c"
    link_parsec = True
    per_check_bin = True
    case_timeout_ms = 60000

    def impl_timeout(self):
        return 1500 if self.tier == "quick" else 6000

    def run_impl(self, casefile, n):
        env = dict(os.environ)
        env["H_DTD_TIMEOUT_MS"] = str(self.case_timeout_ms)
        rc, o, e = run([self.hbin(), casefile], timeout=self.impl_timeout(), env=env)
        lines = o.splitlines()
        st = {"maxr": 0, "maxw": 0, "maxrw": 0, "overlapping_reader_cases": 0}
        for m in re.finditer(r"#stat maxw=(\d+) maxrw=(\d+) maxr=(\d+)", e):
            st["maxw"] = max(st["maxw"], int(m.group(1)))
            st["maxrw"] = max(st["maxrw"], int(m.group(2)))
            st["maxr"] = max(st["maxr"], int(m.group(3)))
            st["overlapping_reader_cases"] += int(m.group(3)) > 1
        self.cov["impl_overlap_stats"] = st
        if rc != 0 or len(lines) != n:
            lines = lines[:n] + ["<impl rc=%d: %s>" % (rc, e.strip()[-200:].replace("\n", " "))] * (n - len(lines))
        return lines

    # ---- configurations ------------------------------------------------
    def configs(self):
        """(threads, sched, window, threshold) tuples of this run: each is one worker process"""
        r = self.rng
        base = [(1, "lfq", 0, 0), (4, "lfq", 0, 0), (16, "ap", 0, 0), (4, "ll", 4, 2), (8, "gd", 1, 0), (16, "lfq", 2, 1)]
        extra = []
        nextra = 2 if self.tier == "quick" else 10
        for _ in range(nextra):
            w = r.pick([0, 1, 2, 3, 4, 8, 16])
            extra.append((r.pick([1, 2, 3, 4, 8, 16]), r.pick(SCHEDS), w, r.range(0, max(0, w)) if w else 0))
        return base + extra

    def gen_cases(self, nseq, maxtasks):
        r = self.rng
        g = SeqGen(r)
        cfgs = self.configs()
        out = []
        styles = ["mixed", "mixed", "readers", "readers", "chain", "groups", "wide"]
        for i in range(nseq):
            ndata = r.range(1, 6)
            nt = r.pick([r.range(1, 8), r.range(5, 30), r.range(20, maxtasks)])
            tasks = g.sequence(ndata, nt, r.pick(styles))
            spin = r.pick([0, r.range(1, 1000), r.range(1, 1000)])
            # the same sequence under a few configurations
            for cfg in r.shuffle(cfgs)[:r.range(2, 3)]:
                th, sc, w, h = cfg
                flags = 0
                if w == 0 and r.chance(1, 4):
                    flags |= 2          # hold: whole DAG unrolled before anything runs
                if r.chance(1, 10):
                    flags |= 1          # no flush before the wait
                out.append(case_txt(ndata, th, sc, w, h, spin, flags, tasks))
        return out

    def nontrivial_key(self, case):
        hdr, tasks = parse_case(case)
        # non trivial: at least one dependency (two tasks on one datum, one of them writing)
        seen = {}
        dep = False
        for _, acc in tasks:
            for d, m in acc:
                if d in seen and (m != "r" or seen[d]):
                    dep = True
                seen[d] = seen.get(d, False) or m != "r"
        return case if dep else None

    def dist(self, cases):
        d = {"cases": len(cases), "tasks_hist": {}, "threads": {}, "sched": {}, "window": {}, "hold": 0,
             "repeat_tasks": 0, "max_tasks": 0}
        for c in cases:
            hdr, tasks = parse_case(c)
            b = "1-8" if len(tasks) <= 8 else "9-30" if len(tasks) <= 30 else "31-60" if len(tasks) <= 60 else "61+"
            d["tasks_hist"][b] = d["tasks_hist"].get(b, 0) + 1
            d["max_tasks"] = max(d["max_tasks"], len(tasks))
            for k, f in (("threads", "threads"), ("sched", "sched"), ("window", "window")):
                d[k][str(hdr[f])] = d[k].get(str(hdr[f]), 0) + 1
            d["hold"] += (hdr["flags"] >> 1) & 1
            d["repeat_tasks"] += sum(1 for _, a in tasks if repeat_class(a))
        return d
