"""Shared base of the DTD checks (C03, C04; C17 can build on it).

Case text (one line, see harness/h_dtd.c):
  dtd <ndata> <threads> <sched> <window> <threshold> <spin> <flags> | <task> ; <task> ; ...
  task = blank separated accesses "<datum><r|w|x>", "." = no data, leading ">" = nested;
  a field "!" is a wait point (parsec_taskpool_wait, then insertion goes on), not a task.
Observation (both sides):
  in: <t>=<v>,<v> ... | data: v ... | runs: c ... | conflicts=<n> null=<k>
"""
import os
import re
from vcheck import Check, run, log

PMOD = 1000003
MAXF = 8
SCHEDS = ("lfq", "ap", "ll", "gd", "ltq", "lhq", "pbq", "llp", "spq", "rnd", "ip")


# ---- the body function shared by harness, model and oracle ------------------
def fval(tid, ins):
    a = tid + 1
    for v in ins:
        a = (a * 31 + v + 7) % PMOD
    return (a * 17 + 3) % PMOD


def parse_case(case):
    """-> (hdr dict, tasks) with tasks = list of (nested, [(datum, mode)])"""
    head, _, body = case.partition("|")
    w = head.split()
    hdr = {"ndata": int(w[1]), "threads": int(w[2]), "sched": w[3], "window": int(w[4]),
           "threshold": int(w[5]), "spin": int(w[6]), "flags": int(w[7])}
    tasks = []
    body = body.strip()
    if body:
        fields = [t.strip() for t in body.split(";")]
        if fields and fields[-1] == "":
            fields = fields[:-1]          # a trailing ';' does not start a task
        for t in fields:
            if t == "!":                  # wait point of the inserting thread, not a task
                continue
            nested = t.startswith(">")
            if nested:
                t = t[1:]
            acc = [(int(a[:-1]), a[-1]) for a in t.split() if a != "."]
            tasks.append((nested, acc))
    return hdr, tasks


def seq_reference(ndata, tasks):
    """sequential execution in insertion order: (inputs per task, final data)"""
    data = [100 + d for d in range(ndata)]
    ins_all = []
    for tid, (_, acc) in enumerate(tasks):
        ins = [data[d] for (d, m) in acc if m != "w"]
        v = fval(tid, ins)
        for (d, m) in acc:
            if m != "r":
                data[d] = v
        ins_all.append(ins)
    return ins_all, data


def parse_obs(obs):
    """-> dict(ins=[list|None], data=[...], runs=[...], conflicts=int, null=int) or None"""
    m = re.match(r"^in:(.*)\| data:(.*)\| runs:(.*)\| conflicts=(-?\d+) null=(-?\d+)\s*$", obs)
    if not m:
        return None
    ins = []
    for tok in m.group(1).split():
        k, _, v = tok.partition("=")
        ins.append([] if v == "-" else v.split(","))
    return {"ins": ins, "data": [int(x) for x in m.group(2).split()],
            "runs": [int(x) for x in m.group(3).split()],
            "conflicts": int(m.group(4)), "null": int(m.group(5))}


def task_txt(acc, nested=False):
    s = " ".join("%d%s" % (d, m) for (d, m) in acc) if acc else "."
    return (">" if nested else "") + s


def case_txt(ndata, threads, sched, window, threshold, spin, flags, tasks):
    return "dtd %d %d %s %d %d %d %d | %s" % (
        ndata, threads, sched, window, threshold, spin, flags,
        " ; ".join(task_txt(a, n) for (n, a) in tasks))


def repeat_class(acc):
    """how a task uses one datum several times:
       None      no datum twice
       'rw'      supported shape: reads, then ONE final write/read-write flow of that datum
       'rr'      the same datum through several read flows only
       'wx'      a write/read-write flow of the datum followed by another flow of it"""
    worst = None
    for d in set(x for x, _ in acc):
        ms = [m for (x, m) in acc if x == d]
        if len(ms) < 2:
            continue
        if all(m == "r" for m in ms):
            c = "rr"
        elif all(m == "r" for m in ms[:-1]):
            c = "rw"
        else:
            c = "wx"
        order = {None: 0, "rw": 1, "rr": 2, "wx": 3}
        if order[c] > order[worst]:
            worst = c
    return worst


# ---- generator ----------------------------------------------------------------
class SeqGen:
    """insertion sequences aimed at the case splits of the proofs: long reader groups
       between writers, WAW chains, independent groups, repeated data, empty tasks."""

    def __init__(self, rng):
        self.r = rng

    def access_list(self, ndata, maxacc, repeats):
        r = self.r
        k = r.pick([1, 1, 1, 2, 2, 2, 3, 3, 4, maxacc]) if maxacc > 1 else 1
        k = min(k, maxacc)
        ds = r.shuffle(range(ndata))[:min(k, ndata)]
        acc = [(d, r.pick(["r", "r", "r", "w", "x", "x"])) for d in ds]
        if repeats and r.chance(1, 3) and acc and len(acc) < MAXF:
            # supported repeat shape: extra read flows of a datum before its write flow
            i = r.below(len(acc))
            d, m = acc[i]
            if m != "r":
                acc = acc[:i] + [(d, "r")] * r.range(1, 2) + acc[i:]
        return acc[:MAXF]

    def sequence(self, ndata, ntasks, style, repeats=True):
        r = self.r
        tasks = []
        if style == "mixed":
            for _ in range(ntasks):
                if r.chance(1, 25):
                    tasks.append([])
                else:
                    tasks.append(self.access_list(ndata, 4, repeats))
        elif style == "readers":      # writer, many readers, writer ... on few data
            while len(tasks) < ntasks:
                d = r.below(ndata)
                tasks.append([(d, r.pick(["w", "x"]))])
                for _ in range(r.range(2, 9)):
                    a = [(d, "r")]
                    if r.chance(1, 3):
                        e = r.below(ndata)
                        if e != d:
                            a.append((e, r.pick(["r", "x", "w"])))
                    tasks.append(r.shuffle(a))
            tasks = tasks[:ntasks]
        elif style == "chain":        # RW chains on each datum, interleaved
            for i in range(ntasks):
                d = i % ndata if r.chance(3, 4) else r.below(ndata)
                a = [(d, r.pick(["x", "x", "w"]))]
                if r.chance(1, 4):
                    e = r.below(ndata)
                    if e != d:
                        a.append((e, "r"))
                tasks.append(a)
        elif style == "groups":       # independent groups of data: no edge between groups
            g = max(1, ndata // 2)
            for _ in range(ntasks):
                lo = r.below(g) * 2
                ds = [d for d in (lo, lo + 1) if d < ndata]
                a = [(d, r.pick(["r", "r", "w", "x"])) for d in r.shuffle(ds)[:r.range(1, len(ds))]]
                tasks.append(a)
        elif style == "wide":         # tasks touching most data
            for _ in range(ntasks):
                ds = r.shuffle(range(ndata))[:r.range(max(1, ndata - 2), min(ndata, MAXF))]
                tasks.append([(d, r.pick(["r", "r", "x", "w"])) for d in ds])
        else:
            raise ValueError(style)
        return [(False, a) for a in tasks]


# schedulers of the main stream.  ll, llp and ip re-queue a task that returned AGAIN where it
# is selected again at once: with few threads the writer's retry path livelocks (finding
# C03-lifo-again-livelock); they are exercised by the defect stream only.
MAIN_SCHEDS = ("lfq", "ap", "gd", "ltq", "lhq", "pbq", "spq", "rnd")
LIFO_SCHEDS = ("ll", "llp", "ip")


def expected_line(case):
    """what the observation must be when C03 and C04 hold (python reference, not the model)"""
    hdr, tasks = parse_case(case)
    ins, data = seq_reference(hdr["ndata"], tasks)
    return ("in:" + "".join(" %d=%s" % (i, ",".join(map(str, x)) if x else "-") for i, x in enumerate(ins))
            + " | data:" + "".join(" %d" % v for v in data) + " | runs:" + " 1" * len(tasks)
            + " | conflicts=0 null=0")


def defect_class(case):
    """known-defect class an input belongs to (None = main stream)"""
    hdr, tasks = parse_case(case)
    worst = None
    order = {None: 0, "rw": 1, "rr": 2, "wx": 3}
    for _, a in tasks:
        c = repeat_class(a)
        if order[c] > order[worst]:
            worst = c
    if worst == "rr":
        # the read-only repeated task directly after a wait point: inserted when the writer before
        # it has completed (the "parent is not alive" path) - a finding of its own
        fields = [f.strip() for f in case.partition("|")[2].split(";")]
        for i, f in enumerate(fields):
            if i > 0 and fields[i - 1] == "!" and f not in ("!", "", "."):
                acc = [(int(a[:-1]), a[-1]) for a in f.lstrip(">").split() if a != "."]
                if repeat_class(acc) == "rr":
                    return "repeat-rr-late"
    if worst:
        return "repeat-" + worst
    if hdr["sched"] in LIFO_SCHEDS:
        return "lifo-again"
    return None


def c03_verdict(case, obs):
    """C03 on one observation: None or (kind, text)"""
    if obs.startswith("<not run"):
        return None             # the harness gave up after many hangs: no observation of this case
    if obs.startswith("<hang"):
        return ("hang", "the taskpool never completed: some inserted task never ran (%s)" % obs)
    if obs.startswith("<"):
        return ("crash", "no observation: " + obs[:100])
    o = parse_obs(obs)
    if o is None:
        return ("unparsable", "unparsable observation " + obs[:80])
    hdr, tasks = parse_case(case)
    ins, data = seq_reference(hdr["ndata"], tasks)
    if len(o["runs"]) != len(tasks) or len(o["ins"]) != len(tasks):
        return ("unparsable", "observation has %d tasks, case has %d" % (len(o["runs"]), len(tasks)))
    for t, c in enumerate(o["runs"]):
        if c != 1:
            return ("runs", "task %d ran %d times" % (t, c))
    if o["null"] != 0:
        return ("null", "%d flows received a NULL data pointer" % o["null"])
    for t, (got, want) in enumerate(zip(o["ins"], ins)):
        if got != [str(v) for v in want]:
            return ("value", "task %d observed inputs %s, sequential execution in insertion order gives %s"
                    % (t, ",".join(got) or "-", ",".join(map(str, want)) or "-"))
    if o["data"] != data:
        return ("value", "final data %s, sequential execution gives %s" % (o["data"], data))
    return None


def c04_verdict(case, obs):
    o = parse_obs(obs)
    if o is None:
        return None             # no observation of execution intervals (hang / crash: C03's business)
    if o["conflicts"] != 0:
        return ("overlap", "%d conflicting overlaps: a task ran while another task holding the same datum, "
                "one of them for writing, was inside its body" % o["conflicts"])
    return None


class DTDCheck(Check):
    """common plugin part of the DTD properties (component `dtd`)."""
    comp = "dtd"
    extract_file = "theories/Extract/Extract_DTD.v"
    extracted = ("dtd",)
    harness_src = "harness/h_dtd.c"
    link_parsec = True
    per_check_bin = True
    case_timeout_ms = 60000
    defect_timeout_ms = 10000
    styles = ("mixed", "mixed", "readers", "readers", "chain", "groups", "wide")

    def impl_timeout(self):
        return 1500 if self.tier == "quick" else 6000

    def mbin(self):
        # the two DTD checks may run at the same time: one driver binary per check
        import vcheck
        return os.path.join(vcheck.BIN, "vm_" + self.comp + "_" + self.id)

    def run_impl(self, casefile, n):
        env = dict(os.environ)
        env["H_DTD_TIMEOUT_MS"] = str(self.defect_timeout_ms if "-defects-" in os.path.basename(casefile)
                                      else self.case_timeout_ms)
        rc, o, e = run([self.hbin(), casefile], timeout=self.impl_timeout(), env=env)
        lines = o.splitlines()
        st = self.cov.setdefault("impl_overlap_stats",
                                 {"max_concurrent_readers": 0, "max_writers": 0, "max_readers_with_writer": 0,
                                  "cases_with_overlapping_readers": 0})
        for m in re.finditer(r"#stat maxw=(\d+) maxrw=(\d+) maxr=(\d+)", e):
            st["max_writers"] = max(st["max_writers"], int(m.group(1)))
            st["max_readers_with_writer"] = max(st["max_readers_with_writer"], int(m.group(2)))
            st["max_concurrent_readers"] = max(st["max_concurrent_readers"], int(m.group(3)))
            st["cases_with_overlapping_readers"] += int(m.group(3)) > 1
        if rc != 0 or len(lines) != n:
            lines = lines[:n] + ["<impl rc=%d: %s>" % (rc, e.strip()[-200:].replace("\n", " "))] * (n - len(lines))
        return lines

    # ---- configurations ------------------------------------------------
    def configs(self):
        """(threads, sched, window, threshold) tuples of this run: each is one worker process"""
        r = self.rng
        base = [(1, "lfq", 0, 0), (4, "lfq", 0, 0), (16, "ap", 0, 0), (4, "gd", 4, 2), (8, "pbq", 1, 0), (16, "lfq", 2, 1)]
        extra = []
        nextra = 2 if self.tier == "quick" else 12
        for _ in range(nextra):
            w = r.pick([0, 1, 2, 3, 4, 8, 16])
            extra.append((r.pick([1, 2, 3, 4, 8, 16]), r.pick(MAIN_SCHEDS), w, r.range(0, w) if w else 0))
        return base + extra

    def gen_cases(self, nseq, maxtasks):
        r = self.rng
        g = SeqGen(r)
        cfgs = self.configs()
        out = []
        for i in range(nseq):
            ndata = r.range(1, 6)
            nt = r.pick([r.range(1, 8), r.range(5, 30), r.range(20, maxtasks)])
            tasks = g.sequence(ndata, nt, r.pick(self.styles), repeats=False)
            spin = r.pick([0, r.range(1, 1000), r.range(1, 1000)])
            # tasks inserting tasks: the last top-level task inserts the k tasks that follow it (one
            # producer at a time: the main thread is waiting by then, so the insertion order is the
            # order of the case).  Only without window: a body blocked by the window waits for tasks
            # that may depend on its own completion.
            nk = r.range(1, min(8, nt - 1)) if nt >= 2 and r.chance(1, 6) else 0
            # the same sequence under a few configurations
            for cfg in r.shuffle(cfgs)[:r.range(2, 3)]:
                th, sc, w, h = cfg
                flags = 0
                if w == 0 and r.chance(1, 4):
                    flags |= 2          # hold: whole DAG unrolled before anything runs
                if r.chance(1, 10):
                    flags |= 1          # no flush before the wait
                tl = tasks
                if nk and w == 0:
                    tl = tasks[:nt - nk] + [(True, a) for (_, a) in tasks[nt - nk:]]
                out.append(case_txt(ndata, th, sc, w, h, spin, flags, tl))
        return out

    def late_rr_cases(self):
        # read-only repeated tile inserted AFTER the writer before it completed (wait point first):
        # each flow is retained by its own walk, the second releases the first at insertion,
        # completion releases one per flow: readers = -1, later writers do not wait for a reader
        r4 = " ; ".join(["0r ; 0r ; 0r ; 0r ; 0x"] * 12)
        return ["dtd 1 %d rnd 0 0 %d 0 | 0x ; ! ; %s ; ! ; %s" % (th, s, t, r4)
                for th, s, t in ((3, 0, "0r 0r"), (3, 5, "0r 0r"), (2, 0, "0r 0r 0r"), (3, 7, "0r 0r 0r"))]

    def rr_cases(self, n):
        """one task reading the same tile through several READ-ONLY parameters, inserted while the
        writer before it is alive (hold until the wait point), completed (the wait point), then
        groups of readers and a writer of that tile: every reader of the task must have been
        counted once and released once (the other shapes of repeated tiles are known defects)"""
        r = self.rng
        out = []
        for _ in range(n):
            ndata = r.range(1, 3)
            d = r.below(ndata)
            t = [(d, "r")] * r.range(2, 4)
            for e in range(ndata):
                if e != d and r.chance(1, 2):
                    t.insert(r.below(len(t) + 1), (e, "r"))
            head = [[(e, "x")] for e in range(ndata)] + [t]
            tail = []
            for _ in range(r.range(6, 12)):
                tail += [[(d, "r")]] * r.range(3, 6) + [[(d, r.pick(["x", "w"]))]]
            txt = " ; ".join(task_txt(a) for a in head) + " ; ! ; " + " ; ".join(task_txt(a) for a in tail)
            out.append("dtd %d %d %s 0 0 %d 2 | %s" % (ndata, r.pick([2, 3, 3, 4]), r.pick(["rnd", "rnd", "lfq", "ap"]),
                                                       r.range(1, 1000), txt))
        return out

    def cases(self):
        if self.tier == "quick":
            return self.gen_cases(45, 60) + self.rr_cases(6)
        return self.gen_cases(400, 200) + self.rr_cases(60)

    # ---- inputs of the known-defect classes: oracle only, never part of the differential stream
    def defect_cases(self):
        return []

    def main_flow(self):
        fails, oracle_fail, cases, impl, model = super().main_flow()
        extra = [] if os.environ.get("VERIF_DTD_SKIP_DEFECTS") else list(self.defect_cases())
        ran = bool(impl) and len(impl) == len(cases)
        if extra and ran:
            eimpl, emodel = self.correspond(extra, "defects")
            hits = 0
            for i, (c, a) in enumerate(zip(extra, eimpl)):
                why = self.oracle(c, a)
                if why:
                    hits += 1
                    oracle_fail.append((len(cases) + i, why))
            self.cov["defect_stream"] = {"cases": len(extra), "violations": hits,
                                         "note": "inputs of known-defect classes (intra-task repeated data, LIFO "
                                                 "schedulers); decided by the oracle only, not diffed with the model"}
            cases = cases + extra
            impl = impl + eimpl
            model = model + emodel
        return fails, oracle_fail, cases, impl, model

    def verdict(self, case, obs):
        """(kind, text) or None: the property of this check on one observation"""
        return None

    def oracle(self, case, obs):
        v = self.verdict(case, obs)
        return v[1] if v else None

    def signature(self, case, obs):
        v = self.verdict(case, obs)
        kind = v[0] if v else "none"
        return "%s-%s" % (defect_class(case) or "main", kind)

    def nontrivial_key(self, case):
        hdr, tasks = parse_case(case)
        # non trivial: at least one dependency (two tasks on one datum, one of them writing)
        seen = {}
        dep = False
        for _, acc in tasks:
            for d, m in acc:
                if d in seen and (m != "r" or seen[d]):
                    dep = True
                seen[d] = seen.get(d, False) or m != "r"
        return case if dep else None

    def dist(self, cases):
        d = {"cases": len(cases), "tasks_hist": {}, "threads": {}, "sched": {}, "window": {}, "hold": 0,
             "noflush": 0, "max_tasks": 0, "nested_cases": 0,
             "sequences": len(set(c.partition("|")[2].replace(">", "") for c in cases))}
        for c in cases:
            hdr, tasks = parse_case(c)
            b = "1-8" if len(tasks) <= 8 else "9-30" if len(tasks) <= 30 else "31-60" if len(tasks) <= 60 else "61+"
            d["tasks_hist"][b] = d["tasks_hist"].get(b, 0) + 1
            d["max_tasks"] = max(d["max_tasks"], len(tasks))
            for k, f in (("threads", "threads"), ("sched", "sched"), ("window", "window")):
                d[k][str(hdr[f])] = d[k].get(str(hdr[f]), 0) + 1
            d["hold"] += (hdr["flags"] >> 1) & 1
            d["noflush"] += hdr["flags"] & 1
            d["nested_cases"] += any(n for n, _ in tasks)
        return d

    def search_cases(self):
        # directed small sequences: every mode pair on one datum, reader groups of growing size
        out = []
        for th, sc in ((1, "lfq"), (4, "lfq"), (16, "ap")):
            for a in "rwx":
                for b in "rwx":
                    for c in "rwx":
                        out.append("dtd 2 %d %s 0 0 7 2 | 0%s ; 0%s 1x ; 0%s ; 1r 0r" % (th, sc, a, b, c))
            for n in (1, 2, 5, 12):
                out.append("dtd 1 %d %s 0 0 9 2 | 0x ; %s ; 0x ; %s ; 0w" % (th, sc, " ; ".join(["0r"] * n), " ; ".join(["0r"] * n)))
        return out
