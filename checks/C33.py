from vcheck import Check, Failure, Rng, ensure_parsec

M32 = 1 << 32


def _parse_case(case):
    f = [x.strip() for x in case.split("|")]
    a, b = [int(x) for x in f[0].split()]
    progs = [("" if w == "-" else w) for w in f[1].split()]
    sched = [int(x) for x in f[2].split()] if len(f) > 2 else []
    return a, b, progs, sched


class C33(Check):
    id = "C33"
    prop_file = "theories/Properties/Properties_C33.v"
    theorems = ("C33_mutual_exclusion", "C33_log_exclusion", "C33_wout_single_writer", "C33_quiescent_counters",
                "C33_enabled_meaning", "C33_deadlock_free", "C33_enabled_stable", "C33_fair_completion",
                "C33_reader_bypass", "C33_writer_bypass", "C33_writer_fifo", "C33_writer_reader_phases_refuted",
                "C33_writer_bounded_wait")
    comp = "rwlock"
    extract_file = "theories/Extract/Extract_RWLock.v"
    extracted = ("rwlock",)
    harness_src = "harness/h_rwlock.c"
    harness_cflags = ("-DBUILDING_PARSEC",)
    link_parsec = False
    race = True                 # search only: plain accesses to the lock words become scheduling points
    level_text = ("Theorems over an atomic-step model of the read-write lock this build compiles (parsec_rwlock.c, "
                  "PARSEC_RWLOCK_IMPL_TICKET: phase-fair ticket lock, words rin/rout/win/wout kept mod 2^32), for ANY number of "
                  "threads below 2^24, ANY per-thread list of rdlock..rdunlock / wrlock..wrunlock cycles, ANY schedule and any "
                  "number of cycles already served (counters may wrap): never two writers nor a writer with a reader inside "
                  "(state invariant and replay of the enter/exit log); the plain wout update never races; no reachable state is "
                  "stuck; a thread that can move stays able to move whatever the others do; hence every schedule made of rounds "
                  "that run each thread at least once completes every program (starvation freedom for finite programs); the "
                  "counters at quiescence equal the cycle counts. Bounded bypass: a waiting reader is overtaken by at most one "
                  "writer; a writer whose bits are set is overtaken by no writer and only by readers that were waiting on the "
                  "previous writer's bits, at most those counted in its ticket; writers enter in ticket order. The "
                  "schedule-independent bound 'k+1 reader phases of already-waiting readers' for a writer queued behind k tickets "
                  "is REFUTED by a witness (readers arriving while the served writer has not yet set its bits enter freely; replayed "
                  "on the real code, it is the published algorithm's behaviour); what holds instead is proved: such a writer is "
                  "inside after (3N+8)(k+1) rounds that schedule every thread once, whatever the others run. Tie: the real functions run in ucontext "
                  "coroutines under the same schedules (yield before each atomic, one wait-loop read per step, a yield between "
                  "the two updates of wrunlock); enter/exit log, final words, per-thread step and spin counts are diffed "
                  "against the extracted model.")
    level_note = ("Trusted: Coq kernel, extraction, cosched.h/interpose.h and the two macro redefinitions of harness/h_rwlock.c "
                  "(nanosleep -> cos_spin inside the wait loops; parsec_atomic_fetch_and_int32 also yields after the operation). "
                  "Assumes sequentially consistent atomics and volatile reads (the rmb/wmb fences are not modelled); "
                  "'L->wout = L->wout+1' is one step (proved race-free: C33_wout_single_writer); int32 words are modelled as "
                  "their unsigned residues (only +, &, |, == are applied to them). Hypothesis of the bit layout: fewer than 2^24 "
                  "threads. Threads do not nest lock cycles (a nested rdlock can deadlock by design of a phase-fair lock).")
    technique = ("Coq inductive-invariant proof over all schedules and thread counts + controlled-schedule differential run "
                 "(ucontext coroutines, macro-interposed atomics and wait loops) of the real parsec_rwlock.c; race exploration "
                 "(clang -fsanitize=thread instrumentation + stand-in runtime: every plain access to the lock words is a "
                 "scheduling point) judged by the property oracle, as search only")
    rule = ("1..6 threads (up to 32 in the many-readers pattern) with random R/W cycle programs, lock pre-aged to arbitrary counter values (including the 2^24/2^32 "
            "wrap-arounds); schedules: sequential, round-robin, bursts, random, and directed prefixes (writer arriving while "
            "readers are inside, readers arriving while a writer waits, back-to-back writers, reader that misses the zero "
            "window between two writers, all step orders around a phase flip with a third writer arriving, 6..28 readers "
            "inside across a byte carry / sign bit / wrap of the reader count, queued tickets across 2^31 / 2^32), lock ages placed so that the readers inside / the queued writers straddle the int32 sign bit (a = 2^23-k, b = 2^31-k) or the 2^32 wrap; plus all schedules of length 8 for two single-cycle threads on a fresh lock and on both boundaries; non-trivial = at least "
            "two non-empty programs, one of them with a write cycle; distinct = case text")
    trusted = ("cosched.h/interpose.h scheduling points and the nanosleep / fetch_and macro redefinitions in harness/h_rwlock.c",)
    assumptions = ("sequentially consistent atomics and volatile accesses (x86-64 __sync builtins are full barriers)",
                   "fewer than 2^24 threads use one lock (rin counts readers in its 3 high bytes)",
                   "lock cycles are not nested inside one thread")

    def build_sides(self):
        ok, msg = ensure_parsec(targets=("build.ninja",))   # only the configured headers are needed
        if not ok:
            return [Failure("build", "PaRSEC build directory cannot be configured", msg)]
        return Check.build_sides(self)

    # ------------------------------------------------------------------ generation
    def _age(self, r):
        # the words are int32_t stepped by 0x100 (rin/rout) or 1 (win/wout): aim at the SIGN boundary
        # (256*a crosses 2^31 at a = 2^23, b at 2^31) and at the unsigned wrap (a = 2^24, b = 2^32)
        a = r.pick([0, 0, r.below(1000), (1 << 24) - r.range(1, 6), (1 << 23) - r.range(1, 6), (1 << 23) + r.range(0, 3),
                    (1 << 22) - r.range(0, 2), r.below(1 << 24)])
        b = r.pick([0, 0, r.below(1000), M32 - r.range(1, 6), (1 << 31) - r.range(1, 6), (1 << 31) + r.range(0, 3),
                    r.below(M32)])
        return a, b

    def _straddle(self, r, n):
        """lock age such that the next n read entries (resp. write tickets) straddle a sign / wrap boundary"""
        a = r.pick([1 << 23, 1 << 24]) - r.range(1, max(1, n))
        b = r.pick([1 << 31, M32]) - r.range(1, max(3, n))
        return a, b

    def _prog(self, r, maxlen, kind=None):
        n = r.range(0 if kind is None else 1, maxlen)
        if kind == "R":
            return "R" * n
        if kind == "W":
            return "W" * n
        bias = r.below(3)
        return "".join(("W" if r.chance(1 + bias, 4) else "R") for _ in range(n))

    def _tail(self, r, nt, n):
        k = r.below(4)
        if k == 0:
            return [r.below(nt) for _ in range(n)]
        if k == 1:      # bursts
            out = []
            while len(out) < n:
                out += [r.below(nt)] * r.range(1, 5)
            return out
        if k == 2:      # round robin in a shuffled order, a few threads frozen for a while
            order = r.shuffle(range(nt))
            frozen = set(order[:r.below(nt)])
            out = []
            for i in range(n // max(1, nt) + 1):
                if i == 3:
                    frozen = set()
                out += [t for t in order if t not in frozen]
            return out
        return [t for t in range(nt) for _ in range(r.range(1, 9))]   # sequential chunks

    def _fmt(self, a, b, progs, sched):
        return "%d %d | %s | %s" % (a, b, " ".join(p if p else "-" for p in progs), " ".join(map(str, sched)))

    def _directed(self, r, maxlen):
        """schedule prefixes that steer the threads into the interesting regions of the code"""
        a, b = self._age(r)
        kind = r.below(6)
        if kind == 4:
            # a phase flips (writer A leaves, writer B takes over) while blocked readers look again and
            # a third writer / a new reader arrives exactly then: all orders of the steps around the flip
            progs = ["W" + self._prog(r, maxlen - 1), "W" + self._prog(r, maxlen - 1),
                     "R" + self._prog(r, maxlen - 1), "R" + self._prog(r, maxlen - 1),
                     r.pick("RW") + self._prog(r, maxlen - 1)]
            s = [0, 0, 0, 1, 1, 2, 2, 3, 3]
            s += r.shuffle([0] * 4 + [1] * 4 + [2] * 2 + [3] * 2 + [4] * 3)
            if r.chance(1, 2):
                a, b = self._straddle(r, 3)
            nt = len(progs)
            s += self._tail(r, nt, r.range(0, 4 * nt))
            return self._fmt(a, b, progs, s)
        if kind == 5:
            # many readers inside when the writer arrives: the reader count in rin/rout crosses a byte
            # carry (2^8, 2^16 entries), the sign bit (2^23) or the wrap (2^24) while they are inside
            nr = r.range(6, 28)          # at most 32 threads in all (COS_MAX)
            nl = r.range(0, 2)
            progs = ["R" * r.range(1, 2) for _ in range(nr)] + ["W" + self._prog(r, 1)] + ["R"] * nl
            if r.chance(1, 3):
                progs.append("W")
            a = r.pick([1 << 8, 1 << 16, 1 << 23, 1 << 24]) - r.range(1, nr)
            b = r.pick([0, M32 - 1, (1 << 31) - 1, r.below(M32)])
            s = []
            for t in r.shuffle(range(nr)):
                s += [t, t]
            s += [nr, nr, nr]
            for t in range(nr + 1, len(progs)):
                s += [t, t]
            s += [r.below(len(progs)) for _ in range(r.range(0, 3 * len(progs)))]
            return self._fmt(a, b, progs, s)
        if kind == 0:
            # readers inside, a writer arrives (sets its bits, waits), more readers arrive and are held back
            nr, nl = r.range(1, 3), r.range(0, 2)
            progs = ["R" + self._prog(r, maxlen - 1) for _ in range(nr)] + ["W" + self._prog(r, maxlen - 1)] \
                + ["R" + self._prog(r, maxlen - 1) for _ in range(nl)]
            w = nr
            s = []
            for t in r.shuffle(range(nr)):
                s += [t, t]
            s += [w, w, w]
            for t in range(nr + 1, nr + 1 + nl):
                s += [t, t] + [t] * r.below(3)
            s += [w] * r.below(3)
            if r.chance(2, 3):      # the readers inside straddle the sign / wrap boundary of rin when the writer arrives
                a, b = self._straddle(r, nr)
        elif kind == 1:
            # a writer inside, a second writer queued, readers arrive; then the first leaves
            nrd = r.range(1, 3)
            progs = ["W" + self._prog(r, maxlen - 1), "W" + self._prog(r, maxlen - 1)] \
                + ["R" + self._prog(r, maxlen - 1) for _ in range(nrd)]
            s = [0, 0, 0, 1, 1]
            for t in range(2, 2 + nrd):
                s += [t, t]
            s += [0] * r.range(0, 4)
            s += [r.pick([0, 1] + list(range(2, 2 + nrd))) for _ in range(r.below(8))]
            if r.chance(1, 2):
                a, b = self._straddle(r, nrd)
        elif kind == 2:
            # back-to-back writers: every thread takes its ticket first
            nw = r.range(2, 6)
            progs = [self._prog(r, maxlen, "W") for _ in range(nw)]
            if r.chance(1, 2):
                progs[r.below(nw)] = "R" + self._prog(r, maxlen - 1)
            order = r.shuffle(range(nw))
            s = order + order
            if r.chance(1, 2):
                a, b = self._straddle(r, nw)      # the queued tickets straddle the 2^31 / 2^32 boundary of win/wout
        elif kind == 3:
            # reader blocked by writer A misses the window: A leaves and writer B sets its bits
            # (other phase) before the reader looks again
            progs = ["W" + self._prog(r, maxlen - 1), "R" + self._prog(r, maxlen - 1), "W" + self._prog(r, maxlen - 1)]
            s = [0, 0, 0,        # A inside
                 1, 1, 1,        # reader blocked on A's bits
                 2, 2,           # B queued
                 0, 0, 0,        # A: exit record, clear bits, wout++
                 2, 2]           # B: sees its ticket, sets its bits
            if r.chance(1, 2):
                s += [2, 2]      # B keeps polling rout
            s += [1]
        else:
            raise AssertionError(kind)
        nt = len(progs)
        s += self._tail(r, nt, r.range(0, 6 * nt))
        return self._fmt(a, b, progs, s)

    def cases(self):
        r = self.rng
        quick = self.tier == "quick"
        maxlen = 4 if quick else 8
        out = []
        # all schedules of length 8 for two threads with one cycle each (the rest is completed round-robin)
        # on a fresh lock, and on locks whose next entry crosses the int32 sign bit / the 2^32 wrap
        for (a0, b0) in ((0, 0), ((1 << 23) - 1, (1 << 31) - 1), ((1 << 24) - 1, M32 - 1)):
            for p0 in "RW":
                for p1 in "RW":
                    for m in range(256):
                        if a0 and (p0, p1) == ("R", "R") and m % 8:
                            continue
                        out.append(self._fmt(a0, b0, [p0, p1], [(m >> i) & 1 for i in range(8)]))
        for _ in range(1500 if quick else 30000):
            out.append(self._directed(r, maxlen))
        for _ in range(1500 if quick else 30000):
            nt = r.range(1, 6)
            a, b = self._age(r)
            progs = [self._prog(r, maxlen) for _ in range(nt)]
            if r.chance(1, 6):
                progs = [self._prog(r, maxlen, r.pick("RW")) for _ in range(nt)]
            out.append(self._fmt(a, b, progs, self._tail(r, nt, r.range(0, 12 * nt))))
        return out

    def search_cases(self):
        r = self.rng.fork()
        out = []
        for p0 in ("R", "W", "RW", "WR", "WW"):
            for p1 in ("R", "W", "RW", "WR"):
                for p2 in ("R", "W"):
                    for _ in range(20):
                        out.append(self._fmt(0, 0, [p0, p1, p2], [r.below(3) for _ in range(r.range(4, 30))]))
        for _ in range(2000):
            out.append(self._directed(r, 3))
        return out

    def race_cases(self, cases):
        """schedules for the race-exploration build (every access to the lock words yields: a wrlock is
        ~5 steps, a wrunlock 3-4, a rdlock 1-2): a writer releasing while 1-2 readers arrive at each of
        its points, with a following writer; plus a sample of the ordinary cases with longer schedules"""
        r = Rng(self.seed * 7919 + 33)
        out = []
        shapes = (["W", "R", "W"], ["W", "R", "R", "W"], ["WW", "R", "R"], ["W", "RR", "W"],
                  ["RW", "R", "W"], ["W", "R", "WR", "R"])
        ages = ((0, 0), ((1 << 23) - 1, (1 << 31) - 1), ((1 << 24) - 2, M32 - 1))
        for progs in shapes:
            nt = len(progs)
            for i in range(0, 15):              # how far the first writer is when the readers arrive
                for j in range(1, 5):           # steps of the first reader
                    for k in (0, 1, 2, 4):      # writer steps before the next thread moves
                        a, b = ages[(i + j + k) % 3] if (i + j) % 4 == 0 else (0, 0)
                        s = [0] * i + [1] * j + [0] * k + [2] * r.range(0, 3) + [1] * r.range(0, 2) + [0] * r.range(0, 4)
                        s += [r.below(nt) for _ in range(r.range(0, 4 * nt))]
                        out.append(self._fmt(a, b, progs, s))
        pool = [c for c in cases if self.nontrivial_key(c) is not None and len(_parse_case(c)[2]) <= 6]
        for c in r.shuffle(pool)[:1500 if self.tier == "quick" else 20000]:
            a, b, progs, sched = _parse_case(c)
            nt = len(progs)
            out.append(self._fmt(a, b, progs, sched + [r.below(nt) for _ in range(r.range(0, 10 * nt))]))
        return out

    def nontrivial_key(self, case):
        a, b, progs, sched = _parse_case(case)
        busy = [p for p in progs if p]
        if len(busy) < 2 or not any("W" in p for p in busy):
            return None
        return case

    def dist(self, cases):
        d = {"threads_hist": {}, "aged_lock": 0, "with_writer": 0, "read_only": 0, "cycles_total": 0}
        for c in cases:
            a, b, progs, sched = _parse_case(c)
            k = str(len(progs))
            d["threads_hist"][k] = d["threads_hist"].get(k, 0) + 1
            d["aged_lock"] += int(a != 0 or b != 0)
            if any("W" in p for p in progs):
                d["with_writer"] += 1
            else:
                d["read_only"] += 1
            d["cycles_total"] += sum(len(p) for p in progs)
        return d

    # ------------------------------------------------------------------ the property, on the implementation's log
    def oracle(self, case, obs):
        try:
            a, b, progs, sched = _parse_case(case)
        except Exception:
            return None     # malformed case text: nothing to decide
        if obs.strip() == "<bad case>":
            return None     # refused by the harness (more than 32 threads / malformed): nothing ran
        if "<deadlock>" in obs:
            return "deadlock: threads did not finish their lock cycles: " + obs[:120]
        if not obs.startswith("log:"):
            return "crash: no observation: " + obs[:120]
        try:
            f = [x.strip() for x in obs.split("|")]
            evs = f[0].split()[1:]
            words = [int(x) for x in f[1].split()[1:]]
        except Exception:
            return "crash: unparsable observation: " + obs[:120]
        inside_r, inside_w = set(), set()
        idx = [0] * len(progs)
        for e in evs:
            d, k, t = e[0], e[1], int(e[2:])
            if t >= len(progs):
                return "log: unknown thread in " + e
            if d == "+":
                if idx[t] >= len(progs[t]) or progs[t][idx[t]] != k or t in inside_r or t in inside_w:
                    return "log: thread %d entered out of program order (%s)" % (t, e)
                if k == "W":
                    if inside_w:
                        return "ww-overlap: writer %d entered while writer %s was inside" % (t, sorted(inside_w))
                    if inside_r:
                        return "rw-overlap: writer %d entered while readers %s were inside" % (t, sorted(inside_r))
                    inside_w.add(t)
                else:
                    if inside_w:
                        return "rw-overlap: reader %d entered while writer %s was inside" % (t, sorted(inside_w))
                    inside_r.add(t)
            else:
                s = inside_w if k == "W" else inside_r
                if t not in s:
                    return "log: thread %d left without being inside (%s)" % (t, e)
                s.remove(t)
                idx[t] += 1
        if inside_r or inside_w or any(idx[t] != len(progs[t]) for t in range(len(progs))):
            return "unfinished: some thread did not complete its program: " + obs[:120]
        tr = sum(p.count("R") for p in progs)
        tw = sum(p.count("W") for p in progs)
        want = [((a + tr) * 256) % M32, ((a + tr) * 256) % M32, (b + tw) % M32, (b + tw) % M32]
        if len(words) != 4 or words != want:
            return "counters: lock words %s at quiescence, expected %s" % (words, want)
        return None

    def signature(self, case, obs):
        r = self.oracle(case, obs)
        return r.split(":")[0] if r else "none"
