import itertools
import re

from vcheck import Check, Rng

INT_MIN, INT_MAX = -2 ** 31, 2 ** 31 - 1
TOK = re.compile(r"\(([RB?]) (-?\d+):(-?\d+)|(\))|(\.)|(![a-z]+[0-9/]*)")


class Bad(Exception):
    def __init__(self, cat, msg):
        Exception.__init__(self, msg)
        self.cat = cat


def parse_dump(s):
    """one structural dump -> (inorder list of (id, key)); raises Bad when the
    structure is not a red-black search tree.  Decided on the dump alone."""
    pos = 0
    # stack entries: [colour, id, key, state, bh_left, inorder_so_far, left_colour]
    stack = []
    done = None       # (colour, black height, inorder list) of the sub-tree just finished
    n = len(s)
    while True:
        if done is not None:
            if not stack:
                break
            top = stack[-1]
            c, bh, ino = done
            done = None
            if top[0] == "R" and c == "R":
                raise Bad("redred", "red node %d has a red child" % top[1])
            if top[3] == 0:
                if ino and ino[-1][1] > top[2]:
                    raise Bad("order", "key %d in the left sub-tree of node %d (key %d)" % (ino[-1][1], top[1], top[2]))
                top[3] = 1
                top[4] = bh
                ino.append((top[1], top[2]))
                top[5] = ino
            else:
                if ino and ino[0][1] < top[2]:
                    raise Bad("order", "key %d in the right sub-tree of node %d (key %d)" % (ino[0][1], top[1], top[2]))
                if bh != top[4]:
                    raise Bad("blackheight", "node %d: black heights %d (left) and %d (right)" % (top[1], top[4], bh))
                top[5].extend(ino)
                top[3] = 2
            continue
        while pos < n and s[pos] == " ":
            pos += 1
        m = TOK.match(s, pos)
        if not m:
            raise Bad("dump", "unparsable dump at %d: %s" % (pos, s[pos:pos + 40]))
        pos = m.end()
        if m.group(6):
            raise Bad("links", "structure check failed in the harness: " + m.group(6))
        if m.group(5):
            done = ("B", 0, [])
        elif m.group(4):
            if not stack or stack[-1][3] != 2:
                raise Bad("dump", "unbalanced dump")
            top = stack.pop()
            done = (top[0], top[4] + (1 if top[0] == "B" else 0), top[5])
        else:
            if m.group(1) == "?":
                raise Bad("links", "node %s has a colour that is neither red nor black" % m.group(2))
            stack.append([m.group(1), int(m.group(2)), int(m.group(3)), 0, 0, None])
    if s[pos:].strip():
        raise Bad("links" if "!" in s[pos:] else "dump", "trailing text in dump: " + s[pos:pos + 40])
    if done[0] != "B":
        raise Bad("rootred", "the root is red")
    return done[2]


class C36(Check):
    id = "C36"
    prop_file = "theories/Properties/Properties_C36.v"
    theorems = ("C36_invariants_step", "C36_invariants", "C36_find", "C36_find_or_larger",
                "C36_insert_content", "C36_remove_content", "C36_update_spec", "C36_unique_keys",
                "C36_minimum", "C36_foreach_sorted", "C36_paths_equal", "C36_depth_log")
    comp = "rbtree"
    extract_file = "theories/Extract/Extract_RBTree.v"
    extracted = ("rbtree",)
    harness_src = "harness/h_rbtree.c"
    link_parsec = True
    level_text = ("Theorems for every history of insert / remove / update_node calls, of any length, over any keys (with or "
                  "without repeated keys): the tree is a binary search tree, the root is black, no red node has a red child, all "
                  "root-to-nil paths have the same number of black nodes (hence depth <= 2 log2(n+1)); find returns a node with "
                  "the key iff the key is stored; find_or_larger returns a node with the least stored key >= the query, NULL iff "
                  "there is none; insert adds exactly the node, remove removes exactly the node, update_node returns ERR_EXISTS "
                  "iff another node holds the key and otherwise only changes that node's key; keys stay unique when inserts are "
                  "guarded by find. Full level, including the delete fix-up. The model is a zipper rendering of the CLRS code "
                  "that produces the same shapes and colours; it is tied to the library by comparing a complete structural dump "
                  "after every operation of generated histories.")
    level_note = ("Trusted: Coq kernel, extraction, the harness (node pool, dump, parent-pointer checks). The model does not "
                  "represent parent pointers or the sentinel's scratch parent field; their consistency is checked by the harness "
                  "walk on every dump. Calls outside the API contract (inserting a linked node, removing an unlinked one) are "
                  "not modelled and not issued.")
    technique = ("Coq proof (zipper model of CLRS insert/delete fix-ups, invariants by induction over the parent chain and "
                 "over histories) + differential run of libparsec's rbtree against the extracted model with full structural dumps")
    rule = ("one case = one history; exhaustive: all toggle sequences over a small key set, all insertion orders of n keys "
            "followed by every removal (pair), update_node sweeps over every (node, new key) of sample trees; random histories "
            "over small key domains with repeated keys, removals, updates, queries; ascending/descending/zig-zag runs; extreme "
            "int keys. Non-trivial = at least 3 operations; distinct = distinct case text")
    trusted = ("harness h_rbtree.c: node pool with the key at a non-zero offset, canonical pre-order dump, checks of "
               "child->parent, root->parent, sentinel colour, reachability = linked set; one forked child per case",)
    assumptions = ("API contract: a node is inserted only while unlinked and removed/updated only while linked; single-threaded use "
                   "(the zone allocator holds its lock around every tree call)",)

    # ---------------------------------------------------------------- generator
    def _hist(self, r, n_ops, dom, pool, dup, qrate, extreme=False):
        """random history; tracks its own view of the tree so that most calls are legal"""
        linked = {}          # id -> key (believed)
        ops = []
        keys = [INT_MIN, INT_MIN + 1, -1, 0, 1, INT_MAX - 1, INT_MAX] if extreme else None

        def key():
            return r.pick(keys) if extreme else r.range(1, dom)
        phase = 0
        while len(ops) < n_ops:
            x = r.below(100)
            # alternate growing and shrinking phases so that deletions meet large and small trees
            if r.chance(1, 40):
                phase = 1 - phase
            grow = 55 if phase == 0 else 25
            if x < grow:
                k = key()
                free = [i for i in range(pool) if i not in linked]
                if not free:
                    continue
                if not dup and k in linked.values():
                    if r.chance(1, 2):
                        ops.append("f %d" % k)
                    continue
                i = r.pick(free)
                linked[i] = k
                ops.append("i %d %d" % (i, k))
            elif x < 80:
                if not linked:
                    continue
                ks = sorted(linked)
                how = r.below(4)
                if how == 0:      # remove the node with the smallest / largest key
                    i = min(linked, key=lambda j: (linked[j], j)) if r.chance(1, 2) else max(linked, key=lambda j: (linked[j], j))
                else:
                    i = r.pick(ks)
                del linked[i]
                ops.append("r %d" % i)
            elif x < 80 + (20 - qrate):
                if not linked:
                    continue
                i = r.pick(sorted(linked))
                k = r.pick([key(), linked[i], linked[i] + 1 if linked[i] < INT_MAX else linked[i], linked[i] - 1 if linked[i] > INT_MIN else linked[i]])
                if k not in [v for j, v in linked.items() if j != i]:
                    linked[i] = k
                ops.append("u %d %d" % (i, k))
            else:
                q = key() if extreme else r.range(0, dom + 1)
                ops.append(r.pick(["f %d" % q, "l %d" % q, "l %d" % q, "m", "e"]))
            if r.chance(1, 60):   # a call outside the contract: both sides skip it
                ops.append(r.pick(["r %d" % r.below(pool), "i %d %d" % (r.below(pool), key()), "u %d %d" % (r.below(pool), key())]))
        return ", ".join(ops)

    def _queries(self, lo, hi):
        return ["f %d" % q for q in range(lo, hi + 1)] + ["l %d" % q for q in range(lo, hi + 1)] + ["m", "e"]

    def cases(self):
        r = self.rng
        quick = self.tier == "quick"
        out = []
        # A. every history of toggles (insert if absent, else remove) over K keys, length L; prefixes are covered by the
        #    dump after every operation
        for K, L in ([(4, 6)] if quick else [(4, 8), (5, 7)]):
            for seq in itertools.product(range(1, K + 1), repeat=L):
                present, ops = set(), []
                for k in seq:
                    if k in present:
                        present.discard(k)
                        ops.append("r %d" % k)
                    else:
                        present.add(k)
                        ops.append("i %d %d" % (k, k))
                out.append(", ".join(ops))
        # B. every insertion order of n keys, then every single removal (and every pair for n = 5), then queries
        for n in ([5, 6] if quick else [5, 6, 7]):
            for perm in itertools.permutations(range(1, n + 1)):
                ins = ", ".join("i %d %d" % (k, 2 * k) for k in perm)
                for d in range(1, n + 1):
                    out.append(ins + ", r %d, l %d, f %d" % (d, 2 * d, 2 * d))
        for perm in itertools.permutations(range(1, 6)):
            ins = ", ".join("i %d %d" % (k, 2 * k) for k in perm)
            for d1, d2 in itertools.permutations(range(1, 6), 2):
                out.append(ins + ", r %d, r %d, l %d, l %d" % (d1, d2, 2 * d1, 2 * d2 - 1))
        # B'. sampled larger insertion orders followed by removals in a random order
        for _ in range(400 if quick else 6000):
            n = r.range(7, 15)
            perm = r.shuffle(range(1, n + 1))
            rem = r.shuffle(range(1, n + 1))[:r.range(1, n)]
            out.append(", ".join(["i %d %d" % (k, k) for k in perm] + ["r %d" % k for k in rem] + ["e"]))
        # C. update_node sweeps: every (node, new key) on sample trees; keys 10, 20, ... so that every gap exists
        bases = []
        for n in (1, 2, 3, 5, 7, 10):
            bases.append(list(range(1, n + 1)))
            bases.append(list(range(n, 0, -1)))
            for _ in range(2 if quick else 12):
                bases.append(r.shuffle(range(1, n + 1)))
        for b in bases:
            ins = ", ".join("i %d %d" % (k, 10 * k) for k in b)
            n = len(b)
            for node in b:
                for nk in range(5, 10 * n + 6, 5):
                    out.append(ins + ", u %d %d, e" % (node, nk))
        # D. runs: ascending, descending, zig-zag insertion; removal from either end, the middle, the root
        for n in ((8, 16, 33, 64) if quick else (8, 16, 33, 64, 127, 300)):
            asc = list(range(1, n + 1))
            zig = [x for p in zip(range(1, n // 2 + 1), range(n, n // 2, -1)) for x in p]
            for order in (asc, asc[::-1], zig):
                for rem in (asc, asc[::-1], zig, r.shuffle(asc)):
                    ops = ["i %d %d" % (k, k) for k in order] + ["l %d" % (n // 2), "m"] + ["r %d" % k for k in rem] + ["e"]
                    out.append(", ".join(ops))
        # E. random histories: small key domains, unique keys (the allocator's discipline) or repeated keys
        for _ in range(1200 if quick else 30000):
            dom = r.pick([3, 5, 8, 12, 12, 20, 40])
            dup = r.chance(1, 4)
            n_ops = r.pick([8, 15, 30, 30, 60, 120] if quick else [8, 15, 30, 60, 120, 300])
            out.append(self._hist(r, n_ops, dom, pool=min(dom + 4, 64) if not dup else 16, dup=dup, qrate=r.pick([2, 6, 12])))
        for _ in range(60 if quick else 600):
            out.append(self._hist(r, 40, 0, pool=8, dup=r.chance(1, 2), qrate=8, extreme=True))
        # F. queries over the whole domain on sample trees
        for _ in range(150 if quick else 1500):
            n = r.range(0, 12)
            ks = r.shuffle(range(1, 13))[:n]
            out.append(", ".join(["i %d %d" % (k, 2 * k) for k in ks] + self._queries(0, 27)))
        return out

    def nontrivial_key(self, case):
        return case if case.count(",") >= 2 else None

    def dist(self, cases):
        lens = [c.count(",") + 1 for c in cases]
        kinds = {k: sum(c.count(k + " ") for c in cases) for k in ("i", "r", "u", "f", "l")}
        return {"cases": len(cases), "operations": sum(lens), "max_len": max(lens) if lens else 0,
                "op_counts": kinds, "with_repeated_keys": sum(1 for c in cases if self._has_dups(c))}

    @staticmethod
    def _has_dups(case):
        live = {}
        for tok in case.split(","):
            w = tok.split()
            if w and w[0] == "i" and int(w[1]) not in live:
                if int(w[2]) in live.values():
                    return True
                live[int(w[1])] = int(w[2])
            elif w and w[0] == "r":
                live.pop(int(w[1]), None)
        return False

    # ---------------------------------------------------------------- oracle
    _cache = {}

    def _tree(self, dump):
        c = self._cache.get(dump)
        if c is None:
            try:
                c = (None, parse_dump(dump))
            except Bad as e:
                c = (e, None)
            if len(self._cache) > 400000:
                self._cache.clear()
            self._cache[dump] = c
        if c[0] is not None:
            raise c[0]
        return c[1]

    def _judge(self, case, obs):
        """returns None or (category, index of the failing operation, text)"""
        if obs.startswith("<skipped"):
            return None           # the harness gave up after repeated crashes, reported on the crashing cases
        if obs.startswith("<crash") or obs.startswith("<impl"):
            return ("crash", 0, "the implementation crashed or hung on a legal history: " + obs[:80])
        ops = [t.strip() for t in case.split(",") if t.strip()]
        parts = obs.split(" | ")
        exp = {}
        prev = "."
        ino = []
        for i, o in enumerate(ops):
            if i >= len(parts):
                return ("links", i, "no observation after operation %d (%s): structure declared corrupt before" % (i, o))
            res, _, dump = parts[i].partition(" @ ")
            if dump == "=":
                dump = prev
            w = o.split()
            kind = w[0]
            a = [int(x) for x in w[1:]]
            mutated = False
            want = None
            if kind == "i":
                if a[0] in exp:
                    want = "skip"
                else:
                    exp[a[0]] = a[1]
                    want = "ok"
                    mutated = True
            elif kind == "r":
                if a[0] in exp:
                    del exp[a[0]]
                    want = "ok"
                    mutated = True
                else:
                    want = "skip"
            elif kind == "u":
                if a[0] not in exp:
                    want = "skip"
                elif any(v == a[1] for j, v in exp.items() if j != a[0]):
                    want = "exists"
                else:
                    exp[a[0]] = a[1]
                    want = "ok"
                    mutated = True
            if want is not None and res != want:
                return ("retcode", i, "operation %d (%s) returned '%s', expected '%s'" % (i, o, res, want))
            if not mutated and dump != prev:
                return ("content", i, "operation %d (%s) must not change the tree: %s -> %s" % (i, o, prev[:60], dump[:60]))
            if dump != prev or i == 0:
                try:
                    ino = self._tree(dump)
                except Bad as e:
                    return (e.cat, i, "after operation %d (%s): %s" % (i, o, e))
                if len(ino) != len(exp) or dict(ino) != exp:
                    return ("content", i, "after operation %d (%s): stored nodes %s, expected %s" % (
                        i, o, sorted(ino)[:12], sorted(exp.items())[:12]))
            prev = dump
            # queries: decided against the nodes the structure holds
            if kind in ("f", "l", "m"):
                if kind == "f":
                    cand = [k for _, k in ino if k == a[0]]
                elif kind == "l":
                    cand = [k for _, k in ino if k >= a[0]]
                else:
                    cand = [k for _, k in ino]
                if not cand:
                    if res != "-":
                        return ("lookup", i, "operation %d (%s) returned %s, no such key is stored" % (i, o, res))
                else:
                    best = min(cand)
                    try:
                        rid, rkey = [int(x) for x in res.split(":")]
                    except ValueError:
                        return ("lookup", i, "operation %d (%s) returned '%s', expected a node with key %d" % (i, o, res, best))
                    if rkey != best or exp.get(rid) != rkey:
                        return ("lookup", i, "operation %d (%s) returned node %s, expected a stored node with key %d" % (i, o, res, best))
            elif kind == "e":
                got = res.split()[1:] if res.startswith("each") else None
                if got != ["%d:%d" % x for x in ino]:
                    return ("foreach", i, "operation %d: foreach visited %s, in-order is %s" % (i, res[:80], ino[:12]))
        return None

    def oracle(self, case, obs):
        j = self._judge(case, obs)
        return None if j is None else "%s: %s" % (j[0], j[2])

    def signature(self, case, obs):
        j = self._judge(case, obs)
        return j[0] if j else "none"

    def shrink(self, case, obs):
        j = self._judge(case, obs)
        if j is None or j[0] == "crash":
            return case, obs
        ops = [t.strip() for t in case.split(",") if t.strip()]
        return ", ".join(ops[:j[1] + 1]), " | ".join(obs.split(" | ")[:j[1] + 1])

    def search_cases(self):
        r = Rng(self.seed + 7919)
        out = []
        for perm in itertools.permutations(range(1, 7)):
            ins = ", ".join("i %d %d" % (k, k) for k in perm)
            rem = r.shuffle(range(1, 7))
            out.append(ins + ", " + ", ".join("r %d" % k for k in rem))
        for _ in range(3000):
            out.append(self._hist(r, r.pick([20, 60, 150]), r.pick([6, 12, 30]), pool=34, dup=r.chance(1, 5), qrate=6))
        return out
