from vcheck import Check
import re

M64 = (1 << 64) - 1
HA = 0xaa88564915a
HB = 0x165e44f1fc94


def rehash(k, bits):
    """replica of parsec_hash_table_universal_rehash, used ONLY to generate colliding keys"""
    k32 = ((k >> 32) ^ k) & M64
    return ((((HA * k32) & M64) + HB) & M64) % (1 << (32 + bits)) >> 32


class C32(Check):
    id = "C32"
    prop_file = "theories/Properties/Properties_C32.v"
    theorems = ("C32_hash_in_range", "C32_hash_low_bits", "C32_seq_refinement", "C32_each_binding_once")
    comp = "hasht"
    extract_file = "theories/Extract/Extract_HashT.v"
    extracted = ("hasht",)
    harness_src = "harness/h_hasht.c"
    harness_cflags = ("-DBUILDING_PARSEC",)
    link_parsec = True
    level_text = "TODO"
    level_note = "TODO"
    technique = "Coq proof + differential run"
    rule = "TODO"
    trusted = ()
    assumptions = ()

    # ------------------------------------------------------------------ generation
    def key_pool(self, r):
        """8..40 keys, most of them colliding in the low bits of the hash (so that they share buckets
        in every table up to 2^c buckets and keep colliding across several resizes)"""
        n = r.range(8, 40)
        c = r.range(1, 5)
        hot = set(r.below(1 << c) for _ in range(r.range(1, 2)))
        pool, seen = [], set()
        tries = 0
        while len(pool) < n and tries < 20000:
            tries += 1
            kind = r.below(6)
            if kind <= 1:
                k = r.range(1, 4000)
            elif kind == 2:
                k = r.u64()
            elif kind == 3:
                k = (r.below(8) << 42) + (r.below(8) << 21) + r.below(64)      # the 3D keys of tests/class/hash.c
            elif kind == 4:
                k = (r.range(1, 255) << 32) | r.below(1 << 12)                 # the fold k>>32 ^ k matters
            else:
                k = M64 - r.below(1000)
            if k in seen or k == 0:
                continue
            want_hot = r.chance(4, 5)
            if want_hot and (rehash(k, 16) & ((1 << c) - 1)) not in hot:
                continue
            seen.add(k)
            pool.append(k)
        return pool

    def seq_case(self, r):
        pool = self.key_pool(r)
        bits = r.range(1, 3)
        hint = r.pick([1, 1, 1, 2, 2, 3, 0, 4, -1])
        maxbits = r.pick([12, 10, 9, bits + r.range(1, 5), 8])      # 24 (the default) would let hint<=0 cases allocate 2^23 buckets
        handle = r.chance(1, 3)
        live, ops, nv = {}, [], [0]
        dup_ok = r.chance(1, 12)          # API precondition violated on purpose (compared with the model only)

        def val():
            nv[0] += 1
            return nv[0]

        def ins(prefix):
            absent = [k for k in pool if k not in live]
            if dup_ok and live and r.chance(1, 6):
                k = r.pick(sorted(live))
            elif absent:
                k = r.pick(absent)
            else:
                return
            v = val()
            live[k] = v
            ops.append("%s %d %d" % (prefix, k, v))

        nops = r.range(8, 60)
        grow = r.range(30, 80)
        while len(ops) < nops:
            x = r.below(100)
            if x < grow * 6 // 10:
                ins("i")
            elif x < 70:
                k = r.pick(pool) if r.chance(1, 4) or not live else r.pick(sorted(live))
                ops.append("f %d" % k)
            elif x < 85:
                k = r.pick(pool) if r.chance(1, 4) or not live else r.pick(sorted(live))
                live.pop(k, None)
                ops.append("r %d" % k)
            elif x < 95:
                k = r.pick(pool)
                ops.append("l %d" % k)
                for _ in range(r.range(0, 4)):
                    y = r.below(4)
                    if y == 0:
                        ops.append("nf %d" % k)
                    elif y == 1:
                        live.pop(k, None)
                        ops.append("nr %d" % k)
                    elif y == 2 and k not in live:
                        v = val()
                        live[k] = v
                        ops.append("ni %d %d" % (k, v))
                    elif not handle:
                        ins("ni")           # the critical section may stack other keys (resize then happens at unlock)
                ops.append("u %d" % k)
            else:
                ops.append("a")
        if r.chance(1, 2):                 # drain: finds migrate everything, removes empty and unlink the old tables
            for k in r.shuffle(sorted(live)):
                ops.append(("f %d" if r.chance(1, 2) else "r %d") % k)
        ops.append("a")
        return "%s %d %d %d | %s" % ("seqh" if handle else "seq", bits, hint, maxbits, " ".join(ops))

    def cases(self):
        r = self.rng
        out = []
        n = 600 if self.tier == "quick" else 12000
        for _ in range(n):
            out.append(self.seq_case(r))
        return out

    def nontrivial_key(self, case):
        return case if len(case.split()) > 12 else None

    def dist(self, cases):
        d = {"seq": 0, "seqh": 0, "sched": 0}
        for c in cases:
            d[c.split()[0]] = d.get(c.split()[0], 0) + 1
        return d

    # ------------------------------------------------------------------ oracle
    @staticmethod
    def parse_dump(s):
        """'{T3/0: 1[1]=6 T2/2: 0[1]=5 2[2]=9,8}' -> [(bits, used, {bucket: (len, [keys])})] or None"""
        s = s.strip()
        if not (s.startswith("{") and s.endswith("}")):
            return None
        tabs = []
        for tok in s[1:-1].split():
            m = re.match(r"^T(\d+)/(-?\d+):$", tok)
            if m:
                tabs.append((int(m.group(1)), int(m.group(2)), {}))
                continue
            m = re.match(r"^(\d+)\[(-?\d+)\]=([\d,]*)$", tok)
            if not m or not tabs:
                return None
            keys = [int(x) for x in m.group(3).split(",") if x]
            tabs[-1][2][int(m.group(1))] = (int(m.group(2)), keys)
        return tabs

    @staticmethod
    def check_dump(tabs, live):
        """each live key in exactly one bucket of one table, nothing else stored"""
        seen = {}
        for (bits, used, bk) in tabs:
            for i, (ln, keys) in bk.items():
                if i >= (1 << bits):
                    return "bucket %d outside a table of %d bits" % (i, bits)
                for k in keys:
                    if k in seen:
                        return "key %d is stored twice (tables of %d and %d bits)" % (k, seen[k], bits)
                    seen[k] = bits
        for k in live:
            if k not in seen:
                return "key %d was inserted and not removed but is in no bucket" % k
        for k in seen:
            if k not in live:
                return "key %d is stored but is not live" % k
        return None

    def oracle_seq(self, case, obs):
        ops = case.split("|", 1)[1].split()
        fields = obs.split(" | ")
        live = {}
        j = 0
        for fi, fld in enumerate(fields):
            if j >= len(ops):
                return "more results than operations"
            name = ops[j]
            k = int(ops[j + 1]) if name != "a" else None
            v = int(ops[j + 2]) if name in ("i", "ni") else None
            j += 1 + (name != "a") + (name in ("i", "ni"))
            m = re.match(r"^(\w+):(.*?) (\{.*\})$", fld.strip())
            if not m or m.group(1) != name:
                return "unparsable result %r for op %s" % (fld[:60], name)
            res, dump = m.group(2).strip(), self.parse_dump(m.group(3))
            if dump is None:
                return "unparsable dump " + m.group(3)[:60]
            if name in ("i", "ni"):
                if k in live:
                    return None            # precondition of insert violated by the case: nothing is promised from here on
                live[k] = v
            elif name in ("f", "nf", "r", "nr"):
                want = live.get(k)
                got = None if res == "-" else int(res)
                if got != want:
                    return "%s %d returned %s, the map holds %s" % (name, k, res, want)
                if name in ("r", "nr"):
                    live.pop(k, None)
            elif name == "a":
                got = [tuple(int(y) for y in x.split("=")) for x in res.split()]
                if sorted(got) != sorted(live.items()):
                    return "for_all visited %s, the map holds %s" % (sorted(got)[:12], sorted(live.items())[:12])
            why = self.check_dump(dump, live)
            if why:
                return "after op %d (%s %s): %s" % (fi, name, k, why)
        if j < len(ops):
            return "operation sequence did not complete (%d of %d tokens)" % (j, len(ops))
        return None

    def oracle(self, case, obs):
        if "<deadlock>" in obs:
            return "operations did not complete (deadlock)"
        if obs.startswith("<impl"):
            return "the implementation crashed or printed nothing: " + obs[:80]
        if case.startswith("seq"):
            return self.oracle_seq(case, obs)
        return None

    def signature(self, case, obs):
        why = self.oracle(case, obs) or ""
        kind = ("deadlock" if "deadlock" in why else "lost" if "in no bucket" in why else "dup" if "twice" in why
                else "stale" if "not live" in why else "forall" if "for_all" in why else "result" if "returned" in why else "other")
        return case.split()[0] + "-" + kind
