from vcheck import Check
import re

M64 = (1 << 64) - 1
HA = 0xaa88564915a
HB = 0x165e44f1fc94


def rehash(k, bits):
    """replica of parsec_hash_table_universal_rehash, used ONLY to generate colliding keys"""
    k32 = ((k >> 32) ^ k) & M64
    return ((((HA * k32) & M64) + HB) & M64) % (1 << (32 + bits)) >> 32


class C32(Check):
    id = "C32"
    prop_file = "theories/Properties/Properties_C32.v"
    theorems = ("C32_hash_in_range", "C32_hash_low_bits", "C32_seq_refinement", "C32_each_binding_once",
                "C32_linearizable", "C32_owners_distinct", "C32_step_keeps_other_keys", "C32_reachable_for_all")
    comp = "hasht"
    extract_file = "theories/Extract/Extract_HashT.v"
    extracted = ("hasht",)
    harness_src = "harness/h_hasht.c"
    harness_cflags = ("-DBUILDING_PARSEC",)
    link_parsec = True
    race = True          # failing-schedule search on the implementation alone: plain accesses are scheduling points too
    level_text = ("Three layers. (1) Sequential: an executable model of parsec_hash_table.c (chain of tables newest first, buckets as lists "
                  "with their cur_len counters, used_buckets, head insertion, find-migrates-to-newest, unlinking of emptied old tables, "
                  "resize decided at insert/unlock_bucket from max_collisions_hint and max_table_nb_bits) is proved to refine a finite map "
                  "for EVERY operation sequence (insert/find/remove/lock/unlock/nolock_*/for_all) that respects insert's precondition, every "
                  "initial size, hint (also <= 0) and size limit: find returns the live value, remove returns and deletes it, every live "
                  "binding is stored exactly once in the bucket its key hashes to, for_all visits each exactly once. (2) The 64-bit wrapping "
                  "multiply-shift hash is always < 2^nb_bits and the index in an older table is the low part of the index in a newer one. "
                  "(3) Concurrency at critical-section granularity: for every number of threads, every program and EVERY schedule, the "
                  "operations ordered by their linearization points form a legal map history (linearizability), two threads inside critical "
                  "sections hold different newest buckets/keys, a step changes the binding of no other key. Tie: T-seq (results + full dump "
                  "after every operation) and T-sched (real parsec_hash_table.c + parsec_rwlock.c under chosen schedules, compared step for step "
                  "-- results, invocation/response steps, final chain of tables, rw-lock words, per-thread step counts -- with an atomic-step "
                  "model that has one step per scheduling point); the oracle replays a dict (T-seq) and checks linearizability per key (T-sched). "
                  "Full for (1) and (2); (3) is full at the stated granularity with bucket locks and the rw-lock as primitives. "
                  "The proved critical-section model is itself run on every T-sched case: the driver feeds lstep the section boundaries "
                  "crossed by the atomic-step model (which agrees with the code step for step) and requires that it is never blocked, logs the "
                  "same results per thread and ends with the same items in the same buckets. A failing-schedule search on the implementation "
                  "alone (clang -fsanitize=thread build + tsanrt.c: every plain or atomic access to the table is a scheduling point; all "
                  "schedules with at most two preemptions on 3-thread histories around a resize, then random) is judged by the same oracle.")
    level_note = ("Trusted: Coq kernel, extraction, harness, cosched/interpose.h. The proof model of (3) (HashTLinDefs.v) is NOT the model that is "
                  "run against the code (HashTConcDefs.v): it merges lock;section;unlock of an old bucket into one step, takes lock semantics "
                  "(mutual exclusion of bucket locks, reader/writer exclusion: C33) as given, and represents the chain as the list of linked "
                  "tables (a table emptied through a stale prev pointer stays linked, empty, in the code and in HashTConcDefs.v). The two are "
                  "related by construction and by a tested (not proved) simulation: ocaml/d_hasht.ml projects every run of the atomic-step "
                  "model onto lstep and compares results and final contents (tables without items ignored). The tested model includes the TICKET rw-lock word for word; nothing is proved "
                  "about it here. Keys are 64-bit with the generic key functions (key_hash = identity); user key_equal/key_hash callbacks, "
                  "the HELPFIRST variant, parsec_hash_table_stat and fini are not modelled. Sequentially consistent atomics; cur_len and "
                  "used_buckets do not overflow int32. for_all is only meaningful on a quiescent table (documented as not thread safe).")
    technique = ("Coq proofs (permutation-based refinement of list-of-tables model to a finite map; invariant + ghost linearization log over all "
                 "schedules) + differential runs of the real code against the extracted models: single thread with dumps, and "
                 "controlled-schedule coroutines (macro-interposed atomics/locks, rw-lock wait loops made to yield)")
    rule = ("seq/seqh: random operation sequences (8..60 ops + optional drain) over a pool of 8..40 keys chosen (with a Python replica of the "
            "hash, generation only) to collide in the low hash bits, tables starting at 1..3 bits, hint in {-1,0,1,2,3,4}, size limit low "
            "enough to hit the 'cannot grow' branch; handle and non-handle API; 1/12 of the cases violate insert's precondition on purpose "
            "(model comparison only). sched: 1..16 threads, 1..5 operations each on a few hot keys (inserts only by the key's owner thread), "
            "tables pre-filled over several generations, schedules: sequential, round-robin, bursts, all-enter-first, one-thread-held-back, random. "
            "race search: histories of 3 one-operation threads on a 2- or 4-bucket table with hint 0, keys that share their bucket before and "
            "after the growth with extra hash bit 1; schedules X^a Y* X^b Z* X* for all role assignments, a<=16, b<=80 (sampled on a normal "
            "run, exhaustive in chunks when the correspondence or a proof is broken), plus random bursts. "
            "Non-trivial = more than 12 tokens (seq) / at least 2 threads and an interleaving schedule (sched); distinct = case text")
    trusted = ("cosched.h/interpose.h scheduling points; harness/h_hasht.c redefines nanosleep to cos_spin() while including parsec_rwlock.c so that the "
               "rw-lock wait loops yield (after their first 1000 iterations) -- no change to the repository",
               "MCA parameters set with parsec_mca_param_set_int on the indices registered by parsec_hash_tables_init (parsec_debug_init + "
               "parsec_mca_param_init only, no parsec_init)",
               "Python replica of the hash function is used only to generate colliding keys, never in the oracle")
    assumptions = ("clients insert a key only when it is not in the table (API precondition; enforced by the generator through key ownership)",
                   "bucket locks are mutual-exclusion locks and the rw-lock excludes writers from readers (C33) -- used by theorem group (3)",
                   "sequentially consistent atomics; keys fit in 64 bits; generic key functions")

    # ------------------------------------------------------------------ generation
    def key_pool(self, r):
        """8..40 keys, most of them colliding in the low bits of the hash (so that they share buckets
        in every table up to 2^c buckets and keep colliding across several resizes)"""
        n = r.range(8, 40)
        c = r.range(1, 5)
        hot = set(r.below(1 << c) for _ in range(r.range(1, 2)))
        pool, seen = [], set()
        tries = 0
        while len(pool) < n and tries < 20000:
            tries += 1
            kind = r.below(6)
            if kind <= 1:
                k = r.range(1, 4000)
            elif kind == 2:
                k = r.u64()
            elif kind == 3:
                k = (r.below(8) << 42) + (r.below(8) << 21) + r.below(64)      # the 3D keys of tests/class/hash.c
            elif kind == 4:
                k = (r.range(1, 255) << 32) | r.below(1 << 12)                 # the fold k>>32 ^ k matters
            else:
                k = M64 - r.below(1000)
            if k in seen or k == 0:
                continue
            want_hot = r.chance(4, 5)
            if want_hot and (rehash(k, 16) & ((1 << c) - 1)) not in hot:
                continue
            seen.add(k)
            pool.append(k)
        return pool

    def seq_case(self, r):
        pool = self.key_pool(r)
        bits = r.range(1, 3)
        hint = r.pick([1, 1, 1, 2, 2, 3, 0, 4, -1])
        maxbits = r.pick([12, 10, 9, bits + r.range(1, 5), 8])      # 24 (the default) would let hint<=0 cases allocate 2^23 buckets
        handle = r.chance(1, 3)
        live, ops, nv = {}, [], [0]
        dup_ok = r.chance(1, 12)          # API precondition violated on purpose (compared with the model only)

        def val():
            nv[0] += 1
            return nv[0]

        def ins(prefix):
            absent = [k for k in pool if k not in live]
            if dup_ok and live and r.chance(1, 6):
                k = r.pick(sorted(live))
            elif absent:
                k = r.pick(absent)
            else:
                return
            v = val()
            live[k] = v
            ops.append("%s %d %d" % (prefix, k, v))

        nops = r.range(8, 60)
        grow = r.range(30, 80)
        plain = r.chance(1, 4)            # insert/find/remove/for_all only: the driver also runs the atomic-step model on these
        while len(ops) < nops:
            x = r.below(100)
            if plain and 85 <= x < 95:
                x = r.below(85)
            if x < grow * 6 // 10:
                ins("i")
            elif x < 70:
                k = r.pick(pool) if r.chance(1, 4) or not live else r.pick(sorted(live))
                ops.append("f %d" % k)
            elif x < 85:
                k = r.pick(pool) if r.chance(1, 4) or not live else r.pick(sorted(live))
                live.pop(k, None)
                ops.append("r %d" % k)
            elif x < 95:
                k = r.pick(pool)
                ops.append("l %d" % k)
                for _ in range(r.range(0, 4)):
                    y = r.below(4)
                    if y == 0:
                        ops.append("nf %d" % k)
                    elif y == 1:
                        live.pop(k, None)
                        ops.append("nr %d" % k)
                    elif y == 2 and k not in live:
                        v = val()
                        live[k] = v
                        ops.append("ni %d %d" % (k, v))
                    elif not handle:
                        ins("ni")           # the critical section may stack other keys (resize then happens at unlock)
                ops.append("u %d" % k)
            else:
                ops.append("a")
        if r.chance(1, 2):                 # drain: finds migrate everything, removes empty and unlink the old tables
            for k in r.shuffle(sorted(live)):
                ops.append(("f %d" if r.chance(1, 2) else "r %d") % k)
        ops.append("a")
        return "%s %d %d %d | %s" % ("seqh" if handle else "seq", bits, hint, maxbits, " ".join(ops))

    # ---- T-sched ---------------------------------------------------------------
    def schedule(self, r, nt, est):
        """est = rough number of steps the threads need"""
        kind = r.below(7)
        if kind == 0:        # one thread after the other
            return [t for t in r.shuffle(range(nt)) for _ in range(est // nt + 8)]
        if kind == 1:        # round robin (forward or backward)
            order = list(range(nt)) if r.chance(1, 2) else list(reversed(range(nt)))
            return [t for _ in range(est // nt + 4) for t in order]
        if kind == 2:        # bursts: a thread runs a few steps, then another
            s = []
            while len(s) < est:
                s += [r.below(nt)] * r.range(1, 9)
            return s
        if kind == 3:        # everybody enters (read lock, bucket lock ...) before anyone goes on
            d = r.range(1, 6)
            return [t for t in range(nt) for _ in range(d)] + [r.below(nt) for _ in range(est)]
        if kind == 4:        # one thread is held back in the middle of its operation while the others run
            slow = r.below(nt)
            s = [slow] * r.range(1, 12)
            others = [t for t in range(nt) if t != slow] or [slow]
            s += [r.pick(others) for _ in range(r.range(10, est))]
            return s + [r.below(nt) for _ in range(est // 2)]
        return [r.below(nt) for _ in range(r.range(0, est))]

    def sched_case(self, r):
        pool = self.key_pool(r)
        bits = r.range(1, 3)
        hint = r.pick([1, 1, 1, 2, 0, 3])
        maxbits = r.pick([10, 9, bits + r.range(1, 4), 8])
        nt = r.pick([2, 2, 3, 3, 4, 5, 6, 8, r.range(1, 16)])
        owner = {k: r.below(nt) for k in pool}
        # preparation: some keys are already stored, spread over several generations of tables
        live, nv, pre = {}, 0, []
        for k in r.shuffle(pool)[:r.range(0, min(len(pool), 14))]:
            nv += 1
            live[k] = nv
            pre.append("i %d %d" % (k, nv))
            if r.chance(1, 8):
                pre.append("f %d" % r.pick(sorted(live)))
        belief = [set(k for k in live if owner[k] == t) for t in range(nt)]
        # a few keys get most of the traffic
        focus = r.shuffle(pool)[:r.range(2, 6)]
        thr, total = [], 0
        for t in range(nt):
            ops = []
            for _ in range(r.range(1, 5 if nt <= 6 else 3)):
                k = r.pick(focus) if r.chance(2, 3) else r.pick(pool)
                x = r.below(10)
                mine = [q for q in pool if owner[q] == t and q not in belief[t]]
                if x < 3 and mine:
                    mk = [q for q in mine if q in focus] or mine
                    k = r.pick(mk)
                    nv += 1
                    belief[t].add(k)
                    ops.append("i %d %d" % (k, nv))
                elif x < 7:
                    ops.append("f %d" % k)
                else:
                    belief[t].discard(k)      # nobody but its owner inserts a key: after this remove the owner knows it is absent
                    ops.append("r %d" % k)
            total += len(ops)
            thr.append(" ".join(ops))
        est = total * 14 + 10
        sc = self.schedule(r, nt, est)
        return "sched %d %d %d | %s | %s | %s" % (bits, hint, maxbits, " ".join(pre), " / ".join(thr), " ".join(map(str, sc)))

    def cases(self):
        r = self.rng
        out = []
        n = 600 if self.tier == "quick" else 12000
        for _ in range(n):
            out.append(self.seq_case(r))
        for _ in range(n):
            out.append(self.sched_case(r))
        return out

    # ---- failing-schedule search (implementation alone, judged by the oracle) --------------
    # The harness built with clang -fsanitize=thread + tsanrt.c yields before EVERY access (plain or
    # atomic) to the table, its heads, bucket arrays and items, so a window between two plain accesses
    # (e.g. a bucket index computed before the read lock, a first_item update under the wrong lock) can
    # be scheduled.  Histories: 3 threads, one operation each, on a table of 2 or 4 buckets with
    # collision hint 0 (every insertion asks for a resize), keys whose extra hash bit after the growth is 1
    # and that share their bucket before and after.  Schedules: first ALL schedules with at most two
    # preemptions of one thread  X^a Y* X^b Z* X* (Y*, Z* = run to completion or until blocked), for every
    # assignment of the threads to X, Y, Z and every a, b up to the length of an operation -- an
    # exhaustive preemption-bounded search --, then random bursts.  A normal run samples this space; when
    # the correspondence or a proof is broken the whole space is run, in chunks, until a chunk fails.
    @staticmethod
    def twin_keys(b, taken=()):
        """two keys in the same bucket of a b-bit table and of a (b+1)-bit table, the latter being the
        'upper' one (extra hash bit 1), plus a key that stays in another bucket"""
        found = {}
        for k in range(1, 4000):
            if k in taken:
                continue
            lo, hi = rehash(k, b), rehash(k, b + 1)
            if hi != lo:
                found.setdefault((lo, hi), []).append(k)
                if len(found[(lo, hi)]) == 2:
                    x, y = found[(lo, hi)]
                    z = next(q for q in range(1, 4000) if q not in (x, y) and q not in taken and rehash(q, b) != lo)
                    return x, y, z
        raise RuntimeError("no colliding keys")

    def race_histories(self):
        a, t, rz = self.twin_keys(1)
        hs = [("sched 1 0 8 |  |", ["i %d 1" % a, "i %d 2" % rz, "i %d 3" % t])]
        # one key already stored: with hint 0 its insertion grew the table to 2 bits and left it in the old table
        a2, t2, rz2 = self.twin_keys(2)
        hs.append(("sched 1 0 8 | i %d 9 |" % t2, ["i %d 1" % a2, "i %d 2" % rz2, "f %d" % t2]))
        hs.append(("sched 1 0 8 | i %d 9 |" % t2, ["i %d 1" % a2, "i %d 2" % rz2, "r %d" % t2]))
        return hs

    def race_space(self, amax, bmax):
        perms = [(0, 1, 2), (0, 2, 1), (1, 0, 2), (1, 2, 0), (2, 0, 1), (2, 1, 0)]
        out = []
        for a in range(1, amax + 1):
            for (head, ops) in self.race_histories():
                for (x, y, z) in perms:
                    for b in range(1, bmax + 1):
                        sc = [x] * a + [y] * 300 + [x] * b + [z] * 300 + [x] * 300
                        out.append("%s %s | %s" % (head, " / ".join(ops), " ".join(map(str, sc))))
        return out

    def race_random(self, r, n):
        out = []
        hs = self.race_histories()
        for _ in range(n):
            head, ops = r.pick(hs)
            ops = r.shuffle(ops)
            sc = []
            while len(sc) < 900:
                sc += [r.below(3)] * r.range(1, 60)
            out.append("%s %s | %s" % (head, " / ".join(ops), " ".join(map(str, sc))))
        return out

    def prove(self):
        fails = super().prove()
        self._broken = bool(fails)
        return fails

    def correspond(self, cases, tag="cases"):
        impl, model = super().correspond(cases, tag)
        if tag == "cases" and any(a != b for a, b in zip(impl, model)):
            self._broken = True
        return impl, model

    def race_cases(self, cases):
        r = self.rng.fork()
        if getattr(self, "_broken", False):
            return self.race_space(16, 80) + self.race_random(r, 3000)
        full = self.race_space(16, 80)
        n = 300 if self.tier == "quick" else 3000
        return [full[r.below(len(full))] for _ in range(n)] + self.race_random(r, n // 3)

    def run_race(self, cases):
        """in chunks; once a chunk contains an oracle hit the remaining cases are not run"""
        out, hit = [], False
        for i in range(0, len(cases), 1500):
            chunk = cases[i:i + 1500]
            if hit:
                out += ["<not run>"] * len(chunk)
                continue
            obs = super().run_race(chunk)
            out += obs
            hit = any(self.race_oracle(c, a) for c, a in zip(chunk, obs))
        return out

    def search_cases(self):
        r = self.rng.fork()
        return [self.seq_case(r) for _ in range(300)] + [self.sched_case(r) for _ in range(300)]

    def nontrivial_key(self, case):
        if case.startswith("sched"):
            f = [x.strip() for x in case.split("|")]
            s = f[3].split()
            if len(f[2].split("/")) < 2:
                return None
            inter = any(s[i] != s[i + 1] and s[i] in s[i + 2:] for i in range(len(s) - 2))
            return case if inter else None
        return case if len(case.split()) > 12 else None

    def dist(self, cases):
        d = {"seq": 0, "seqh": 0, "sched": 0, "threads_hist": {}, "hint_hist": {}}
        for c in cases:
            w = c.split()
            d[w[0]] = d.get(w[0], 0) + 1
            d["hint_hist"][w[2]] = d["hint_hist"].get(w[2], 0) + 1
            if w[0] == "sched":
                nt = str(len(c.split("|")[2].split("/")))
                d["threads_hist"][nt] = d["threads_hist"].get(nt, 0) + 1
        return d

    # ------------------------------------------------------------------ oracle
    @staticmethod
    def parse_dump(s):
        """'{T3/0: 1[1]=6 T2/2: 0[1]=5 2[2]=9,8}' -> [(bits, used, {bucket: (len, [keys])})] or None"""
        s = s.strip()
        if not (s.startswith("{") and s.endswith("}")):
            return None
        tabs = []
        for tok in s[1:-1].split():
            m = re.match(r"^T(\d+)/(-?\d+):$", tok)
            if m:
                tabs.append((int(m.group(1)), int(m.group(2)), {}))
                continue
            m = re.match(r"^(\d+)\[(-?\d+)\]=([\d,]*)$", tok)
            if not m or not tabs:
                return None
            keys = [int(x) for x in m.group(3).split(",") if x]
            tabs[-1][2][int(m.group(1))] = (int(m.group(2)), keys)
        return tabs

    @staticmethod
    def check_dump(tabs, live):
        """each live key in exactly one bucket of one table, nothing else stored"""
        seen = {}
        for (bits, used, bk) in tabs:
            for i, (ln, keys) in bk.items():
                if i >= (1 << bits):
                    return "bucket %d outside a table of %d bits" % (i, bits)
                for k in keys:
                    if k in seen:
                        return "key %d is stored twice (tables of %d and %d bits)" % (k, seen[k], bits)
                    seen[k] = bits
        for k in live:
            if k not in seen:
                return "key %d was inserted and not removed but is in no bucket" % k
        for k in seen:
            if k not in live:
                return "key %d is stored but is not live" % k
        return None

    def oracle_seq(self, case, obs):
        ops = case.split("|", 1)[1].split()
        fields = obs.split(" | ")
        live = {}
        j = 0
        for fi, fld in enumerate(fields):
            if j >= len(ops):
                return "more results than operations"
            name = ops[j]
            k = int(ops[j + 1]) if name != "a" else None
            v = int(ops[j + 2]) if name in ("i", "ni") else None
            j += 1 + (name != "a") + (name in ("i", "ni"))
            m = re.match(r"^(\w+):(.*?) (\{.*\})$", fld.strip())
            if not m or m.group(1) != name:
                return "unparsable result %r for op %s" % (fld[:60], name)
            res, dump = m.group(2).strip(), self.parse_dump(m.group(3))
            if dump is None:
                return "unparsable dump " + m.group(3)[:60]
            if name in ("i", "ni"):
                if k in live:
                    return None            # precondition of insert violated by the case: nothing is promised from here on
                live[k] = v
            elif name in ("f", "nf", "r", "nr"):
                want = live.get(k)
                got = None if res == "-" else int(res)
                if got != want:
                    return "%s %d returned %s, the map holds %s" % (name, k, res, want)
                if name in ("r", "nr"):
                    live.pop(k, None)
            elif name == "a":
                got = [tuple(int(y) for y in x.split("=")) for x in res.split()]
                if sorted(got) != sorted(live.items()):
                    return "for_all visited %s, the map holds %s" % (sorted(got)[:12], sorted(live.items())[:12])
            why = self.check_dump(dump, live)
            if why:
                return "after op %d (%s %s): %s" % (fi, name, k, why)
        if j < len(ops):
            return "operation sequence did not complete (%d of %d tokens)" % (j, len(ops))
        return None

    # linearizability of the observed history.  A map is a product of independent objects, one per
    # key, and linearizability is local (Herlihy & Wing): the history is linearizable iff its
    # projection on every key is.  One key: state absent / present(v).
    @staticmethod
    def lin_key(init, evs, final_present):
        """evs: list of (op, value_or_None, result, inv, resp); search an order that respects real time"""
        n = len(evs)
        memo = set()

        def go(done, state):
            if done == (1 << n) - 1:
                return (state is not None) == final_present
            if (done, state) in memo:
                return False
            memo.add((done, state))
            for i in range(n):
                if done >> i & 1:
                    continue
                # i may come next only if no other pending operation returned before i was invoked
                if any(not (done >> j & 1) and j != i and evs[j][4] < evs[i][3] for j in range(n)):
                    continue
                op, v, res = evs[i][0], evs[i][1], evs[i][2]
                if op == "i":
                    if state is not None:
                        continue            # insert of a present key: excluded by the generator's ownership rule
                    if go(done | 1 << i, v):
                        return True
                elif op == "f":
                    if res == state and go(done | 1 << i, state):
                        return True
                else:
                    if res == state and go(done | 1 << i, None):
                        return True
            return False
        return go(0, init)

    def oracle_sched(self, case, obs):
        f = [x.strip() for x in case.split("|")]
        pre = f[1].split()
        init, j = {}, 0
        while j < len(pre):
            if pre[j] == "i":
                init[int(pre[j + 1])] = int(pre[j + 2])
                j += 3
            else:
                j += 2
        nt = len(f[2].split("/"))
        o = [x.strip() for x in obs.split(" | ")]
        if len(o) < nt + 1:
            return "unparsable observation " + obs[:80]
        per_key = {}
        for t in range(nt):
            toks = o[t].split()
            if not toks or toks[0] != "t%d:" % t:
                return "unparsable thread field " + o[t][:60]
            want = f[2].split("/")[t].split()
            vals = [int(want[q + 2]) for q in range(len(want)) if want[q] == "i"]
            for tok in toks[1:]:
                m = re.match(r"^(i|f|r):(\d+):([-.?\d]+)@(-?\d+)-(-?\d+)$", tok)
                if not m:
                    return "unparsable event " + tok
                if m.group(3) == "?":
                    return "operation %s %s of thread %d did not return" % (m.group(1), m.group(2), t)
                op, k = m.group(1), int(m.group(2))
                res = None if m.group(3) in ("-", ".") else int(m.group(3))
                v = vals.pop(0) if op == "i" else None
                per_key.setdefault(k, []).append((op, v, res, int(m.group(4)), int(m.group(5))))
        dump = self.parse_dump(o[nt])
        if dump is None:
            return "unparsable dump " + o[nt][:60]
        stored = {}
        for (bits, used, bk) in dump:
            for i, (ln, keys) in bk.items():
                if i >= (1 << bits):
                    return "bucket %d outside a table of %d bits" % (i, bits)
                for k in keys:
                    if k in stored:
                        return "key %d is stored twice at the end (tables of %d and %d bits)" % (k, stored[k], bits)
                    stored[k] = bits
        for k in set(per_key) | set(init) | set(stored):
            evs = per_key.get(k, [])
            if len(evs) > 14:
                continue
            if not self.lin_key(init.get(k), evs, k in stored):
                return ("history of key %d is not linearizable as a map entry (initially %s, finally %s): %s"
                        % (k, init.get(k), "stored" if k in stored else "absent",
                           " ".join("%s%s=%s@%d-%d" % (e[0], "" if e[1] is None else "(%d)" % e[1], e[2], e[3], e[4]) for e in evs)))
        return None

    def oracle(self, case, obs):
        if obs == "<not run>":
            return None
        if "<deadlock>" in obs:
            return "operations did not complete (deadlock)"
        if obs.startswith("<impl"):
            return "the implementation crashed or printed nothing: " + obs[:80]
        if case.startswith("seq"):
            return self.oracle_seq(case, obs)
        if case.startswith("sched"):
            return self.oracle_sched(case, obs)
        return None

    def signature(self, case, obs):
        why = self.oracle(case, obs) or ""
        kind = ("deadlock" if "deadlock" in why else "lost" if "in no bucket" in why else "dup" if "twice" in why
                else "stale" if "not live" in why else "nonlin" if "not linearizable" in why else "noreturn" if "did not return" in why else "forall" if "for_all" in why else "result" if "returned" in why else "other")
        return case.split()[0] + "-" + kind
