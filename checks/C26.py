from vcheck import Check

INV, OWN, EXC, SHA = "I", "O", "E", "S"
TWO32 = 1 << 32
MODES = ("R", "W", "RW")


def _parse_copy(tok):
    if tok == "-":
        return None
    s, v, r, x = tok.split(":")
    return (s, int(v), int(r), int(x))


def _parse_case(case):
    kind, own, cps, ops = [f.strip() for f in case.split("|")]
    return kind, int(own), [_parse_copy(t) for t in cps.split()], ops.split()


def _parse_obs(obs):
    out = []
    for part in obs.split(" | "):
        ret, own, cps = part.split(";")
        out.append((ret, int(own), [_parse_copy(t) for t in cps.split(",")]))
    return out


# ---- state predicates, written from the property statement (not from the model) ----
def _valid(st):
    return [(i, c) for i, c in enumerate(st[1]) if c is not None and c[0] != INV]


def _uptodate(st, d):
    c = st[1][d]
    return c is not None and c[0] != INV and all(x[1] <= c[1] for _, x in _valid(st))


def _inv12(st):
    own, cs = st
    for i, c in enumerate(cs):
        if c is None:
            continue
        if c[0] == OWN and own != i:
            return False
        if own >= 0 and i != own and c[0] not in (INV, SHA):
            return False
    return True


def _J(st):
    """invariant of access histories: one owner, the owner's copy valid and newest, equal versions
    when nobody owns the datum"""
    own, cs = st
    if own < -1 or len(cs) > 128 or not _inv12(st):
        return False
    if own >= 0:
        if own >= len(cs) or not _uptodate(st, own):
            return False
    else:
        if len({c[1] for _, c in _valid(st)}) > 1:
            return False
    return True


def _owner_owned(st):
    own, cs = st
    return own < 0 or (own < len(cs) and cs[own] is not None and cs[own][0] == OWN)


class C26(Check):
    id = "C26"
    prop_file = "theories/Properties/Properties_C26.v"
    theorems = ("C26_one_owner", "C26_owned_unique", "C26_overlapping_writers_two_owned",
                "C26_write_start_effect", "C26_write_transfer_owned", "C26_read_start_effect",
                "C26_readers_exact", "C26_readers_nonneg", "C26_access_invariant", "C26_access_clauses",
                "C26_transfer_iff_stale_partial", "C26_transfer_iff_stale_refuted", "C26_refuting_history",
                "C26_access_atomic_eq", "C26_constructors")
    comp = "coherency"
    extract_file = "theories/Extract/Extract_Coherency.v"
    extracted = ("coherency",)
    harness_src = "harness/h_coherency.c"
    link_parsec = True
    level_text = (
        "Model: parsec_data_start/end/transfer_ownership_to_copy of data.c mirrored statement by statement over a datum with "
        "any number of device slots (coherency state, uint32 version, readers, transfer status, owner_device as int8), the "
        "assertions as separate boolean functions. Theorems, for every number of copies and histories of any length: "
        "(a) for all histories of start/end/transfer and caller writes, every OWNED copy is owner_device's (hence at most "
        "one), under the contract that a write transfer is ended while its target is still the owner (always true of the "
        "locked entry point; a witness shows the contract is needed and is not asserted by the code); (d) exact effect of a "
        "write start on every other copy, target OWNED after the locked call; readers: exact count, never negative when "
        "releases follow starts; for all histories of accesses (device, mode, bumps by the owner) from any state satisfying "
        "the invariant J (both constructors do): J is kept, a source is returned only for a read of a stale target, the "
        "source holds the greatest valid version, a write makes the target the OWNED owner above every valid version. "
        "PARTIAL on one clause: 'a stale target read always gets a source' is proved only for histories where the owner "
        "makes no read-only access to its own copy; the unrestricted clause is refuted in Coq "
        "(C26_transfer_iff_stale_refuted) and on the real code (finding). The model is tied to libparsec by running the "
        "real functions on a real parsec_data_t and comparing every field after every operation.")
    level_note = (
        "Trusted: Coq kernel, extraction, the harness (it writes version/readers/status fields the way device_gpu.c, "
        "jdf2c.c and the DTD front-end do, and sets parsec_nb_devices without parsec_init). Assumptions: device numbers "
        "< 128 (int8 owner_device), no uint32 overflow of versions, fewer than 2^31 pending readers, operations on one "
        "datum are serialised by data->lock (the model is sequential).")
    technique = ("Coq proof (invariants by induction over histories of primitive operations and of accesses, any number "
                 "of copies) + differential run of the real libparsec functions against the extracted model, snapshot of "
                 "every copy after every call")
    rule = ("tx: exhaustive histories of length 5 over {access(d,R|W|RW) for 2 copies, bump} from parsec_data_create's "
            "and an unowned state; prim: exhaustive length-3 histories of start/end/transfer/bump/pull on 2 copies; "
            "random streams on 2..4 attached copies (with empty slots), length <= 12: accesses (split and atomic), "
            "bracketed start..end with pulls, releases and status changes, and a wild stream that ignores the "
            "bracketing wherever the code has no assertion, with versions at the uint32 boundary. Non-trivial = at "
            "least one start/transfer/access on a datum with >= 2 copies; distinct = distinct case text")
    trusted = ("harness creates the datum with parsec_data_new/parsec_data_copy_new after freezing an empty device "
               "registry and parsec_data_init (no parsec_init, no real device modules); caller-side field writes "
               "(version, readers--, data_transfer_status) are done by the harness",)
    assumptions = ("device index < 128 (owner_device is int8_t)",
                   "version numbers do not overflow uint32_t; fewer than 2^31 readers",
                   "calls on one datum are serialised (data->lock held by the callers of start/end)",
                   "a write transfer is ended while its target is still owner_device (no overlapping writers)")

    # ------------------------------------------------------------------ generation
    def _copies(self, toks):
        return " ".join(toks)

    def _rand_init(self, r, n, style):
        """(owner, [copy tokens]) ; style: create | new | unowned | owned | wild"""
        att = [True] * n
        if n >= 3 and r.chance(1, 3):
            att[r.range(1, n - 1)] = False
        idx = [i for i in range(n) if att[i]]
        base = r.pick([0, 0, 1, 7, TWO32 - 20])
        toks = ["-"] * n
        own = -1
        if style == "create":
            for i in idx:
                toks[i] = "I:0:0:0"
            toks[idx[0]] = "O:%d:0:0" % base
            own = idx[0]
        elif style == "new":
            for i in idx:
                toks[i] = "I:0:0:0"
        elif style == "unowned":
            for i in idx:
                toks[i] = r.pick(["I:%d:0:0" % r.range(0, 3), "S:%d:0:0" % base, "E:%d:0:0" % base,
                                  "S:%d:%d:0" % (base, r.range(0, 2))])
            if all(toks[i][0] == "I" for i in idx):
                toks[idx[0]] = "S:%d:0:0" % base
        elif style == "owned":
            own = r.pick(idx)
            top = base + 3
            for i in idx:
                toks[i] = r.pick(["I:%d:0:0" % r.range(base, top + 2), "S:%d:0:0" % r.range(base, top),
                                  "S:%d:1:0" % top])
            toks[own] = "%s:%d:%d:0" % (r.pick(["O", "O", "O", "S"]), top, r.range(0, 1))
        else:  # wild: anything, including states no history produces
            own = r.pick([-1] + idx)
            for i in idx:
                toks[i] = "%s:%d:%d:%d" % (r.pick(["I", "O", "E", "S"]), r.pick([0, 1, 2, base, TWO32 - 1]),
                                           r.range(0, 2), r.pick([0, 0, 0, 1, 2]))
        return own, toks, idx

    def _tx_stream(self, r, idx, k):
        ops = []
        for _ in range(k):
            c = r.below(10)
            if c == 0:
                ops.append("G")
            else:
                ops.append("%s.%d.%s" % (r.pick(["A", "A", "a"]), r.pick(idx), r.pick(["R", "R", "W", "RW", "RW", "N"])))
        return ops

    def _pair_stream(self, r, idx, k):
        """bracketed protocol: start .. [status, pull] .. end, releases after reads, bumps after writes"""
        ops, open_, pend = [], {}, {i: 0 for i in idx}
        while len(ops) < k:
            c = r.below(10)
            d = r.pick(idx)
            if c <= 3 and d not in open_:
                m = r.pick(MODES)
                ops.append("S.%d.%s" % (d, m))
                open_[d] = m
                if "R" in m:
                    pend[d] += 1
                    if r.chance(1, 3):
                        ops.append("X.%d.1" % d)
                        open_[d] = m + "!"
                    ops.append("P.%d" % d)
            elif c <= 6 and open_:
                d = r.pick(sorted(open_))
                m = open_.pop(d)
                if m.endswith("!"):
                    m = m[:-1]
                    ops.append("X.%d.2" % d)
                ops.append("E.%d.%s" % (d, m))
                if "W" in m:
                    ops.append("B.%d" % d)
            elif c == 7 and pend[d] > 0:
                ops.append("R.%d" % d)
                pend[d] -= 1
            elif c == 8 and d not in open_:
                m = r.pick(MODES)
                ops.append("T.%d.%s" % (d, m))
                if "R" in m:
                    pend[d] += 1
                    ops.append("P.%d" % d)
                if "W" in m:
                    ops.append(r.pick(["B.%d", "I.%d"]) % d)
            elif c == 9:
                ops.append("%s.%d.%s" % (r.pick(["A", "a"]), d, r.pick(MODES)))
        return ops

    def _wild_stream(self, r, idx, k):
        ops = []
        for _ in range(k):
            d = r.pick(idx)
            c = r.below(16)
            if c <= 4:
                ops.append("S.%d.%s" % (d, r.pick(["R", "W", "RW", "N"])))
            elif c <= 7:
                ops.append("E.%d.%s" % (d, r.pick(["R", "W", "RW", "N"])))
            elif c <= 9:
                ops.append("T.%d.%s" % (d, r.pick(["R", "W", "RW", "N"])))
            elif c == 10:
                ops.append("V.%d.%d" % (d, r.pick([0, 1, 5, TWO32 - 1, TWO32 - 2])))
            elif c == 11:
                ops.append(r.pick(["I.%d", "B.%d"]) % d)
            elif c == 12:
                ops.append("P.%d" % d)
            elif c == 13:
                ops.append("R.%d" % d)
            elif c == 14:
                ops.append("X.%d.%d" % (d, r.below(3)))
            else:
                ops.append("%s.%d.%s" % (r.pick(["A", "a"]), d, r.pick(MODES)))
        return ops

    def cases(self):
        r = self.rng
        quick = self.tier == "quick"
        out = []
        # exhaustive histories of accesses of length 5 on 2 copies (prefixes are observed too)
        alpha = ["A.%d.%s" % (d, m) for d in (0, 1) for m in MODES] + ["G"]
        inits = [("0", "O:0:0:0 I:0:0:0"), ("-1", "S:2:0:0 I:0:0:0")]
        L = 5 if quick else 6
        import itertools
        for own, cps in inits:
            for seq in itertools.product(alpha, repeat=L):
                out.append("tx | %s | %s | %s" % (own, cps, " ".join(seq)))
        # exhaustive short histories of the primitive operations on 2 copies
        palpha = (["%s.%d.%s" % (k, d, m) for k in "SET" for d in (0, 1) for m in MODES]
                  + ["B.0", "B.1", "P.0", "P.1"])
        for own, cps in (("0", "O:1:0:0 S:0:0:0"), ("-1", "I:0:0:0 I:0:0:0")):
            for seq in itertools.product(palpha, repeat=3 if quick else 4):
                out.append("prim | %s | %s | %s" % (own, cps, " ".join(seq)))
        # random streams, 2..4 attached copies
        nrand = 6000 if quick else 120000
        for k in range(nrand):
            n = r.range(2, 5)
            kind = ("tx", "pair", "wild", "tx")[k % 4]
            style = {"tx": r.pick(["create", "unowned", "owned", "new"]),
                     "pair": r.pick(["create", "unowned", "owned", "new"]),
                     "wild": r.pick(["wild", "wild", "owned", "create"])}[kind]
            own, toks, idx = self._rand_init(r, n, style)
            if len(idx) < 2:
                continue
            ln = r.range(1, 12)
            if kind == "tx":
                ops = self._tx_stream(r, idx, ln)
                if style == "new":   # a fresh datum must be written first (assert(-1 != valid_copy))
                    ops = ["A.%d.W" % r.pick(idx)] + ops
            elif kind == "pair":
                ops = self._pair_stream(r, idx, ln)
                if style == "new":
                    ops = ["T.%d.W" % idx[0], "B.%d" % idx[0]] + ops
            else:
                ops = self._wild_stream(r, idx, ln)
            out.append("%s | %d | %s | %s" % (kind, own, " ".join(toks), " ".join(ops)))
        return out

    def nontrivial_key(self, case):
        try:
            kind, own, cs, ops = _parse_case(case)
        except Exception:
            return None
        if sum(1 for c in cs if c is not None) < 2:
            return None
        return case if any(o[0] in "STAa" for o in ops) else None

    def dist(self, cases):
        d = {"tx": 0, "prim": 0, "pair": 0, "wild": 0}
        nops = 0
        maxn = 0
        for c in cases:
            k = c.split("|", 1)[0].strip()
            d[k] = d.get(k, 0) + 1
            nops += len(c.rsplit("|", 1)[1].split())
            maxn = max(maxn, len(c.split("|")[2].split()))
        d["operations"] = nops
        d["max_slots"] = maxn
        return d

    # ------------------------------------------------------------------ oracle
    def _analyze(self, case, obs):
        """returns None or (why, signature, index of the failing op)"""
        try:
            kind, own0, cs0, ops = _parse_case(case)
            snaps = _parse_obs(obs) if ops else []
        except Exception:
            return ("unparsable observation: " + obs[:80], "unparsable", 0)
        if len(snaps) != len(ops):
            return ("%d snapshots for %d operations" % (len(snaps), len(ops)), "unparsable", 0)
        n = len(cs0)
        st = (own0, cs0)
        contract_a = _inv12(st)           # (a) is claimed while the contract of C26_one_owner holds
        exp_rd = [c[2] if c else None for c in cs0]
        pure_tx = kind == "tx" and _J(st) and _owner_owned(st)   # a history of accesses from a legitimate state
        pending = None
        for k, (op, (ret, own1, cs1)) in enumerate(zip(ops, snaps)):
            f = op.split(".")
            kd = f[0]
            post = (own1, cs1)
            if pure_tx and max([c[1] for c in st[1] if c is not None]) + 1 >= TWO32:
                pure_tx = False              # uint32 overflow of the version: outside the hypotheses
            if pure_tx and kd in "Aa" and "R" in f[2] and not _valid(st):
                pure_tx = False              # read of a datum without any valid copy: assert(-1 != valid_copy)
            if len(cs1) != n or any((a is None) != (b is None) for a, b in zip(st[1], cs1)):
                return ("op %d %s: the set of attached copies changed" % (k, op), "attach", k)
            if ret == "!null":
                if post != st:
                    return ("op %d %s on an empty slot changed the state" % (k, op), "null", k)
                continue
            d = int(f[1]) if len(f) > 1 else None
            m = f[2] if kd in "SETAa" and len(f) > 2 else ""
            rd, wr = "R" in m, "W" in m
            try:
                r = int(ret)
            except ValueError:
                return ("op %d %s: return value %s" % (k, op, ret), "unparsable", k)
            # ---- readers: exact count (e)
            if kd in "STAa" and rd:
                exp_rd[d] += 1
            if kd == "R":
                exp_rd[d] -= 1
            for i in range(n):
                if cs1[i] is not None and cs1[i][2] != exp_rd[i]:
                    return ("op %d %s: copy %d has %d readers, %d read starts minus releases expected"
                            % (k, op, i, cs1[i][2], exp_rd[i]), "e-readers", k)
            # ---- (a) one owner, while the contract holds
            if kd == "E" and wr and st[0] != d:
                contract_a = False
            if kd in "STAa" and d >= 128:
                contract_a = False
            if contract_a and not _inv12(post):
                owned = [i for i, c in enumerate(cs1) if c is not None and c[0] == OWN]
                return ("op %d %s: OWNED copies %s with owner_device %d" % (k, op, owned, own1), "a-owner", k)
            # ---- start-like operations
            if kd in "STAa":
                # (d) write makes the target the owner; effect on the other copies
                if wr:
                    if own1 != d:
                        return ("op %d %s: write access but owner_device is %d" % (k, op, own1), "d-owner", k)
                    if kd != "S" and cs1[d][0] != OWN:
                        return ("op %d %s: target copy is %s after a completed write access" % (k, op, cs1[d][0]),
                                "d-owned", k)
                    for i in range(n):
                        a, b = st[1][i], cs1[i]
                        if i == d or a is None:
                            continue
                        want = a[0] if st[0] == d else (INV if a[0] == INV else SHA)
                        if b[0] != want or b[1:] != a[1:]:
                            return ("op %d %s: copy %d went %s -> %s, expected state %s and nothing else changed"
                                    % (k, op, i, a, b, want), "d-others", k)
                elif st[0] == d or st[1][d][0] != OWN:
                    if own1 != st[0]:
                        return ("op %d %s: access without write changed owner_device %d -> %d" % (k, op, st[0], own1),
                                "d-read-owner", k)
                    for i in range(n):
                        a, b = st[1][i], cs1[i]
                        if i == d or a is None:
                            continue
                        want = SHA if (rd and st[0] != d and a[0] == EXC) else a[0]
                        if b[0] != want or b[1:] != a[1:]:
                            return ("op %d %s: copy %d went %s -> %s, expected state %s" % (k, op, i, a, b, want),
                                    "d-read-others", k)
                # (b), (c): decided on the state before the call, when it satisfies the invariant of
                # access histories and the assertion "-1 != valid_copy" cannot fire
                if _J(st) and (_valid(st) or not rd):
                    stale = not _uptodate(st, d)
                    if r >= 0:
                        if not rd or not stale:
                            return ("op %d %s: source %d returned although the target is %s" %
                                    (k, op, r, "up to date" if not stale else "not read"), "b-spurious", k)
                        if r >= n or st[1][r] is None or not _uptodate(st, r):
                            return ("op %d %s: source %d does not hold the newest valid version in %s" % (k, op, r, st[1]),
                                    "c-source", k)
                    elif rd and stale:
                        if _owner_owned(st):
                            return ("op %d %s: target is stale (%s) but no transfer was requested" % (k, op, st[1]),
                                    "b-missed", k)
                        if pure_tx and pending is None:
                            # full-strength clause on a genuine history of accesses: the owner's own
                            # read-only access demoted its OWNED copy, stale SHARED copies go unnoticed
                            # (kept pending: a different violation later in the same case is reported first)
                            pending = ("op %d %s: target copy %d is SHARED with version %d, copy %d holds version %d, "
                                    "no transfer requested (owner's copy was demoted to SHARED by its own read)"
                                    % (k, op, d, st[1][d][1], st[0], st[1][st[0]][1]), "b-stale-after-owner-read", k)
                # completed write access of a history of accesses: new version above every valid one
                if kd in "Aa" and wr and _J(st):
                    top = max([c[1] for _, c in _valid(st)] + [0])
                    if top + 1 < TWO32 and st[1][d][1] < TWO32 - 1:
                        if any(c[1] >= cs1[d][1] for i, c in _valid(post) if i != d):
                            return ("op %d %s: the writer's version %d is not above the other valid copies %s"
                                    % (k, op, cs1[d][1], cs1), "d-version", k)
            # ---- histories of accesses keep the invariant (no uint32 overflow)
            if pure_tx:
                if not _J(post):
                    return ("op %d %s: invariant of access histories lost: owner %d copies %s" % (k, op, own1, cs1),
                            "j-invariant", k)
            if kd not in "AaG":
                pure_tx = False
            st = post
        return pending

    def oracle(self, case, obs):
        a = self._analyze(case, obs)
        return a[0] if a else None

    def signature(self, case, obs):
        a = self._analyze(case, obs)
        return a[1] if a else "none"

    def shrink(self, case, obs):
        a = self._analyze(case, obs)
        if not a:
            return case, obs
        k = a[2]
        head, ops = case.rsplit("|", 1)
        return head + "| " + " ".join(ops.split()[:k + 1]), " | ".join(obs.split(" | ")[:k + 1])

    def search_cases(self):
        import itertools
        out = []
        alpha = ["A.%d.%s" % (d, m) for d in (0, 1, 2) for m in MODES] + ["G"]
        for seq in itertools.product(alpha, repeat=4):
            out.append("tx | 0 | O:0:0:0 I:0:0:0 S:0:0:0 | " + " ".join(seq))
        palpha = ["%s.%d.%s" % (k, d, m) for k in "SET" for d in (0, 1, 2) for m in MODES]
        for seq in itertools.product(palpha, repeat=3):
            out.append("prim | 0 | O:1:0:0 S:0:0:0 I:0:0:0 | " + " ".join(seq))
        return out
