"""C43 - accelerator tasks see the newest data (mock device driving the real device_gpu.c through real DTD tasks)."""
import os
import re
import vcheck
from vcheck import Check, Failure, REPO, WORK, PBUILD

PMOD = 1000003
POISON = -11111


def fval(tid, ins):
    a = tid + 1
    for v in ins:
        a = (a * 31 + (v % (1 << 32)) + 7) % PMOD
    return (a * 17 + 3) % PMOD


def parse_case(case):
    """-> (header dict, [ (place, [(datum, mode, pushout)]) ])   place: 0 = CPU, g+1 = mock device g"""
    hd, body = case.split("|", 1)
    w = hd.split()
    h = {"mode": w[1], "ngpu": int(w[2]), "cap": int(w[3]), "nd": int(w[4]), "delay": int(w[5]),
         "batch": int(w[6]), "direct": int(w[7])}
    tasks = []
    for t in body.split(";"):
        t = t.split()
        if not t:
            continue
        place = 0 if t[0] == "c" else int(t[0][1:]) + 1
        fl = []
        sl = []
        for a in t[1:]:
            ranks = []
            if "@" in a:
                a, rk = a.split("@", 1)
                ranks = [int(ch) for ch in rk]
            sl.append(ranks)
            po = a.endswith("p")
            if po:
                a = a[:-1]
            fl.append((int(a[:-1]), a[-1], po))
        tasks.append((place, fl))
        h.setdefault("succ", []).append(sl)
    return h, tasks


def reference(h, tasks):
    """sequential semantics: (values read by every task, memory after every task)"""
    m = [100 + d for d in range(h["nd"])]
    ins_all, mems = [], []
    for tid, (_, fl) in enumerate(tasks):
        ins = [m[d] for (d, mo, _) in fl if mo != "w"]
        v = fval(tid, ins)
        for (d, mo, _) in fl:
            if mo != "r":
                m[d] = v
        ins_all.append(ins)
        mems.append(list(m))
    return ins_all, mems


def task_txt(t, succ=None):
    place, fl = t
    out = "c" if place == 0 else "g%d" % (place - 1)
    for j, (d, mo, po) in enumerate(fl):
        out += " %d%s%s" % (d, mo, "p" if po else "")
        if succ and j < len(succ) and succ[j]:
            out += "@" + "".join(str(r) for r in succ[j])
    return out


def case_txt(h, tasks, succ=None):
    """succ: per task, per flow, the ranks of the successors of the flow (ptg mode)"""
    return "gpu %s %d %d %d %d %d %d | %s" % (h["mode"], h["ngpu"], h["cap"], h["nd"], h["delay"], h["batch"], h["direct"],
                                           " ; ".join(task_txt(t, succ[k] if succ else None) for k, t in enumerate(tasks)))


def effective(h, tasks):
    """the tasks with the pushout the runtime must add by itself: a written flow with a successor on another rank
    (parsec_gpu_task_update_pushout; MPI does not send from device memory)"""
    succ = h.get("succ") or []
    out = []
    for k, (place, fl) in enumerate(tasks):
        sl = succ[k] if k < len(succ) else []
        out.append((place, [(d, mo, po or (mo != "r" and j < len(sl) and any(r != 0 for r in sl[j])))
                            for j, (d, mo, po) in enumerate(fl)]))
    return out


def outside_contract(h, tasks):
    """DTD leaves it to the program to ask for the write-back (PARSEC_PUSHOUT) of a tile written by a device task
    when its next user runs on the CPU (or is the final flush).  Returns the set of data for which the program
    does not: the property says nothing about them."""
    bad = set()
    dirty = {}                       # datum -> written on a device without pushout and not rewritten since
    for place, fl in tasks:
        for d, mo, po in fl:
            if place == 0:
                if dirty.get(d):
                    bad.add(d)
                if mo != "r":
                    dirty[d] = False
            elif mo != "r":
                dirty[d] = not po
    for d, v in dirty.items():
        if v:
            bad.add(d)
    return bad


def through_host(h, tasks):
    """the discipline of the safe streams (GPUSpec.through_host): task-class API, every device write with PUSHOUT, a tile written
    by a device task is written by a CPU task before a device task names it again"""
    if h["direct"]:
        return False
    pend = set()
    for place, fl in tasks:
        if place == 0:
            pend -= {d for d, mo, _ in fl if mo != "r"}
        else:
            for d, mo, po in fl:
                if d in pend or (mo != "r" and not po):
                    return False
            pend |= {d for d, mo, _ in fl if mo != "r"}
    return True


class C43(Check):
    id = "C43"
    prop_file = "theories/Properties/Properties_C43.v"
    theorems = ("C43_eviction_victim_idle_clean", "C43_reserve_spares_busy_and_dirty", "C43_capacity_respected",
                "C43_stage_in_moves_source_value", "C43_pushout_decision", "C43_remote_successor_served_from_newest",
                "C43_reads_see_last_writer_refuted", "C43_newest_version_kept_refuted",
                "C43_stage_in_source_newest_refuted", "C43_reads_refuted_stale_shared", "C43_reads_refuted_cpu_direct")
    comp = "gpu"
    extract_file = "theories/Extract/Extract_GPU.v"
    extracted = ("gpu",)
    harness_src = "harness/h_gpu.c"
    link_parsec = True
    harness_ldflags = ("-ldl",)
    GPU_DEFINE = "-DPARSEC_HAVE_DEV_LEVEL_ZERO_SUPPORT"
    level_text = (
        "Executable Gallina model of parsec_device_data_reserve_space / data_stage_in / callback_complete_push / kernel_pop / "
        "kernel_epilog on top of the C26 model of parsec_data_*transfer_ownership*, with device memory of cap tiles, the clean and "
        "dirty LRU lists, reader counts and memory contents. PROVED for every state, task, capacity and number of devices: the "
        "reservation pass evicts only copies popped from the clean list, with no reader, that no earlier flow of the running task "
        "names; copies with readers, copies outside the clean list (dirty list, copies held by running tasks) and the copies of "
        "all flows of the task survive it; for every task sequence no device ever holds more copies than its zone has tiles; "
        "the post-kernel walk of parsec_gpu_task_update_pushout sets the pushout bit of a written flow iff some successor is on "
        "another rank (every successor list, every enumeration order), and kernel_pop + epilog then leave the host copy with the "
        "version and content of the device copy. "
        "REFUTED in the faithful model, each witness replayed on the real code (5 finding classes): 'reads see the last writer', "
        "'the stage-in source holds the newest version', 'the newest version is never lost'. No positive theorem on values: the "
        "'through the host' discipline under which the unchanged code is right (GPUSpec.through_host) is exercised by the "
        "differential run and the oracle only. Tie: a mock device module (host memory, deferred streams, poisoned re-allocated "
        "tiles) registered into the real runtime drives real DTD tasks through the real parsec_device_kernel_scheduler; the "
        "state of every copy and list after every task is compared with the model (one task in flight), values only when "
        "several tasks are in flight. Partial.")
    level_note = (
        "Trusted: the mock module, a private libparsec build with -DPARSEC_HAVE_DEV_LEVEL_ZERO_SUPPORT (enables the body of "
        "parsec_dtd_gpu_task_submit; device_gpu.c and transfer_gpu.c are #included by the harness), ELF interposition of "
        "parsec_mca_device_registration_complete. The model is sequential in tasks (data_in = host copy, reference count of "
        "copies not modelled); pipelines of several tasks, w2r write-back tasks (unreachable on the unchanged tree, finding "
        "dirty-full-livelock), prefetch, batching, PTG-generated code and real hardware streams are outside the model and are "
        "only exercised by the value oracle. The 'ptg' mode (harness builds the task itself and forwards the writer's device copy "
        "as data_in, GPUDefs.prun) is tied by the same state diff but carries no theorem. On the unchanged tree the check reports 5 known classes of failing inputs "
        "(notes/findings/C43-*.md) until they are listed in KNOWN_FINDINGS.txt.")
    technique = ("Coq proof (invariants of the executable device-memory model) + differential run of the real device_gpu.c, "
                 "driven by a mock device module through real DTD tasks, against the extracted model; sequential value oracle")
    rule = ("task sequences <= 40 tasks over <= 8 tiles on 1-2 mock devices of 2-6 tiles: 'safe' streams obey the "
            "through-the-host discipline (read-mostly and write-heavy), 'wild' streams only the DTD contract, a 'ptg' family "
            "(no DTD: the writer's dirty device copy is forwarded, read device-to-device, then its device's clean list is walked), "
            "directed corpus for "
            "each refutation witness; non-trivial = at least one device task needing an eviction or a transfer decision "
            "(more distinct data on a device than cap, or a datum touched by two places)")
    trusted = ("mock device module (harness/h_gpu.c): host-memory zone, deferred copy/kernel queues executed when the runtime "
               "sees the stage's event complete, poisoning of tiles handed out again",
               "private libparsec build with one extra -D; ELF interposition of parsec_mca_device_registration_complete")
    assumptions = ("sequential consistency of the manager thread (one worker thread)",
                   "the DTD program asks for PARSEC_PUSHOUT when the next user of a device-written tile is a CPU task or the flush",
                   "tile = one allocation unit of the zone; no wrap of the 32-bit version counter")

    # ------------------------------------------------------------------ build: private GPU-enabled libparsec
    def gpu_build_dir(self):
        return os.path.join(WORK, "pbuild_gpu") if REPO == "/repo" else os.path.join(REPO, "_vbuild_gpu")

    def build_sides(self):
        fails = []
        b = self.gpu_build_dir()
        ok, msg = vcheck.ensure_parsec(targets=("parsec",), build=b,
                                       extra_cmake=["-DCMAKE_C_FLAGS=-Wno-error -D%s %s" % (vcheck.GUARD, self.GPU_DEFINE)])
        if not ok:
            fails.append(Failure("build", "PaRSEC (device-enabled variant) does not build from /repo", msg))
            return fails
        ok, msg = vcheck.build_harness(self.harness_src, self.hbin(), True, self.harness_ldflags, build=b)
        if not ok:
            fails.append(Failure("correspondence", "harness %s no longer compiles against /repo" % self.harness_src, msg))
        self.race_ok = False
        ok, msg = vcheck.build_driver(self.comp, "ocaml/d_%s.ml" % self.comp, self.extracted, self.mbin())
        if not ok:
            fails.append(Failure("build", "model driver does not build", msg))
        return fails

    # ------------------------------------------------------------------ generators
    def palette(self, r, ngpu, nd, cap, pw, ppo, wmodes):
        """a case uses a bounded number of access signatures (a DTD taskpool registers at most 25 task classes)"""
        sigs = set()
        for _ in range(60):
            nf = min(r.pick([1, 1, 2, 2, 3]), nd, cap)
            s = []
            for _ in range(nf):
                if r.chance(int(pw * 100), 100):
                    mo = r.pick(wmodes)
                    s.append((mo, r.chance(int(ppo * 100), 100)))
                else:
                    s.append(("r", False))
            sigs.add(tuple(s))
            if len(sigs) >= 14:
                break
        return sorted(sigs)

    def gen_safe(self, r, mode):
        """through-the-host discipline: every device write has PUSHOUT and the next device access of a device-written
        tile comes after a CPU (task class) write of it"""
        ngpu = r.pick([1, 2, 2])
        cap = r.range(2, 6)
        nd = r.range(max(2, cap - 1), 8)
        nt = r.range(6, 40)
        pw = r.pick([0.15, 0.2, 0.5, 0.6])          # read-mostly / write-heavy
        pal = self.palette(r, ngpu, nd, cap, pw, 1.0, ["x", "x", "w"])
        need_host = set()                            # written on a device, not yet rewritten by the CPU
        tasks = []
        while len(tasks) < nt:
            if need_host and r.chance(1, 2):
                k = min(len(need_host), r.range(1, 2))
                ds = r.shuffle(sorted(need_host))[:k]
                tasks.append((0, [(d, r.pick(["x", "x", "w"]), False) for d in ds]))
                need_host -= set(ds)
                continue
            place = 0 if r.chance(1, 6) else 1 + r.below(ngpu)
            sig = r.pick(pal)
            cand = [d for d in range(nd) if place == 0 or d not in need_host]
            if len(cand) < len(sig):
                continue
            ds = r.shuffle(cand)[:len(sig)]
            fl = [(d, mo, (po and place != 0)) for d, (mo, po) in zip(ds, sig)]
            if place != 0:
                fl = [(d, mo, mo != "r") for d, mo, _ in fl]
                need_host |= {d for d, mo, _ in fl if mo != "r"}
            else:
                need_host -= {d for d, mo, _ in fl if mo != "r"}
            tasks.append((place, fl))
        h = {"mode": mode, "ngpu": ngpu, "cap": cap, "nd": nd, "delay": 0 if mode == "seq" else r.pick([0, 1, 3, 8]),
             "batch": 1 if mode == "seq" else r.pick([2, 3, 5, 8, 40]), "direct": 0}
        return case_txt(h, tasks)

    def gen_wild(self, r):
        """only the DTD contract: no CPU user after a device write without PUSHOUT; at most cap - 3 tiles stay dirty
        on a device (the unchanged tree never writes dirty tiles back: parsec_device_data_reserve_space reports
        AGAIN and the manager retries for ever)"""
        ngpu = r.pick([1, 2, 2])
        cap = r.range(3, 6)
        nd = r.range(3, 8)
        nt = r.range(5, 40)
        pw = r.pick([0.15, 0.5])
        pal = self.palette(r, ngpu, nd, cap, pw, r.pick([1.0, 0.9, 0.6]), ["x", "x", "w"])
        dirty = {}                                    # datum -> device holding it dirty
        tasks = []
        tries = 0
        while len(tasks) < nt and tries < 400:
            tries += 1
            place = 0 if r.chance(1, 5) else 1 + r.below(ngpu)
            sig = r.pick(pal)
            cand = [d for d in range(nd) if not (place == 0 and d in dirty)]
            if len(cand) < len(sig):
                continue
            ds = r.shuffle(cand)[:len(sig)]
            fl = [(d, mo, (po and place != 0)) for d, (mo, po) in zip(ds, sig)]
            nd2 = dict(dirty)
            for d, mo, po in fl:
                if mo != "r":
                    if place != 0 and not po:
                        nd2[d] = place
                    else:
                        nd2.pop(d, None)
            if any(sum(1 for v in nd2.values() if v == g) > cap - 3 for g in (1, 2)):
                continue
            dirty = nd2
            tasks.append((place, fl))
        # every tile still dirty is written back by a last device task (the flush reads the host copy)
        for d, g in sorted(dirty.items()):
            tasks.append((g, [(d, "x", True)]))
        h = {"mode": "seq", "ngpu": ngpu, "cap": cap, "nd": nd, "delay": 0, "batch": 1, "direct": 0}
        return case_txt(h, tasks)

    def gen_d2d(self, r):
        """'ptg' mode (the writer's device copy is the input of the next users, as PTG forwards it): hot tiles are written
        on a device WITHOUT pushout, read on the other device (device-to-device copy sourced from the dirty OWNED copy),
        then enough read-only cold tiles go through the writer's device to walk its whole clean list, then the hot
        tile is used again; every hot tile is finally pushed out.  The dirty copy must stay off the clean list."""
        cap = r.range(3, 5)
        nhot = r.range(1, min(2, cap - 2))
        ncold = r.range(cap, min(cap + 2, 8 - nhot))
        nd = nhot + ncold
        cold = list(range(nhot, nd))
        home = {z: 1 + r.below(2) for z in range(nhot)}
        dirty = {1: 0, 2: 0}
        tasks = []
        for z in range(nhot):
            tasks.append((home[z], [(z, r.pick(["x", "w"]), False)]))
            dirty[home[z]] += 1

        def pressure(dev):
            room = max(1, cap - dirty[dev])
            todo = r.shuffle(cold)[:r.range(cap, len(cold))]
            while todo:
                k = min(len(todo), r.range(1, min(2, room)))
                tasks.append((dev, [(d, "r", False) for d in todo[:k]]))
                todo = todo[k:]

        for _ in range(r.range(2, 4)):
            z = r.below(nhot)
            a = home[z]
            b = 3 - a
            fl = [(z, "r", False)]
            if r.chance(1, 2) and cap - dirty[b] >= 2:
                fl.append((r.pick(cold), "r", False))
            tasks.append((b, r.shuffle(fl)))
            if r.chance(1, 3):
                tasks.append((b, [(z, "r", False)]))
            pressure(a)
            if r.chance(1, 2):
                pressure(b)
            kind = r.below(4)
            if kind == 0:
                tasks.append((a, [(z, "r", False)]))
            elif kind == 1:
                tasks.append((b, [(z, "r", False)]))
            elif kind == 2:
                tasks.append((a, [(z, "x", False)]))
            else:
                tasks.append((a, [(z, "r", False)]))
                tasks.append((b, [(z, "r", False)]))
        for z in range(nhot):
            tasks.append((home[z], [(z, "x", True)]))
        h = {"mode": "ptg", "ngpu": 2, "cap": cap, "nd": nd, "delay": r.pick([0, 0, 2]), "batch": 1, "direct": 0}
        return case_txt(h, tasks)

    def gen_succ(self, r):
        """'ptg' mode, the post-kernel decision of parsec_gpu_task_update_pushout: written flows carry 0-3 successors with
        ranks in every order of local (0) / remote (1, 2); several written flows per task, some already marked PUSHOUT.
        Every tile lives on one device and all tiles of a device fit in its memory (no eviction: the known classes
        stale-owner-restage / stale-shared-copy cannot interfere); every tile is finally pushed out."""
        ngpu = r.pick([1, 1, 2])
        nd = r.range(2, 5)
        home = [1 + r.below(ngpu) for _ in range(nd)]
        cap = max(2, max(home.count(g) for g in (1, 2)) + r.below(2))
        lists = [[], [0], [1], [2], [0, 0], [0, 1], [1, 0], [1, 1], [0, 2], [2, 0], [0, 0, 1], [0, 0, 2], [0, 1, 0], [1, 0, 0],
                 [0, 1, 2], [2, 0, 1], [0, 0, 0], [1, 2, 0]]
        tasks, succ = [], []
        for _ in range(r.range(5, 18)):
            g = 1 + r.below(ngpu)
            mine = [d for d in range(nd) if home[d] == g]
            if not mine:
                continue
            ds = r.shuffle(mine)[:r.range(1, min(3, len(mine)))]
            fl, sl = [], []
            for d in ds:
                mo = r.pick(["r", "x", "x", "w"])
                fl.append((d, mo, mo != "r" and r.chance(1, 7)))
                sl.append(r.pick(lists) if mo != "r" else [])
            tasks.append((g, fl))
            succ.append(sl)
        for d in range(nd):
            tasks.append((home[d], [(d, "x", True)]))
            succ.append([[]])
        h = {"mode": "ptg", "ngpu": 2, "cap": cap, "nd": nd, "delay": r.pick([0, 0, 2]), "batch": 1, "direct": 0}
        return case_txt(h, tasks, succ)

    def cases(self):
        r = self.rng
        q = self.tier == "quick"
        out = []
        for _ in range(60 if q else 900):
            out.append(self.gen_safe(r, "seq"))
        for _ in range(40 if q else 600):
            out.append(self.gen_safe(r, "par"))
        for _ in range(30 if q else 500):
            out.append(self.gen_wild(r))
        for _ in range(30 if q else 400):
            out.append(self.gen_d2d(r))
        for _ in range(40 if q else 500):
            out.append(self.gen_succ(r))
        return out

    def nontrivial_key(self, case):
        try:
            h, tasks = parse_case(case)
        except Exception:
            return None
        per_dev, places = {}, {}
        for place, fl in tasks:
            for d, _, _ in fl:
                places.setdefault(d, set()).add(place)
                if place:
                    per_dev.setdefault(place, set()).add(d)
        if not per_dev:
            return None
        if any(mo != "r" and any(x != 0 for x in rk)
               for (pl, fl), sl in zip(tasks, h.get("succ") or []) for (d, mo, po), rk in zip(fl, sl)):
            return case                      # a written flow with a successor on another rank: pushout decision
        if any(len(s) > h["cap"] for s in per_dev.values()) or any(len(p) > 1 for p in places.values()):
            return case
        return None

    def dist(self, cases):
        n = {"seq": 0, "par": 0}
        ntask, ndev, evict = 0, 0, 0
        for c in cases:
            try:
                h, tasks = parse_case(c)
            except Exception:
                continue
            n[h["mode"]] = n.get(h["mode"], 0) + 1
            ntask += len(tasks)
            ndev += sum(1 for p, _ in tasks if p)
            per = {}
            for p, fl in tasks:
                if p:
                    per.setdefault(p, set()).update(d for d, _, _ in fl)
            evict += 1 if any(len(s) > h["cap"] for s in per.values()) else 0
        return {"cases_seq": n["seq"], "cases_par": n["par"], "cases_ptg": n.get("ptg", 0), "tasks": ntask, "device_tasks": ndev,
                "cases_with_memory_pressure": evict}

    # ------------------------------------------------------------------ oracle (from the property statement)
    TAIL = re.compile(r"\| in:(.*)\| data:(.*)\| runs:(.*)$")

    def verdict(self, case, obs):
        """(why, task index, datum) of the first deviation from the sequential semantics, or None"""
        try:
            h, tasks = parse_case(case)
        except Exception:
            return None
        skip = outside_contract(h, effective(h, tasks))
        if h["direct"] == 0 and False:
            pass
        if "HANG@" in obs or "CRASH@" in obs:
            m = re.search(r"(HANG|CRASH)@(-?\d+)", obs)
            return ("task %s never completes (%s)" % (m.group(2), m.group(1).lower()), int(m.group(2)), None, "hang")
        m = self.TAIL.search(obs)
        if not m:
            return ("no observation: " + obs[:120], -1, None, "noobs")
        ins_ref, mems = reference(h, tasks)
        tainted = set(skip)                      # data whose value the property does not constrain
        toks = m.group(1).split()
        if len(toks) != len(tasks):
            return ("observation lists %d tasks, the case has %d" % (len(toks), len(tasks)), -1, None, "noobs")
        for tid, tok in enumerate(toks):
            place, fl = tasks[tid]
            val = tok.split("=", 1)[1]
            bad = None
            if "!" in val:
                val, bad = val.split("!")
            rd = [d for d, mo, _ in fl if mo != "r" or True]
            rds = [d for d, mo, _ in fl if mo != "w"]
            # a task that read a datum outside the contract may compute anything
            if any(d in tainted for d in rds):
                tainted |= {d for d, mo, _ in fl if mo != "r"}
                continue
            if bad:
                return ("task %d was handed %s" % (tid, {"1": "device memory on the CPU", "2": "a NULL pointer",
                                                          "4": "memory of another device"}.get(bad, "a bad pointer (%s)" % bad)),
                        tid, None, "pointer")
            got = [] if val == "-" else val.split(",")
            for k, d in enumerate(rds):
                g = got[k] if k < len(got) else "?"
                want = ins_ref[tid][k]
                if g != str(want):
                    what = "uninitialised device memory" if g == "P" else ("nothing (not executed)" if g == "?" else "the stale value " + g)
                    return ("task %d (%s) read %s for tile %d, the last writer in sequence order left %d"
                            % (tid, task_txt(tasks[tid]), what, d, want), tid, d, "P" if g == "P" else "stale")
        runs = m.group(3).split()
        for tid, c in enumerate(runs):
            if c != "1":
                return ("task %d executed %s times" % (tid, c), tid, None, "runs")
        # a successor on another rank is served from the host copy: after a task, the host copy of every tile it wrote
        # through a flow with a remote successor holds the value it wrote
        if h["mode"] == "ptg":
            segs = obs.split(";")
            succ = h.get("succ") or []
            for tid in range(min(len(tasks), len(segs) - 1)):
                sl = succ[tid] if tid < len(succ) else []
                for j, (d, mo, _) in enumerate(tasks[tid][1]):
                    if mo == "r" or d in tainted or j >= len(sl) or not any(r != 0 for r in sl[j]):
                        continue
                    mm = re.search(r" %d\[o-?\d+ (\S+)" % d, segs[tid])
                    host = mm.group(1).split("=")[1] if mm and "=" in mm.group(1) else "?"
                    if host != str(mems[tid][d]):
                        return ("after task %d (%s) the host copy of tile %d holds %s, but the flow has a successor on "
                                "another rank (ranks %s) which must receive %d"
                                % (tid, task_txt(tasks[tid], sl), d, host, "".join(map(str, sl[j])), mems[tid][d]),
                                tid, d, "remote")
        data = m.group(2).split()
        for d, v in enumerate(data):
            if d in tainted:
                continue
            if v != str(mems[-1][d] if mems else 100 + d):
                return ("after the flush tile %d holds %s on the host, the last writer left %d" % (d, v, mems[-1][d]),
                        len(tasks), d, "final")
        # seq mode: the newest version of every tile is held by some copy after every task
        if h["mode"] in ("seq", "ptg"):
            segs = obs.split(";")
            for tid in range(min(len(tasks), len(segs) - 1)):
                for d in range(h["nd"]):
                    if d in tainted:
                        continue
                    mm = re.search(r" %d\[o-?\d+ ([^\]]*)\]" % d, segs[tid])
                    if not mm:
                        continue
                    vals = [c.split("=")[1] for c in mm.group(1).split() if "=" in c]
                    if str(mems[tid][d]) not in vals:
                        return ("after task %d no copy of tile %d holds its newest value %d (copies: %s)"
                                % (tid, d, mems[tid][d], mm.group(1)), tid, d, "lost")
        return None

    def oracle(self, case, obs):
        v = self.verdict(case, obs)
        return v[0] if v else None

    def signature(self, case, obs):
        """names the class of a failing input by the history of the tile read wrongly (since its last CPU task-class write)"""
        v = self.verdict(case, obs)
        if not v:
            return "none"
        h, tasks = parse_case(case)
        why, tid, d, kind = v
        if kind == "remote":
            return "remote-successor-host-stale"
        if h["mode"] == "ptg":
            # the harness forwards the writer's device copy (no DTD): none of the DTD classes applies
            if d is not None:
                hist = []
                for p, fl in tasks[:max(tid, 0)] if tid < len(tasks) else tasks:
                    for dd, mo, po in fl:
                        if dd == d:
                            hist = [] if (mo != "r" and po) else hist + [(p, mo)]
                wr = [p for p, mo in hist if mo != "r"]
                if wr:
                    after = hist[max(i for i, (p, mo) in enumerate(hist) if mo != "r") + 1:]
                    if any(p != wr[-1] for p, mo in after):
                        return "owned-d2d-source-evicted"      # the dirty copy was the source of a device-to-device read
                    if after:
                        return "owned-copy-read-then-evicted"  # it was read on its own device (forwarded copy: no demotion)
            return "ptg-" + kind
        if kind == "hang":
            return "dirty-full-livelock" if not through_host(h, tasks) else "disciplined-hang"
        if through_host(h, tasks):
            # the unchanged tree is right on every such program: never a known class
            return "disciplined-" + kind
        if kind in ("noobs", "runs", "pointer") or d is None:
            return kind
        hist = []                                # accesses to tile d before the failing read: (place, mode, pushout)
        for k, (p, fl) in enumerate(tasks[:max(tid, 0)] if tid < len(tasks) else tasks):
            for dd, mo, po in fl:
                if dd == d:
                    if p == 0 and mo != "r" and not h["direct"]:
                        hist = []
                    else:
                        hist.append((p, mo, po))
        if h["direct"] and any(p == 0 and mo != "r" for p, mo, _ in hist):
            return "cpu-direct-write"
        if any(p != 0 and mo != "r" and not po for p, mo, po in hist):
            return "write-without-pushout"
        reader = tasks[tid][0] if 0 <= tid < len(tasks) else 0
        writers = [p for p, mo, _ in hist if p != 0 and mo != "r"]
        if kind == "P" or (writers and writers[-1] == reader):
            return "stale-owner-restage"
        if writers:
            return "stale-shared-copy"
        return "stale-other"

    def search_cases(self):
        r = vcheck.Rng(self.seed * 7919 + 13)
        return [self.gen_safe(r, "seq") for _ in range(150)] + [self.gen_safe(r, "par") for _ in range(100)]

    def impl_timeout(self):
        return 1500 if self.tier == "quick" else 6000
