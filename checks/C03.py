from dtd_common import DTDCheck, c03_verdict


class C03(DTDCheck):
    id = "C03"
    prop_file = "theories/Properties/Properties_C03.v"
    theorems = ("C03_edges_sound", "C03_chain_edges_complete", "C03_dag_serialisable",
                "C03_observations_sequential", "C03_runs_at_most_once", "C03_progress",
                "C03_stuck_means_all_done", "C03_complete_run_exists", "C03_window_gate_admissible",
                "C03_mechanism_refines_protocol")
    level_text = ("Theorems over the DTD protocol model (insertion sequence = list of tasks with R/W/RW accesses, data may "
                  "repeat inside a task; per-datum chain last-writer/readers built flow by flow as parsec_insert_dtd_task "
                  "does; engine with Insert/Begin/End events, any number of running tasks, arbitrary window gate): for EVERY "
                  "sequence, body function, window and EVERY event list, each task's observed inputs and the final data equal "
                  "those of the sequential execution in insertion order; the built edges are exactly the conflicts of the "
                  "insertion order (sound + complete up to transitivity); a task runs at most once; no reachable state is "
                  "stuck before all tasks are done and a complete run exists. Full for the single-process protocol model; the "
                  "flow-level mechanism model (DTD/DTDGate.v, with the guard of notes/findings/C03-stale-last-user.patch) is "
                  "proved to refine the protocol engine (C03_mechanism_refines_protocol). "
                  "Tie T-obs: the real parsec_dtd_insert_task / scheduler run generated sequences on real tiles under "
                  "several (threads, scheduler, window, threshold) configurations; observed inputs, final data and execution "
                  "counts are compared with the extracted seq_dtd and decided by a Python replay of the sequence.")
    level_note = ("Trusted: Coq kernel, extraction, harness bodies (values read at entry, written at exit). The model abstracts the "
                  "flow-level pointer chain (DESC_OF/PARENT_OF, last_user.alive, reader counts, AGAIN) into 'Begin needs the "
                  "dependencies ended'; reads happen at Begin and writes at End of a body. Not modelled: multiple ranks, tasks "
                  "inserting tasks, the warm-up doubling of the window. Real executions follow the schedules the OS produces, "
                  "not all schedules. Known defects of the unchanged code sit outside the differential stream (defect stream): "
                  "a datum used by several flows of one task, and the LIFO schedulers ll/llp/ip with the AGAIN retry.")
    technique = ("Coq proof (chain invariant, serialisability of conflict-respecting executions, progress) + observation "
                 "differential of the real DTD runtime against the extracted sequential reference")
    rule = ("random insertion sequences (styles: mixed, reader groups between writers, RW chains, independent groups, wide "
            "tasks; <= 60 tasks quick / 200 thorough, <= 6 data, modes R/W/RW, empty tasks) each under 2-3 of the run's "
            "configurations (threads 1..16, schedulers lfq ap gd ltq lhq pbq spq rnd, dtd_window_size 0..16 with threshold, "
            "hold = whole DAG unrolled before execution, with/without flush, one case in six with the tail of the sequence "
            "inserted by the body of the last top-level task); non-trivial = the sequence has a dependency; "
            "distinct = case text")
    trusted = ("harness/h_dtd.c: test-owned bodies record inputs / write F(task, inputs); one worker process per configuration",
               "checks/dtd_common.py: Python replay of the sequence (oracle), independent of the Coq model")
    assumptions = ("single process (one rank); bodies access their data only between entry and exit of the body",
                   "a task names a datum at most once in the differential stream (repeated data: known defects, oracle only)",
                   "schedulers that re-select an AGAIN task immediately (ll, llp, ip) excluded from the differential stream")

    def verdict(self, case, obs):
        return c03_verdict(case, obs)

    def defect_cases(self):
        out = []
        # writer's retry (AGAIN) under a LIFO scheduler with one thread: livelock
        for sc in ("ll", "llp", "ip"):
            out.append("dtd 2 1 %s 0 0 0 0 | 0x ; 0r ; 0r 1x ; 0x ; 1r" % sc)
        # one datum through two read flows of a task, then a later access: the completion spins forever
        out.append("dtd 1 4 lfq 0 0 3 2 | 0x ; 0r 0r ; 0x")
        # write flow followed by another flow of the same datum: NULL pointer for the later flow
        out.append("dtd 1 4 lfq 0 0 3 2 | 0x ; 0w 0r ; 0x")
        out.append("dtd 2 4 lfq 0 0 3 2 | 0x ; 1x ; 0x 1r 0r ; 0x")
        return out + self.late_rr_cases()
