import concurrent.futures
import os
import shutil
import signal
import subprocess

import vcheck
from vcheck import Check, Rng, run, log

MPIEXEC = ["mpiexec", "--allow-run-as-root", "--oversubscribe", "--mca", "mpi_yield_when_idle", "1"]
MPI_MODES = {0: "one large flow", 1: "two large flows", 2: "large + CTL", 3: "large + short", 4: "two large + CTL + short"}


def parent(i):
    return (i - 1) // 2


def pump(n, rounds=1):
    """one sweep of control-message deliveries up the tree (deepest first), then down"""
    out = []
    for _ in range(rounds):
        for c in range(n - 1, 0, -1):
            out.append("d%d:%d" % (c, parent(c)))
        for c in range(1, n):
            out.append("d%d:%d" % (parent(c), c))
    return out


def ancestors(i):
    out = []
    while i > 0:
        i = parent(i)
        out.append(i)
    return out


def cross_wave(n, x, y):
    """Two application messages straddle a wave boundary while control messages overtake them.
    Wave k: x sends m1 to y, goes idle and reports with m1 still in flight (the root sees S=1, R=0).
    Wave k+1: y reports before m1 reaches it, then receives m1, gets a task and answers with m2;
    x receives m2 and is idle again before its (held back) DOWN of wave k arrives, so it reports
    S=1, R=1: the sums balance by accident although y is busy.  x is the root or any rank, y a rank
    in another subtree."""
    below_x = [c for c in range(1, n) if x in ancestors(c)]
    held = set([x] + below_x) if x != 0 else set()
    sc = [("t%d:1" if i == x else "a%d:1") % i for i in range(n)] + ["r%d" % i for i in range(n)]
    sc += ["a%d:-1" % i for i in range(n - 1, -1, -1) if i != x]
    sc += ["s%d:%d" % (x, y), "t%d:-1" % x]
    sc += ["d%d:%d" % (c, parent(c)) for c in range(n - 1, 0, -1)]                       # wave k reaches the root
    sc += ["d%d:%d" % (parent(c), c) for c in range(1, n) if c not in held]             # DOWN(again), not to x
    sc += ["d%d:%d" % (c, parent(c)) for c in range(n - 1, 0, -1) if parent(c) != 0]    # reports of wave k+1 below the root's children
    sc += ["b%d" % y, "t%d:1" % y, "e%d" % y, "s%d:%d" % (y, x), "b%d" % x, "e%d" % x, "t%d:1" % x, "t%d:-1" % x]
    sc += ["d%d:%d" % (parent(c), c) for c in range(1, n) if c in held]                 # the held DOWN arrives
    sc += ["d%d:%d" % (c, parent(c)) for c in range(n - 1, 0, -1)]                       # wave k+1 reaches the root
    sc += ["t%d:-1" % y]
    return (n, sc, "f")


def cross_wave_family(nmax=5):
    out = []
    for n in range(3, nmax + 1):
        for x in range(n):
            for y in range(1, n):
                if y != x and x not in ancestors(y) and y not in ancestors(x) or (x == 0 and y != 0):
                    out.append(cross_wave(n, x, y))
    return out


class C11(Check):
    id = "C11"
    prop_file = "theories/Properties/Properties_C11.v"
    theorems = ("C11_safety", "C11_down_only_to_waiting", "C11_callback_at_most_once",
                "C11_counters_monotone", "C11_conservation", "C11_tree_wf",
                "C11_quiescence_stable", "C11_no_deadlock", "C11_liveness", "C11_liveness_drain",
                "C11_double_count_refuted")
    comp = "term4c"
    extract_file = "theories/Extract/Extract_Term4C.v"
    extracted = ("term4c",)
    harness_src = "harness/h_term4c.c"
    link_parsec = True
    level_text = ("Theorems for every number of processes N >= 1 and every schedule of the atomic-step model (N monitors of the "
                  "four-counter module on the module's binary tree, FIFO control channels, the delayed list, application messages in "
                  "flight). Safety: whenever a process is TERMINATED every process is idle with no work, no application message is in "
                  "flight or being received and the sums of sent and received messages are equal (Mattern's two-wave argument as an "
                  "inductive invariant with ghost wave snapshots); a DOWN message exists only for a process waiting for its parent, "
                  "DOWN(true) only for an idle one; each callback runs exactly once iff TERMINATED; counters monotone; conservation; "
                  "the tree is well formed. Liveness: from every reachable globally quiescent configuration and for every schedule, "
                  "quiescence persists, at most 32N+15+2|net| choices have an effect (deliveries of pending control messages: three "
                  "waves), and whenever the control channels are empty every process is TERMINATED; the oldest-first delivery "
                  "schedule terminates everywhere. The theorems assume that every application message is counted sent once and "
                  "received once; C11_double_count_refuted shows the necessity (one more incoming_message_end for one message: "
                  "quiescent for ever, never TERMINATED). Full level for the model; the model is tied to the real module by stepwise "
                  "differential runs of N simulated ranks, and the call sites of the counting entry points in the communication "
                  "layer by real 2-4 rank PTG runs on the four-counter detector whose activations are completed in several steps "
                  "(two rendez-vous flows, large + CTL, large + short): the runs terminate, data are right, and the calls of "
                  "outgoing_message_start summed over the ranks equal those of incoming_message_start and incoming_message_end.")
    level_note = ("Trusted: Coq kernel, extraction, the harness (stub of parsec_ce.send_am, one address space, rank i = taskpool id "
                  "i+1, tp_id rewritten on delivery); one model step = one call into the module (the rwlock makes each call atomic, "
                  "C33); the environment discipline of termdet.h (work appears on an idle taskpool only while a message is being "
                  "received, messages are sent by busy taskpools, counters never negative); uint32 counters do not wrap.")
    technique = ("Coq proof (inductive invariant over micro-steps, ghost wave snapshots, potential function) + stepwise differential "
                 "run of the real module (N ranks in one process, simulated network) against the extracted model + T-obs: real "
                 "mpiexec runs of a multi-flow PTG on the dynamic detector with counting wrappers around the module's function "
                 "table and a watchdog + property oracle")
    rule = ("directed families: two application messages held back across a wave boundary while control messages overtake "
            "them (accidental S=R in the second wave with unequal previous counts; every root/other-subtree position, N = 3..5, "
            "to 7 in the thorough tier and in the search), templates (message crossing a wave, receipt still open at both waves, reactivation after reporting idle, "
            "late ready with delayed UP) instantiated for N = 2..7 and random histories of <= 60 events for N = 1..7, most with "
            "the quiesce-and-drain epilogue; non-trivial = at least one application message or N >= 2 with a delivery; "
            "distinct = distinct case text")
    trusted = ("harness/h_term4c_mpi.jdf: driver that replaces the taskpool's tdm.module by a counting copy after taskpool creation, "
               "watchdog thread; Open MPI under oversubscription",
               "harness h_term4c.c: simulated per-pair FIFO network replacing parsec_ce.send_am, taskpool ids i+1 registered in "
               "the real taskpool table, public dispatch entry used for deliveries",)
    assumptions = ("each module entry point is atomic with respect to the others on the same taskpool (it takes the monitor's write lock; C33)",
                   "environment discipline of termdet.h: nb_tasks / nb_pending_actions never go below zero and leave zero only "
                   "on a taskpool that is not ready, busy, or receiving an application message; outgoing_message_start is called on a busy taskpool",
                   "fewer than 2^32 - 1 application messages per taskpool (uint32 counters do not wrap)",
                   "control messages are delivered exactly once (C14); order between different channels is arbitrary")

    # ---------------------------------------------------------------- generator
    def directed(self, r):
        out = []
        for n in range(2, 8):
            leaves = [i for i in range(n) if 2 * i + 1 >= n]
            # (1) a message crosses the first wave: leaf b reports idle, then gets a message from a, forwards to 0
            for _ in range(2):
                a, b = r.pick(range(1, n)) if n > 2 else 0, r.pick(leaves)
                if a == b:
                    a = 0
                pre = ["t%d:1" % i for i in range(n)] + ["r%d" % i for i in r.shuffle(range(n))]
                sc = pre + ["t%d:-1" % b, "s%d:%d" % (a, b), "b%d" % b, "e%d" % b]
                c = 0 if b != 0 and a != 0 else r.pick([x for x in range(n) if x != b])
                sc += ["s%d:%d" % (b, c), "b%d" % c, "e%d" % c]
                sc += ["t%d:-1" % i for i in range(n) if i != b]
                sc += pump(n, 2 if n <= 5 else 1)
                out.append((n, sc, "f"))
            # (2) receipt still open while everybody is idle, through several waves
            a, b = 0, r.pick(range(1, n))
            sc = ["a%d:1" % i for i in range(n)] + ["r%d" % i for i in range(n)]
            sc += ["s%d:%d" % (a, b), "b%d" % b] + ["a%d:-1" % i for i in r.shuffle(range(n))] + pump(n, 3 if n <= 4 else 2)
            out.append((n, sc, r.pick(["f", "-"])))
            # (3) reactivation after having reported idle, new work, second report
            b = r.pick(leaves)
            a = r.pick([x for x in range(n) if x != b])
            sc = ["a%d:1" % i for i in range(n)] + ["r%d" % i for i in range(n)] + ["a%d:-1" % b, "s%d:%d" % (a, b)]
            sc += ["a%d:-1" % i for i in range(n) if i not in (a, b)] + pump(n, 1)
            sc += ["b%d" % b, "t%d:2" % b, "e%d" % b, "a%d:-1" % a] + pump(n, 1) + ["t%d:-1" % b, "t%d:-1" % b] + pump(n, 2 if n <= 4 else 1)
            out.append((n, sc, "f"))
            # (4) late ready: children report before the parent is ready
            p = r.pick([i for i in range(n) if 2 * i + 1 < n])
            sc = ["a%d:1" % i for i in range(n)] + ["r%d" % i for i in range(n) if i != p] + ["a%d:-1" % i for i in range(n) if i != p]
            sc += pump(n, 1) + ["s%d:%d" % (r.pick([x for x in range(n) if x != p]), p), "r%d" % p, "b%d" % p, "e%d" % p, "a%d:-1" % p] + pump(n, 2 if n <= 5 else 1)
            out.append((n, sc, "f"))
        return out

    def random_case(self, r):
        n = r.pick([1, 2, 2, 3, 3, 3, 4, 4, 5, 5, 6, 7])
        budget = r.range(10, 60)
        sc = []
        tasks = [0] * n
        acts = [0] * n
        ready = [False] * n
        infl = [0] * n
        inproc = [0] * n
        late = set(i for i in range(n) if r.chance(1, 5))
        for i in r.shuffle(range(n)):
            k = r.pick([0, 1, 1, 2])
            if k:
                if r.chance(1, 2):
                    sc.append("t%d:%d" % (i, k)); tasks[i] += k
                else:
                    sc.append("a%d:%d" % (i, k)); acts[i] += k
            if i not in late:
                sc.append("r%d" % i); ready[i] = True
        edges = [(c, parent(c)) for c in range(1, n)]
        while len(sc) < budget:
            x = r.below(100)
            i = r.below(n)
            if x < 22 and n > 1:
                busy = [q for q in range(n) if ready[q] and (tasks[q] + acts[q] > 0 or inproc[q] > 0)]
                if busy and r.chance(4, 5):
                    i = r.pick(busy)
                j = r.pick([q for q in range(n) if q != i])
                sc.append("s%d:%d" % (i, j)); infl[j] += 1
            elif x < 36:
                cand = [q for q in range(n) if infl[q] > 0]
                if cand and r.chance(5, 6):
                    i = r.pick(cand)
                sc.append("b%d" % i)
                if infl[i] > 0 and ready[i]:
                    infl[i] -= 1; inproc[i] += 1
                    if r.chance(1, 3):
                        sc.append("t%d:1" % i); tasks[i] += 1
            elif x < 48:
                cand = [q for q in range(n) if inproc[q] > 0]
                if cand and r.chance(5, 6):
                    i = r.pick(cand)
                sc.append("e%d" % i)
                if inproc[i] > 0:
                    inproc[i] -= 1
            elif x < 64:
                cand = [q for q in range(n) if tasks[q] + acts[q] > 0]
                if cand and r.chance(5, 6):
                    i = r.pick(cand)
                if tasks[i] > 0 and (acts[i] == 0 or r.chance(1, 2)):
                    sc.append("t%d:-1" % i); tasks[i] -= 1
                elif acts[i] > 0:
                    sc.append("a%d:-1" % i); acts[i] -= 1
                else:
                    sc.append(r.pick(["t%d:-1", "a%d:1", "t%d:1", "T%d:0", "A%d:0", "T%d:2", "A%d:1"]) % i)
            elif x < 68:
                v = r.pick([0, 0, 1, 2])
                if r.chance(1, 2):
                    sc.append("T%d:%d" % (i, v)); tasks[i] = v
                else:
                    sc.append("A%d:%d" % (i, v)); acts[i] = v
            elif x < 72:
                sc.append("r%d" % i); ready[i] = True
            elif x < 80 and n > 1:
                sc += pump(n, 1)
            elif n > 1:
                c, p = r.pick(edges)
                sc.append(r.pick(["d%d:%d" % (c, p), "d%d:%d" % (c, p), "d%d:%d" % (p, c)]))
            else:
                sc.append(r.pick(["t0:1", "a0:-1", "t0:-1", "r0", "T0:0", "A0:0"]))
        return (n, sc[:60], "f" if r.chance(5, 6) else "-")

    def cases(self):
        r = self.rng
        out = []
        reps = 3 if self.tier == "quick" else 40
        out += cross_wave_family(5 if self.tier == "quick" else 7)
        mpi = self.mpi_cases(r)
        for _ in range(reps):
            out += self.directed(r)
        for _ in range(2500 if self.tier == "quick" else 60000):
            out.append(self.random_case(r))
        return mpi + ["%d | %s | %s" % (n, " ".join(sc), f) for (n, sc, f) in out]

    def mpi_cases(self, r):
        """real runs of harness/h_term4c_mpi.jdf:  mpi <np> <mode> <nt> <cores>"""
        out = []
        for mode in range(5):
            for np_ in (2, 3):
                out.append("mpi %d %d %d %d" % (np_, mode, r.pick([3, 4, 5, 7]), r.pick([1, 2])))
        if self.tier != "quick":
            for _ in range(30):
                out.append("mpi %d %d %d %d" % (r.pick([2, 3, 4]), r.range(1, 4), r.range(1, 24), r.pick([1, 2, 3])))
        return out

    # ---- T-obs: the real runtime on the four-counter detector (call sites of the counting entry points)
    mpi_limit = int(os.environ.get("VERIF_C11_MPI_LIMIT", "12"))
    mpi_jobs = int(os.environ.get("VERIF_C11_JOBS", "3"))

    def mpi_dir(self):
        # private to this process: concurrent checks (other seed, other tier, a seeded tree) must not share the
        # binary nor the per-case output files
        return os.path.join(vcheck.WORK, "c11mpi%s-%s-%d-%d" % (vcheck._SFX, self.tier, self.seed, os.getpid()))

    def build_mpi(self):
        """ptgpp + cc of harness/h_term4c_mpi.jdf against the repository under test; returns None or an error text"""
        d = self.mpi_dir()
        os.makedirs(d, exist_ok=True)
        shutil.copy(os.path.join(vcheck.VERIF, "harness/h_term4c_mpi.jdf"), os.path.join(d, "h_term4c_mpi.jdf"))
        ptgpp = os.path.join(vcheck.PBUILD, "parsec/interfaces/ptg/ptg-compiler/parsec-ptgpp")
        rc, o, e = run([ptgpp, "-E", "-i", "h_term4c_mpi.jdf", "-o", "h_term4c_mpi"], cwd=d, timeout=120)
        if rc != 0:
            return "parsec-ptgpp failed: " + (o + e)[-600:]
        libdir = os.path.join(vcheck.PBUILD, "parsec")
        cmd = (["cc"] + vcheck.harness_cflags(vcheck.PBUILD) + ["-I" + d, "-w", "h_term4c_mpi.c", "-o", "h_term4c_mpi",
               "-L" + libdir, "-lparsec", "-Wl,-rpath," + libdir, "-lpthread", "-lm", "-lhwloc", "-ldl"] + vcheck.MPI_LINK)
        rc, o, e = run(cmd, cwd=d, timeout=300)
        if rc != 0:
            return "cc failed: " + (o + e)[-800:]
        return None

    def run_mpi_once(self, w, limit, tag):
        np_, mode, nt, cores = w
        d = self.mpi_dir()
        so = os.path.join(d, tag + ".out")
        env = dict(os.environ)
        with open(so, "w") as fo:
            pr = subprocess.Popen(MPIEXEC + ["-n", str(np_), "./h_term4c_mpi", str(nt), str(mode), str(cores), str(limit)],
                                  cwd=d, env=env, stdout=fo, stderr=subprocess.STDOUT, stdin=subprocess.DEVNULL,
                                  start_new_session=True)
            try:
                pr.wait(timeout=limit + 45)
            except subprocess.TimeoutExpired:
                pass
            try:
                os.killpg(pr.pid, signal.SIGKILL)
            except OSError:
                pass
            try:
                pr.wait(timeout=10)
            except Exception:
                pass
        ranks = {}
        for line in open(so, errors="replace"):
            f = line.split()
            if len(f) >= 8 and f[0] == "R" and f[1].isdigit():
                try:
                    ranks[int(f[1])] = (f[2], dict((kv.split("=")[0], int(kv.split("=")[1])) for kv in f[3:]))
                except Exception:
                    pass
        return ranks

    def run_mpi_case(self, idx, case):
        w = [int(x) for x in case.split()[1:5]]
        ok, ranks = False, {}
        tot = lambda k: sum(v[1].get(k, 0) for v in ranks.values())  # noqa: E731
        # A run is believed when it terminated everywhere with every consumer executed, or when the same kind of
        # failure was seen twice (a hang the second time with a larger limit).  A run in which some rank printed
        # nothing (mpiexec start-up stalled under machine load) is repeated.  Failures that do not repeat are
        # recorded in _work/C11-unrepeated.log (see notes/findings/C11-early-termination-under-load.md).
        seen = {}
        for attempt in range(5):
            ranks = self.run_mpi_once(w, self.mpi_limit * (1 + attempt), "c%d" % idx)
            ok = len(ranks) == w[0] and all(v[0] == "OK" for v in ranks.values())
            if len(ranks) != w[0]:
                continue
            kind = "good" if ok and tot("cons") == w[2] and tot("starts") == tot("ends") else ("early" if ok else "hang")
            if kind == "good":
                break
            seen[kind] = seen.get(kind, 0) + 1
            try:
                with open(os.path.join(vcheck.WORK, "C11-unrepeated.log"), "a") as f:
                    f.write("%s attempt %d %s: %s\n" % (case, attempt, kind, "; ".join(
                        "R%d %s %s" % (r, v[0], " ".join("%s=%d" % kv for kv in sorted(v[1].items()))) for r, v in sorted(ranks.items()))))
            except OSError:
                pass
            if seen[kind] >= 2:
                break
        return "mpi term=%d ranks=%d sent=%d started=%d recv=%d cons=%d errors=%d" % (
            1 if ok else 0, len(ranks), tot("starts"), tot("rstarts"), tot("ends"), tot("cons"), tot("errors"))

    def run_impl(self, casefile, n):
        lines = Check.run_impl(self, casefile, n)
        cases = [l.rstrip("\n") for l in open(casefile) if l.strip() and not l.startswith("#")]
        todo = [i for i, c in enumerate(cases[:n]) if c.startswith("mpi ")]
        if todo:
            err = self.build_mpi()
            if err:
                log("C11: " + err)
                for i in todo:
                    lines[i] = "<mpi program does not build: %s>" % err.replace("\n", " ")[:160]
            else:
                with concurrent.futures.ThreadPoolExecutor(max_workers=self.mpi_jobs) as ex:
                    for i, res in zip(todo, ex.map(lambda i: self.run_mpi_case(i, cases[i]), todo)):
                        lines[i] = res
            shutil.rmtree(self.mpi_dir(), ignore_errors=True)
        return lines

    def nontrivial_key(self, case):
        if case.startswith("mpi "):
            return case if int(case.split()[2]) >= 1 else None
        n = int(case.split("|")[0])
        toks = case.split("|")[1].split()
        if any(t[0] == "s" for t in toks) or (n >= 2 and any(t[0] == "d" for t in toks)):
            return case
        return None

    def dist(self, cases):
        d = {"mpi_runs": sum(1 for c in cases if c.startswith("mpi "))}
        cases = [c for c in cases if not c.startswith("mpi ")]
        for c in cases:
            n = int(c.split("|")[0])
            d["N=%d" % n] = d.get("N=%d" % n, 0) + 1
        d["with_epilogue"] = sum(1 for c in cases if c.rstrip().endswith("f"))
        d["max_events"] = max(len(c.split("|")[1].split()) for c in cases)
        return d

    # --------------------------------------------------- property oracle (implementation's observation only)
    @staticmethod
    def _ranks(txt):
        # "st tasks acts sent recv ncl accs accr lasts lastr cbs infl inproc;... n=K q=K"
        body, nk, qk = txt.rsplit(" ", 2)
        ranks = [[int(x) for x in part.split()] for part in body.split(";")]
        return ranks, int(nk[2:]), int(qk[2:])

    def oracle_mpi(self, case, obs):
        w = case.split()
        try:
            f = dict(kv.split("=") for kv in obs.split()[1:])
            f = {k: int(v) for k, v in f.items()}
        except Exception:
            return "unparsable observation: " + obs[:100]
        what = "%s ranks, %s (mode %s), %s activations" % (w[1], MPI_MODES.get(int(w[2]), "?"), w[2], w[3])
        if f["sent"] != f["recv"] or f["started"] != f["sent"]:
            return ("%s: outgoing_message_start called %d times, incoming_message_start %d, incoming_message_end %d: a message "
                    "is not counted received exactly once%s" % (what, f["sent"], f["started"], f["recv"],
                                                               "" if f["term"] else "; the taskpool never terminated"))
        if not f["term"] or f["ranks"] != int(w[1]):
            return "%s: the taskpool did not terminate on every rank (watchdog)" % what
        if f["errors"]:
            return "%s: %d consumers read wrong data" % (what, f["errors"])
        if f["cons"] != int(w[3]):
            return "%s: terminated although only %d of %s consumers ran" % (what, f["cons"], w[3])
        return None

    def oracle(self, case, obs):
        if case.startswith("mpi "):
            return self.oracle_mpi(case, obs)
        try:
            n = int(case.split("|")[0])
            parts = [p.strip() for p in obs.split("|")]
            toks = parts[0].split()
            end = parts[1]
            if not end.startswith("END "):
                return "unparsable observation: " + obs[-80:]
            fin = parts[2] if len(parts) > 2 else None
            allt = list(toks)
            if fin is not None:
                if not fin.startswith("FIN "):
                    return "unparsable observation: " + obs[-80:]
                allt.append(fin.split()[1])
            for k, t in enumerate(allt):
                states, f, w = t.split(":")
                if len(states) != n:
                    return "unparsable step token " + t
                if "4" in states:
                    if "2" in states or "1" in states:
                        return "step %d: a process is TERMINATED while another is busy or not ready (%s)" % (k, states)
                    if int(f) != 0:
                        return "step %d: a process is TERMINATED while %s application message(s) are in flight or being received" % (k, f)
                    if int(w) != 0:
                        return "step %d: a process is TERMINATED while %s process(es) still have work" % (k, w)
            for label, txt in (("END", end[4:]), ("FIN", fin[4:].split(" ", 1)[1] if fin else None)):
                if txt is None:
                    continue
                ranks, nk, qk = self._ranks(txt)
                for i, rk in enumerate(ranks):
                    if rk[10] > 1:
                        return "%s: rank %d ran its termination callback %d times" % (label, i, rk[10])
                    if (rk[0] == 5) != (rk[10] == 1):
                        return "%s: rank %d state %d but callback count %d" % (label, i, rk[0], rk[10])
                if any(rk[0] == 5 for rk in ranks):
                    s, rr = sum(rk[3] for rk in ranks), sum(rk[4] for rk in ranks)
                    if s != rr:
                        return "%s: terminated with %d messages sent and %d received" % (label, s, rr)
                if label == "FIN":
                    # everybody finished its work and the channels were drained: all must have terminated
                    if nk != 0 or qk != 0:
                        return "FIN: control messages still queued after draining (n=%d q=%d)" % (nk, qk)
                    for i, rk in enumerate(ranks):
                        if rk[0] != 5 or rk[10] != 1:
                            return "FIN: rank %d did not terminate after global quiescence and draining (state %d, callbacks %d)" % (i, rk[0], rk[10])
        except Exception as e:  # noqa
            return "unparsable observation (%s): %s" % (e, obs[-80:])
        return None

    def signature(self, case, obs):
        if case.startswith("mpi "):
            r = self.oracle(case, obs) or ""
            kind = ("count" if "exactly once" in r else "hang" if "did not terminate" in r else "data" if "wrong data" in r
                    else "early" if "terminated although" in r else "diff")
            return "mpi-%s-mode%s" % (kind, case.split()[2])
        r = self.oracle(case, obs) or "diff"
        key = "unsafe" if "TERMINATED while" in r or "terminated with" in r else \
              "callback" if "callback" in r and "FIN: rank" not in r else \
              "stuck" if r.startswith("FIN") else "other"
        return "%s-n%s" % (key, case.split("|")[0].strip())

    def search_cases(self):
        r = Rng(self.seed + 77)
        out = cross_wave_family(7)
        for _ in range(30):
            out += self.directed(r)
        for _ in range(4000):
            out.append(self.random_case(r))
        return ["%d | %s | %s" % (n, " ".join(sc), f) for (n, sc, f) in out]
