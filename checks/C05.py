"""C05 — Distributed PTG results do not depend on process count or message path.

Case line:   dist <cfg> <cfg> … | <program in the format of tools/jdfgen.py to_case>
  cfg = np:place:bcast:short:elt:cores
        np     1..4 MPI processes (mpiexec --allow-run-as-root --oversubscribe -n np)
        place  cyc | hash | bc.PR.QC.MB.NB      (placement collection of harness/ptgdist_driver.c)
        bcast  runtime_comm_coll_bcast 0 star, 1 chain (default), 2 binomial
        short  d = default runtime_comm_short_limit, 0 = every datum by the GET protocol
        elt    bytes of one datum (64: several fit in an activation; 640: the second one of a message does not;
               2048: never fits)
        cores  computing threads per process
Observation (both sides), one chunk per configuration, joined by " || ":
  <cfg> ok n=<N> <Class(params)@rank:r<flow>=<v>,…:w<flow>=<v>,…> … D=<v0>,<v1>,…      sorted by class index, parameters
  <cfg> failed            (abort, timeout or incomplete logs: which one is in the check's log; the relay-lacks-output
                          class aborts in MPI_Isend most of the time and hangs otherwise)
"""
import concurrent.futures
import os
import re
import shutil
import sys

sys.path.insert(0, os.path.dirname(os.path.abspath(__file__)))
import vcheck  # noqa: E402
from vcheck import Check, Failure, run, log  # noqa: E402
from ptg_common import PtgCheck, jdfgen, ptgpp_path, link_flags  # noqa: E402

sys.path.insert(0, os.path.join(vcheck.VERIF, "tools"))
import jdfdist  # noqa: E402

MPIEXEC = ["mpiexec", "--allow-run-as-root", "--oversubscribe", "--mca", "mpi_yield_when_idle", "1"]


def run_mpi(cmd, timeout, cwd, env, tag):
    """mpiexec with stdout/stderr in files (orphaned ranks must not keep a pipe open) in its own session,
    so that a hang can be killed as a whole; returns (rc, stderr text), rc = 124 on timeout"""
    import signal
    import subprocess
    so, se = os.path.join(cwd, tag + ".stdout"), os.path.join(cwd, tag + ".stderr")
    with open(so, "w") as fo, open(se, "w") as fe:
        pr = subprocess.Popen(cmd, cwd=cwd, env=env, stdout=fo, stderr=fe, stdin=subprocess.DEVNULL, start_new_session=True)
        try:
            rc = pr.wait(timeout=timeout)
        except subprocess.TimeoutExpired:
            rc = 124
        try:
            os.killpg(pr.pid, signal.SIGKILL)     # stragglers of an aborted or hung job
        except OSError:
            pass
        try:
            pr.wait(timeout=10)
        except Exception:
            pass
    try:
        err = open(se, errors="replace").read()[-4000:]
    except OSError:
        err = ""
    return rc, err


def parse_cfg(s):
    w = s.split(":")
    return {"np": int(w[0]), "place": w[1].replace(".", ":"), "bcast": int(w[2]), "short": w[3], "elt": int(w[4]),
            "cores": int(w[5]), "txt": s}


def split_case(case):
    hd, pt = case.split("|", 1)
    return [parse_cfg(c) for c in hd.split()[1:]], jdfgen.parse_case(pt)


def inst_name(p, t):
    return "%s(%s)" % (p.classes[t[0]].name, ",".join(str(v) for v in t[1]))


def fmt_vals(d):
    return ",".join("%d=%d" % (k, d[k]) for k in sorted(d))


def listing(p, items, data):
    """items: [(t, rank, reads, writes)]"""
    items = sorted(items, key=lambda x: (x[0][0], x[0][1]))
    return "n=%d %s D=%s" % (len(items),
                             " ".join("%s@%d:r%s:w%s" % (inst_name(p, t), r, fmt_vals(rd), fmt_vals(wr)) for t, r, rd, wr in items),
                             ",".join(str(v) for v in data))


LIST_RE = re.compile(r"([A-Za-z_][A-Za-z0-9_]*)\(([-0-9,]*)\)@(\d+):r([-0-9=,]*):w([-0-9=,]*)")


def parse_vals(s):
    return {int(a.split("=")[0]): int(a.split("=")[1]) for a in s.split(",") if a}


def parse_listing(txt):
    items = []
    for m in LIST_RE.finditer(txt):
        ps = tuple(int(x) for x in m.group(2).split(",")) if m.group(2) else ()
        items.append((m.group(1), ps, int(m.group(3)), parse_vals(m.group(4)), parse_vals(m.group(5))))
    dm = re.search(r" D=([-0-9,?*]*)", txt)
    data = dm.group(1).split(",") if dm and dm.group(1) else []
    return items, data


class C05(PtgCheck):
    id = "C05"
    prop_file = "theories/Properties/Properties_C05.v"
    theorems = ("C05_runs_once_on_owner", "C05_inputs_equal_sequential_reference", "C05_outputs_equal_sequential_reference",
                "C05_received_values", "C05_no_failure", "C05_no_lost_activation", "C05_complete_run_matches_seq_exec",
                "C05_step_local", "C05_seq_exec_is_reference", "C05_engine_generic",
                "C05_refuted_without_relay_holds", "C05_c13_tree_refuted")
    comp = "ptgdist"
    extract_file = "theories/Extract/Extract_PTGDist.v"
    extracted = ("ptgdist",)
    mode = "dist"
    jobs = int(os.environ.get("VERIF_C05_JOBS", "3"))
    run_timeout = int(os.environ.get("VERIF_PTG_TIMEOUT", "60"))
    level_text = ("Theorems over the JDF AST of PTG/PTGDefs.v extended with values, a placement rank_of : instance -> rank, per-rank "
                  "engine state (every step at rank r touches only the tasks r owns, the values r received and the channels of r), "
                  "Send/Deliver steps over per-pair FIFO channels with arbitrary delay, one activation per producer and destination "
                  "rank routed along an ARBITRARY tree over the destination ranks (parent function with a depth measure; C13 supplies "
                  "the concrete star/chain/binomial trees), each datum either embedded in the activation or fetched by GET/PUT as an "
                  "arbitrary per-message boolean: for EVERY program accepted by wf_program and wf_dist, EVERY rank count, placement, tree, "
                  "protocol choice and schedule, under the two explicit hypotheses (single remote shape per output flow = one output "
                  "per flow; relay_holds = the parent of a consumer of output k is the root or consumes k, i.e. no relay-lacks-output) "
                  "every instance begins at most once and only on its owner, every value read equals the sequential reference seq_exec, "
                  "no GET ever reaches a process that lacks the datum, and whenever nothing is enabled and no message is in flight "
                  "every instance is done (no lost activation) so the executed multiset is `instances P` and the final collection is "
                  "seq_exec's.  Without relay_holds the statement is refuted on the faithful model (3 ranks, chain, A->{1,2}, B->{2}: "
                  "the tree computed by C13's model of parsec_remote_dep_activate sends rank 2 through relay 1). Tie (T-obs): generated "
                  "JDF programs compiled by the repository's parsec-ptgpp, run under mpiexec -n 1..4 with cyclic / 2D block-cyclic / "
                  "hash placement, the three broadcast topologies, both short limits and three datum sizes; per-rank body logs are "
                  "merged and compared with the extracted model (owners, values read and written, final collection). PARTIAL: MPI, "
                  "message packing, datatype reconstruction and the communication thread are tied by observation only.")
    level_note = ("Trusted: Coq kernel, extraction, ocaml/d_ptgdist.ml parser, tools/jdfgen.py + tools/jdfdist.py printers, "
                  "harness/ptgdist_driver.c (placement and tabular data collections, body log), Open MPI 4.1 under oversubscription. "
                  "Model atomicity: End (complete_hook + release_deps + parsec_remote_dep_activate) and the handling of one incoming "
                  "message are single steps; the dependency trackers (C07), schedulers (C08), termination detection (C10/C11), the "
                  "communication engine (C14) and the concrete trees (C13) are the other properties' subjects. Values of CTL flows are "
                  "not observable; a READ of a NEW tile is excluded by the generator (arena content is arbitrary).")
    technique = ("Coq invariant proof over all schedules of a distributed dataflow engine (count of undelivered input edges, "
                 "per-(producer, destination, output) message accounting, values equal to the sequential reference) + "
                 "observation-differential MPI runs of generated JDF programs against the extracted model")
    rule = ("programs from the DAG templates of tools/jdfgen.py plus `multiout` (producers with several output flows whose "
            "destination rank sets differ) and the directed relay-lacks-output program; each run under 2-3 configurations "
            "np:placement:bcast:short:elt:cores drawn so that every np 1..4, placement kind, topology, short limit and datum size "
            "occurs. non-trivial = at least 2 instances, 1 edge and one configuration in which some edge crosses ranks; "
            "distinct = program text + configurations")
    trusted = ("tools/jdfgen.py + tools/jdfdist.py (JDF and model printers of one structure), harness/ptgdist_driver.c + ptg_rt.h "
               "(placement collections, body log), Open MPI 4.1.4 mpiexec with oversubscription",)
    assumptions = ("one remote shape per output flow (the documented exclusion: one output flow with several remote shapes in short messages)",
                   "relay_holds: no consumer of output k is activated through a relay that does not hold k (design finding F8; "
                   "runs violating it are reported under the signature relay-lacks-output)",
                   "every element of the data collection is referred to by at most one instance, which owns it (direct memory "
                   "references are local); no instance reads a NEW tile",
                   "C07/C08/C10/C11/C13/C14 justify the atomic steps, reliable FIFO channels and the tree shapes",
                   "int32 arithmetic of the generated code does not overflow; parameters fit in 16 bits")

    # ------------------------------------------------------------------ build
    def build_sides(self):
        fails = Check.build_sides(self)
        if any(f.kind == "build" for f in fails):
            return fails
        os.makedirs(vcheck.BIN, exist_ok=True)
        self.drv_obj = os.path.join(vcheck.BIN, "ptgdist_driver.o")
        cmd = ["cc"] + vcheck.harness_cflags() + ["-c", os.path.join(vcheck.VERIF, "harness/ptgdist_driver.c"), "-o", self.drv_obj]
        rc, o, e = run(cmd, timeout=300)
        if rc != 0:
            fails.append(Failure("correspondence", "harness harness/ptgdist_driver.c no longer compiles against /repo", (o + e)[-4000:]))
        if not os.path.exists(ptgpp_path()):
            fails.append(Failure("build", "parsec-ptgpp was not built", ptgpp_path()))
        return fails

    def build_case(self, wd, prog):
        shutil.rmtree(wd, ignore_errors=True)
        os.makedirs(wd)
        with open(os.path.join(wd, "ptgcase.jdf"), "w") as f:
            f.write(jdfdist.to_jdf_dist(prog))
        rc, o, e = run([ptgpp_path(), "-E", "-i", "ptgcase.jdf", "-o", "ptgcase", "-f", "ptgcase"], cwd=wd, timeout=120)
        if rc != 0 or not os.path.exists(os.path.join(wd, "ptgcase.c")):
            return None, "ptgpp-rejected rc=%d %s" % (rc, (o + e).strip()[-300:].replace("\n", " "))
        cmd = (["cc"] + vcheck.harness_cflags() + ["-O0", "-g0", "-w", "-I" + wd, "-c", "ptgcase.c", "-o", "ptgcase.o"])
        rc, o, e = run(cmd, cwd=wd, timeout=300)
        if rc != 0:
            return None, "generated-C-does-not-compile " + (o + e).strip()[-300:].replace("\n", " ")
        exe = os.path.join(wd, "run")
        rc, o, e = run(["cc", "ptgcase.o", self.drv_obj, "-o", exe] + link_flags(), cwd=wd, timeout=300)
        if rc != 0:
            return None, "link-failed " + (o + e).strip()[-300:].replace("\n", " ")
        return exe, ""

    # ------------------------------------------------------------------ one MPI run
    def run_dist(self, exe, prog, cfg, idx):
        wd = os.path.dirname(exe)
        prefix = "out%d" % idx
        for r in range(8):
            try:
                os.remove(os.path.join(wd, "%s.%d" % (prefix, r)))
            except OSError:
                pass
        tab = jdfdist.data_table(prog, cfg["place"], cfg["np"])
        cmd = MPIEXEC + ["-n", str(cfg["np"]), exe, "--place", cfg["place"], "--tab", ",".join(str(x) for x in tab),
                         "--elt", str(cfg["elt"]), "--out", prefix, "--cfg", str(cfg["cores"]),
                         "--mca", "runtime_comm_coll_bcast", str(cfg["bcast"]), "--mca", "runtime_warn_slow_binding", "0"]
        if cfg["short"] != "d":
            cmd += ["--mca", "runtime_comm_short_limit", cfg["short"]]
        env = dict(os.environ)
        env.pop("OMPI_MCA_btl", None)
        for attempt in range(2):
            rc, e = run_mpi(cmd, self.run_timeout, wd, env, prefix)
            started = any(os.path.exists(os.path.join(wd, "%s.%d" % (prefix, r))) for r in range(cfg["np"]))
            if rc in (0, 124) or started:
                break                      # a failure before any rank opened its log happened in MPI_Init/mpiexec start-up
        if rc == 124:
            return "failed", "(timeout) " + e
        if rc != 0:
            return "failed", "(abort rc=%d) " % rc + e
        items, data, extra = [], ["?"] * prog.ndata, ""
        names = {c.name: i for i, c in enumerate(prog.classes)}
        for r in range(cfg["np"]):
            try:
                txt = open(os.path.join(wd, "%s.%d" % (prefix, r))).read()
            except OSError:
                return "failed", "(incomplete logs) " + e
            if "END rc=0" not in txt:
                return "failed", "(incomplete logs) " + e
            for line in txt.splitlines():
                if line.startswith("I "):
                    f = [x.strip() for x in line.split(";")]
                    w = f[0].split()
                    ps = tuple(int(x) for x in w[4:])
                    rd = {int(a.split("=")[0]): int(a.split("=")[1]) for a in f[3].split()[1:]}
                    wr = {int(a.split("=")[0]): int(a.split("=")[1]) for a in f[4].split()[1:]}
                    items.append(((names.get(w[1], 99), ps), r, rd, wr))
                elif line.startswith("D"):
                    for a in line.split()[1:]:
                        k, v = a.split("=")
                        if 0 <= int(k) < prog.ndata:
                            data[int(k)] = int(v)
                elif line.startswith("OOR "):
                    w = line.split()
                    if w[1] != "0" or w[3] != "0":
                        extra += " rank%d:oor=%s,remote=%s" % (r, w[1], w[3])
        for x in jdfdist.unspecified_elements(prog):
            if 0 <= x < prog.ndata and data[x] != "?":
                data[x] = "*"
        return "ok " + listing(prog, items, data) + extra, e

    def one_case(self, tag, i, case):
        try:
            cfgs, prog = split_case(case)
        except Exception as ex:
            return "<bad case %s>" % ex
        wd = self.workdir(tag, i)
        exe, msg = self.build_case(wd, prog)
        if exe is None:
            return "<%s>" % msg
        chunks, allok = [], True
        for k, c in enumerate(cfgs):
            res, err = self.run_dist(exe, prog, c, k)
            if not res.startswith("ok "):
                allok = False
                log("%s: case %d cfg %s -> %s %s" % (self.id, i, c["txt"], res, err[:40] + " | ".join(
                    l for l in err.strip().splitlines()[-12:] if "***" in l or "rror" in l)[-500:]))
            chunks.append("%s %s" % (c["txt"], res))
        if allok and not os.environ.get("VERIF_KEEP"):
            shutil.rmtree(wd, ignore_errors=True)
        return " || ".join(chunks)

    # ------------------------------------------------------------------ generation
    PLACES = {1: ["cyc"], 2: ["cyc", "hash", "bc.2.1.1.1", "bc.1.2.1.1", "bc.2.1.2.1"],
              3: ["cyc", "hash", "bc.3.1.1.1", "bc.1.3.1.1", "bc.1.3.1.2"],
              4: ["cyc", "hash", "bc.2.2.1.1", "bc.2.2.2.1", "bc.4.1.1.1", "bc.1.4.1.1", "bc.2.2.1.2"]}

    def draw_cfg(self, r, np_=None, place=None, bcast=None, short=None, elt=None):
        np_ = np_ or r.pick([2, 3, 3, 4, 4])
        place = place or r.pick(self.PLACES[np_])
        bcast = r.pick([0, 1, 1, 2, 2]) if bcast is None else bcast
        short = short or r.pick(["d", "d", "0"])
        elt = elt or r.pick([64, 64, 640, 2048])
        return "%d:%s:%d:%s:%d:%d" % (np_, place, bcast, short, elt, r.pick([1, 2, 2, 3]))

    def safe_cfgs(self, r, p, k, first_np=None):
        """k configurations; a configuration that falls in the known relay-lacks-output class keeps its parameters
        but falls back to the star topology (the class is exercised by the directed case)"""
        out = []
        for j in range(k):
            for _ in range(8):
                c = self.draw_cfg(r, np_=first_np if j == 0 else None)
                d = parse_cfg(c)
                if not jdfdist.relay_lacks_output(p, d["place"], d["np"], d["bcast"]):
                    break
                if r.chance(1, 2):
                    w = c.split(":")
                    w[2] = "0"
                    c = ":".join(w)
                    break
            out.append(c)
        return out

    def cases(self):
        r = self.rng
        out = []
        quick = self.tier == "quick"
        # the directed relay-lacks-output case (KNOWN candidate finding F8): default chain broadcast, 3 ranks
        # (VERIF_C05_NO_F8=1 leaves it out: a debugging aid to look at everything else while the finding is not yet listed)
        if not os.environ.get("VERIF_C05_NO_F8"):
            out.append("dist 3:cyc:1:d:64:2 | " + jdfgen.to_case(jdfdist.f8_program()))
        # the same program where the property holds: star, binomial (N=3), and 1 process
        out.append("dist 3:cyc:0:0:64:1 3:cyc:2:d:640:2 1:cyc:1:d:64:2 | " + jdfgen.to_case(jdfdist.f8_program()))
        # directed: overlapping destination sets OUTSIDE the relay-lacks-output class, a producer on every rank (all roots),
        # 3 and 4 ranks, chain and binomial: a hole in the numbering of the broadcast tree loses an activation (hang)
        ov = jdfdist.overlap_program(4, 3)
        ovc = ["3:bc.1.3.1.1:1:d:64:1", "4:bc.1.4.1.1:2:0:64:1", "4:bc.1.4.1.1:1:d:640:2", "3:bc.1.3.1.1:2:d:64:2"]
        assert not any(jdfdist.relay_lacks_output(ov, parse_cfg(c)["place"], parse_cfg(c)["np"], parse_cfg(c)["bcast"]) for c in ovc)
        out.append("dist %s | %s" % (" ".join(ovc), jdfgen.to_case(ov)))
        if not quick:
            for n, wide in ((3, 2), (5, 3), (4, 2), (6, 4)):
                ov = jdfdist.overlap_program(n, wide)
                cf = [c for c in ("3:bc.1.3.1.1:1:0:64:2", "4:bc.1.4.1.1:1:d:64:2", "4:bc.1.4.1.1:2:d:2048:1", "2:bc.1.2.1.1:1:d:64:1",
                                  "4:bc.2.2.1.1:2:d:64:2", "3:hash:1:d:64:2")
                      if not jdfdist.relay_lacks_output(ov, parse_cfg(c)["place"], parse_cfg(c)["np"], parse_cfg(c)["bcast"])]
                out.append("dist %s | %s" % (" ".join(cf), jdfgen.to_case(ov)))
        if not quick:
            # the write-back spellings (corpus/C05/00_writeback_forms.txt is the quick-tier instance) on 1..4 ranks x topologies x short limits
            for T, K in ((3, 4), (2, 5), (4, 2)):
                wb = jdfdist.wbforms_program(T, K)
                for np_ in (1, 2, 3, 4):
                    cf = ["%d:%s:%d:%s:%d:2" % (np_, r.pick(["cyc", "hash", "bc.%d.1.1.1" % np_]), b, sh, r.pick([64, 640, 2048]))
                          for b in (0, 1, 2) for sh in ("d", "0")]
                    out.append("dist %s | %s" % (" ".join(cf), jdfgen.to_case(wb)))
        nprog = 4 if quick else 60
        ts = r.shuffle(list(jdfdist.DIST_TEMPLATES))
        nps = r.shuffle([2, 3, 4, 4, 3, 2])
        for i in range(nprog):
            t = "multiout" if i == 0 else ts[i % len(ts)]
            p = jdfdist.gen_dist_program(r, t, max_inst=40 if quick else 80)
            ncfg = 2 if quick else 4
            cfgs = self.safe_cfgs(r, p, ncfg, first_np=nps[i % len(nps)])
            out.append("dist %s | %s" % (" ".join(cfgs), jdfgen.to_case(p)))
        return out

    def search_cases(self):
        r = self.rng.fork()
        out = []
        for t in ("multiout", "bcast_gather", "fan", "diamond", "chain", "pipeline2d"):
            p = jdfdist.gen_dist_program(r, t, max_inst=40)
            out.append("dist %s | %s" % (" ".join(self.safe_cfgs(r, p, 2)), jdfgen.to_case(p)))
        return out

    def crosses(self, p, cfg):
        for t in jdfgen.instances(p):
            rt = jdfdist.owner(cfg["place"], cfg["np"], t)
            for e in jdfgen.succ_edges(p, t):
                if jdfdist.owner(cfg["place"], cfg["np"], e[1]) != rt:
                    return True
        return False

    def nontrivial_key(self, case):
        try:
            cfgs, p = split_case(case)
        except Exception:
            return None
        st = jdfgen.stats(p)
        if st["instances"] < 2 or st["edges"] < 1:
            return None
        return case if any(self.crosses(p, c) for c in cfgs) else None

    def dist(self, cases):
        d = {"programs": len(cases), "runs": 0, "np": {}, "placement": {}, "bcast": {}, "short": {}, "elt": {}, "cores": {},
             "templates_instances": [], "runs_with_remote_edges": 0, "remote_edges": 0, "multi_output_activations": 0}
        for c in cases:
            try:
                cfgs, p = split_case(c)
            except Exception:
                continue
            d["templates_instances"].append(jdfgen.stats(p)["instances"])
            for cf in cfgs:
                d["runs"] += 1
                for k, v in (("np", cf["np"]), ("placement", cf["place"].split(":")[0]), ("bcast", cf["bcast"]), ("short", cf["short"]),
                             ("elt", cf["elt"]), ("cores", cf["cores"])):
                    d[k][str(v)] = d[k].get(str(v), 0) + 1
                rem = 0
                for t in jdfgen.instances(p):
                    rt = jdfdist.owner(cf["place"], cf["np"], t)
                    fl = set()
                    for e in jdfgen.succ_edges(p, t):
                        if jdfdist.owner(cf["place"], cf["np"], e[1]) != rt:
                            rem += 1
                            fl.add(e[0])
                    if len(fl) > 1:
                        d["multi_output_activations"] += 1
                d["remote_edges"] += rem
                d["runs_with_remote_edges"] += 1 if rem else 0
        return d

    # ------------------------------------------------------------------ property oracle (observation alone)
    def judge(self, case, obs):
        """-> None or (signature, description)"""
        try:
            cfgs, p = split_case(case)
        except Exception as ex:
            return None if obs.startswith("<bad case") else ("badcase", "unparsable case: %s" % ex)
        if obs.startswith("<ptgpp-rejected") or obs.startswith("<generated-C") or obs.startswith("<link-failed"):
            return None          # the compiler's business (C24); shows up as a disagreement with the model
        if obs.startswith("<"):
            return ("noobs", "no observation: " + obs[:120])
        ref, data = jdfdist.seq_exec(p)
        space = sorted(jdfgen.instances(p))
        chunks = obs.split(" || ")
        if len(chunks) != len(cfgs):
            return ("noobs", "observation has %d chunks for %d configurations" % (len(chunks), len(cfgs)))
        names = {c.name: i for i, c in enumerate(p.classes)}
        for cf, ch in zip(cfgs, chunks):
            tag = "[%s]" % cf["txt"]
            body = ch[len(cf["txt"]) + 1:] if ch.startswith(cf["txt"] + " ") else ch
            if body.startswith("failed"):
                if jdfdist.relay_lacks_output(p, cf["place"], cf["np"], cf["bcast"]):
                    return ("relay-lacks-output", "%s run did not complete (abort or hang): a consumer of an output is activated through "
                            "a relay that does not hold it (runtime_comm_coll_bcast=%d, %d ranks)" % (tag, cf["bcast"], cf["np"]))
                return ("did-not-complete", "%s run did not complete (abort, hang or missing logs): not every process terminated" % tag)
            if not body.startswith("ok "):
                return ("noobs", "%s unparsable chunk %s" % (tag, body[:80]))
            items, dobs = parse_listing(body)
            got = sorted((names.get(n, 99), ps) for n, ps, _, _, _ in items)
            dup = [x for i, x in enumerate(got) if i > 0 and got[i - 1] == x]
            if dup:
                return ("twice", "%s instance %s ran %d times" % (tag, inst_name(p, dup[0]), got.count(dup[0])))
            extra = [x for x in got if x not in space]
            if extra:
                return ("extra", "%s %s ran but is not in the execution space" % (tag, extra[0]))
            missing = [x for x in space if x not in got]
            if missing:
                return ("missing", "%s instance %s never ran (%d of %d ran)" % (tag, inst_name(p, missing[0]), len(got), len(space)))
            for n, ps, rk, rd, wr in items:
                t = (names[n], ps)
                ow = jdfdist.owner(cf["place"], cf["np"], t)
                if rk != ow:
                    return ("owner", "%s %s ran on rank %d, its owner is rank %d" % (tag, inst_name(p, t), rk, ow))
                rr, ww = ref[t]
                if rd != rr:
                    bad = [f for f in sorted(set(rd) | set(rr)) if rd.get(f) != rr.get(f)]
                    return ("values", "%s %s read %s on flow %d, the sequential reference reads %s" % (
                        tag, inst_name(p, t), rd.get(bad[0]), bad[0], rr.get(bad[0])))
                if wr != ww:
                    bad = [f for f in sorted(set(wr) | set(ww)) if wr.get(f) != ww.get(f)]
                    return ("values", "%s %s wrote %s on flow %d, the sequential reference writes %s" % (
                        tag, inst_name(p, t), wr.get(bad[0]), bad[0], ww.get(bad[0])))
            if [str(v) for v in data] != dobs:
                bad = [i for i in range(min(len(data), len(dobs))) if str(data[i]) != dobs[i]]
                return ("final-data", "%s final collection differs from the sequential reference (element %s: %s, reference %s)" % (
                    tag, bad[0] if bad else "?", dobs[bad[0]] if bad else "?", data[bad[0]] if bad else "?"))
            if "oor=" in body:
                return ("remote-memory", "%s a process touched a collection element it does not own or out of range" % tag)
        return None

    def oracle(self, case, obs):
        j = self.judge(case, obs)
        return j[1] if j else None

    def signature(self, case, obs):
        j = self.judge(case, obs)
        return j[0] if j else "none"

    def shrink(self, case, impl_line):
        """keep only the configuration that failed"""
        why = self.oracle(case, impl_line) or ""
        m = re.match(r"\[([^\]]+)\]", why)
        if not m:
            return case, impl_line
        hd, pt = case.split("|", 1)
        small = "%s %s |%s" % (hd.split()[0], m.group(1), pt)
        chunk = [c for c in impl_line.split(" || ") if c.startswith(m.group(1) + " ")]
        return small, (chunk[0] if chunk else impl_line)
