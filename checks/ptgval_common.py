"""Shared part of C02 and C16 (on top of ptg_common / tools/jdfgen.py).

* the arithmetic of harness/ptg_driver.c (mix64, hash_instance, the value PTG_WRITE stores, the
  seeded AGAIN count), so that an oracle can recompute them from a log line;
* the data semantics of a generated program in Python: which copy every flow of every instance
  holds (cells), the hazard check (mirror of PTGVal/PTGValDefs.v safeb) and a sequential
  reference execution;
* a generator of hazard-free programs (jdfgen's templates, a finish_flows that never reads a
  NEW tile and writes back only copies nobody modifies later, plus rejection sampling).
"""
import sys

import ptg_common
from ptg_common import jdfgen

M64 = (1 << 64) - 1


def mix64(z):
    z = (z + 0x9E3779B97F4A7C15) & M64
    z = ((z ^ (z >> 30)) * 0xBF58476D1CE4E5B9) & M64
    z = ((z ^ (z >> 27)) * 0x94D049BB133111EB) & M64
    return z ^ (z >> 31)


def hash_instance(seed, name, locals_):
    h = mix64(seed & M64)
    for ch in name:
        h = mix64(h ^ ord(ch))
    for v in locals_:
        h = mix64(h ^ (v & 0xFFFFFFFF))
    return h


def body_hash(name, locals_, flow, rv):
    h = mix64(hash_instance(0x5eed, name, locals_) ^ flow)
    for i, v in rv:
        h = mix64(h ^ (v & M64) ^ ((i << 56) & M64))
    return h >> 3


def again_count(seed, amax, name, locals_):
    return 0 if amax <= 0 else hash_instance(seed, name, locals_) % (amax + 1)


# ---------------------------------------------------------------- well-formedness, first match wins
def wf_fm(p, why=None):
    """mirror of PTGValDefs.wf_program_fm: jdfgen.wf with "exactly one active input per data flow" relaxed to
    "at least one" (the runtime takes the FIRST applicable input dependency, as jdfgen.pred_edges does)"""
    def no(msg):
        if why is not None:
            why.append(msg)
        return False
    instances, complete, dep_target, target_tasks = jdfgen.instances, jdfgen.complete, jdfgen.dep_target, jdfgen.target_tasks
    ids = instances(p)
    idset = set(ids)
    for c in p.classes:
        if len(c.locals) > 20 or len(c.flows) > 20:
            return no("limits")
        for f in c.flows:
            if sum((2 if d.els else 1) for d in f.deps if d.din) > 10 or sum((2 if d.els else 1) for d in f.deps if not d.din) > 10:
                return no("dep limits")
        for i, l in enumerate(c.locals):
            if l.kind == 'R' and i not in c.params:
                return no("range not a parameter")
        if any(i >= len(c.locals) for i in c.params):
            return no("bad param")
    if len(idset) != len(ids):
        return no("duplicate instance ids")
    P, S = {}, {}
    for t in ids:
        P[t] = jdfgen.pred_edges(p, t)
        S[t] = jdfgen.succ_edges(p, t)
    for t in ids:
        c = p.classes[t[0]]
        env = complete(p.gvals, c, t[1])
        if env is None:
            return no("instance %s not rebuilt by complete" % (t,))
        for f in c.flows:
            if f.mode == 'C':
                for d in f.deps:
                    if d.din:
                        tg = dep_target(p.gvals, env, d)
                        if tg is not None and (tg[0] != 'T' or not target_tasks(p.gvals, env, 0, tg)):
                            return no("active CTL input without task in %s" % c.name)
            elif any(d.din for d in f.deps):
                if sum(1 for d in f.deps if d.din and dep_target(p.gvals, env, d) is not None) < 1:      # the only difference
                    return no("data flow %s of %s%s: no active input" % (f.name, c.name, t[1]))
        for e in P[t]:
            ft, q, fq = e
            if q not in idset:
                return no("pred %s of %s not an instance" % (q, t))
            if S[q].count((fq, t, ft)) != P[t].count(e):
                return no("edge %s -> %s: views differ" % (q, t))
        for e in S[t]:
            ft, s_, fs = e
            if s_ not in idset:
                return no("succ %s of %s not an instance" % (s_, t))
            if P[s_].count((fs, t, ft)) != S[t].count(e):
                return no("edge %s -> %s: views differ (succ side)" % (t, s_))
    for t in ids:
        pt = [e[1] for e in P[t]]
        stt = [e[1] for e in S[t]]
        for q in set(pt):
            if [e[1] for e in S[q]].count(t) != pt.count(q):
                return no("multiplicity of %s -> %s differs" % (q, t))
        for s_ in set(stt):
            if [e[1] for e in P[s_]].count(t) != stt.count(s_):
                return no("multiplicity of %s -> %s differs" % (t, s_))
    placed, todo = set(), list(ids)
    while todo:
        ready = [t for t in todo if all(e[1] in placed for e in P[t])]
        if not ready:
            return no("cycle")
        placed.update(ready)
        rs = set(ready)
        todo = [t for t in todo if t not in rs]
    return True


# ---------------------------------------------------------------- data semantics
class Sem:
    """static view of a program: instances, environments, edges, sources, cells"""

    def __init__(self, p):
        self.p = p
        self.ids = jdfgen.instances(p)
        self.idset = set(self.ids)
        self.env = {t: jdfgen.complete(p.gvals, p.classes[t[0]], t[1]) for t in self.ids}
        self.pred = {t: [e[1] for e in jdfgen.pred_edges(p, t)] for t in self.ids}
        self._cell = {}
        self._anc = {}

    def cls(self, t):
        return self.p.classes[t[0]]

    def nflows(self, t):
        return len(self.cls(t).flows)

    def src(self, t, f):
        """('T', producer, flow) | ('M', k) | ('N',) | ('Z',) | None"""
        c, env = self.cls(t), self.env[t]
        if f >= len(c.flows) or c.flows[f].mode == 'C':
            return None
        for d in c.flows[f].deps:
            if d.din:
                tg = jdfgen.dep_target(self.p.gvals, env, d)
                if tg is None:
                    continue
                if tg[0] == 'T':
                    ps = jdfgen.expand_args(self.p.gvals, env, tg[3])
                    return ('T', (tg[1], ps[0]), tg[2]) if len(ps) == 1 else None
                if tg[0] == 'M':
                    return ('M', jdfgen.ev(self.p.gvals, env, tg[1][0])) if tg[1] else None
                return (tg[0],)
        return None

    def reads(self, t, f):
        return self.cls(t).flows[f].mode in ('R', 'B')

    def writes(self, t, f):
        return self.cls(t).flows[f].mode in ('W', 'B')

    def wbs(self, t):
        c, env = self.cls(t), self.env[t]
        out = []
        for fi, fl in enumerate(c.flows):
            if fl.mode == 'C':
                continue
            for d in fl.deps:
                if not d.din:
                    tg = jdfgen.dep_target(self.p.gvals, env, d)
                    if tg is not None and tg[0] == 'M' and tg[1]:
                        out.append((fi, jdfgen.ev(self.p.gvals, env, tg[1][0])))
        return out

    def cell(self, t, f):
        """('M', k) | ('N', t, f) | None — the copy flow f of instance t holds"""
        key = (t, f)
        if key in self._cell:
            return self._cell[key]
        s = self.src(t, f)
        if s is None or s[0] == 'Z':
            r = None
        elif s[0] == 'M':
            r = ('M', s[1])
        elif s[0] == 'N':
            r = ('N', t, f)
        else:
            r = self.cell(s[1], s[2]) if s[1] in self.idset else None
        self._cell[key] = r
        return r

    def ancestors(self, t):
        if t in self._anc:
            return self._anc[t]
        a = set()
        for q in self.pred[t]:
            if q in self.idset:
                a.add(q)
                a |= self.ancestors(q)
        self._anc[t] = a
        return a

    def anc(self, a, t):
        return a in self.ancestors(t)

    def topo(self):
        placed, order, todo = set(), [], list(self.ids)
        while todo:
            ready = [t for t in todo if all(q in placed for q in self.pred[t])]
            if not ready:
                break
            order += ready
            placed.update(ready)
            rs = set(ready)
            todo = [t for t in todo if t not in rs]
        return order


def reads_uninit(sem):
    return any(sem.reads(t, f) and sem.src(t, f) == ('N',) for t in sem.ids for f in range(sem.nflows(t)))


def safe(sem, why=None):
    """mirror of PTGValDefs.safeb"""
    def no(m):
        if why is not None:
            why.append(m)
        return False
    hs = [(t, f, sem.cell(t, f)) for t in sem.ids for f in range(sem.nflows(t)) if sem.cell(t, f) is not None]
    ws = [(t, f, k, sem.cell(t, f)) for t in sem.ids for (f, k) in sem.wbs(t)
          if sem.cell(t, f) is not None and sem.cell(t, f) != ('M', k)]
    for t in sem.ids:
        for f in range(sem.nflows(t)):
            if sem.writes(t, f) and sem.cell(t, f) is None:
                return no("written flow without copy")
    bycell = {}
    for h in hs:
        bycell.setdefault(h[2], []).append(h)
    for c, l in bycell.items():
        for (v, h, _) in l:
            if not sem.writes(v, h):
                continue
            for (u, g, _) in l:
                if u == v:
                    if g != h:
                        return no("copy %s reached through two flows of %s, one written" % (c, v))
                    continue
                if sem.anc(u, v):
                    continue
                s = sem.src(u, g)
                if sem.anc(v, u) and s is not None and s[0] == 'T' and (v == s[1] or sem.anc(v, s[1])):
                    continue
                return no("writer %s.%d and holder %s.%d of copy %s are not ordered" % (v, h, u, g, c))
    for (t, f, k, c) in ws:
        for (v, h, c2) in hs:
            if c2 == ('M', k):
                return no("write-back target D(%d) is used by %s" % (k, v))
            if c2 == c and sem.writes(v, h) and not (v == t or sem.anc(v, t)):
                return no("copy written back by %s is modified later by %s" % (t, v))
        for (t2, f2, k2, _) in ws:
            if k2 == k and not (t2 == t and f2 == f):
                return no("two write-backs into D(%d)" % k)
    for t in sem.ids:
        w = sem.wbs(t)
        if len(set(w)) != len(w):
            return no("duplicate write-back")
    return True


def seq_reference(sem, names=None):
    """sequential execution in a topological order -> (reads, writes, data): reads[t] = [(f, v)…],
    writes[t] = [(f, v)…], data = {k: v} for the elements that differ from their initial value"""
    p = sem.p
    mem, reads, writes, pend = {}, {}, {}, []

    def get(c):
        if c in mem:
            return mem[c]
        return 1000 + c[1] if c[0] == 'M' else 0
    for t in sem.topo():
        name = p.classes[t[0]].name
        env = sem.env[t]
        rv = []
        for f in range(sem.nflows(t)):
            if sem.reads(t, f):
                c = sem.cell(t, f)
                rv.append((f, get(c) if c is not None else -1))
        wv = []
        for f in range(sem.nflows(t)):
            if sem.writes(t, f) and sem.cell(t, f) is not None:
                v = body_hash(name, env, f, rv)
                mem[sem.cell(t, f)] = v
                wv.append((f, v))
        for (f, k) in sem.wbs(t):
            c = sem.cell(t, f)
            if c is not None and c != ('M', k):
                pend.append((c, k))
        reads[t], writes[t] = rv, wv
    for (c, k) in pend:
        mem[('M', k)] = get(c)
    return reads, writes, {c[1]: v for c, v in mem.items() if c[0] == 'M'}


# ---------------------------------------------------------------- generation of hazard-free programs
# `-> g ? D(a) : D(b)` is not generated: parsec-ptgpp emits the `..._direct_access` accessor twice for a ternary whose two
# sides are memory references and the generated C does not compile (DESIGN.md 8.2, recorded with C24)
MEM_MEM_TERNARY = False


class ValGen(jdfgen.Gen):
    def finish_flows(self):
        """as jdfgen.Gen.finish_flows, but an RW flow is never fed by NEW (its body would read the tile),
        and `-> D(..)` is added only to flows whose copy nobody can modify afterwards"""
        r = self.r
        for ci, c in enumerate(self.p.classes):
            if getattr(c, "manual", False):       # classes written out completely by their template
                continue
            for f in c.flows:
                if f.mode == 'C':
                    continue
                ins = [d for d in f.deps if d.din]
                if f.mode == 'W':
                    f.deps.insert(0, jdfgen.Dep(True, None, ('N',)))
                else:
                    src = self.mem_ref(ci) if (f.mode == 'B' or r.chance(3, 4)) else ('Z',)
                    if src[0] == 'Z' and any(not d.din for d in f.deps):
                        src = self.mem_ref(ci)
                    if not ins:
                        f.deps.insert(0, jdfgen.Dep(True, None, src))
                    elif len(ins) == 1 and ins[0].els is None:
                        d = ins[0]
                        if d.guard is None:
                            pass
                        elif getattr(self, "force_overlap", False) or r.chance(2, 5):
                            # OVERLAPPING guards, first match wins: the guarded task dependency, then a fallback whose
                            # guard is absent or weaker (holds also where the first one does)
                            k = f.deps.index(d)
                            g2 = None if r.chance(2, 3) else jdfgen.B("or", d.guard, jdfgen.B("ge", jdfgen.L(c.params[0]), jdfgen.C(-100)))
                            f.deps.insert(k + 1, jdfgen.Dep(True, g2, src))
                        elif r.chance(1, 2):
                            d.els = src
                        else:
                            k = f.deps.index(d)
                            nd = jdfgen.Dep(True, jdfgen.N(d.guard), src)
                            if r.chance(1, 2):
                                f.deps.insert(k, nd)
                            else:
                                f.deps.insert(k + 1, nd)
                if f.mode in ('B', 'W'):
                    self.add_writebacks(ci, c, f)
        self.p.ndata = max(1, self.data_next)

    def add_writebacks(self, ci, c, f):
        """final write-backs `-> D(b)` into fresh elements (never the element the copy came from), through every
        spelling of the output dependency.  A guarded output to a successor task (guard false at the end of a
        chain / on the instances that do not forward) gets the write-back on its other side:
            -> g ? A T(..) : D(b)        ternary, memory on the FALSE side
            -> !g ? D(b) : A T(..)       ternary, memory on the TRUE side
            -> g ? A T(..)   -> !g ? D(b)   two binary guards
        a flow whose copy nobody modifies afterwards gets  -> D(b) | -> par ? D(b) | -> par ? D(b) : D(b')
        (par: parity of the first coordinate, true and false over the instances)."""
        r = self.r
        force = getattr(self, "force_wb", False)
        for d in [d for d in f.deps if not d.din and d.guard is not None and d.then[0] == 'T' and d.els is None]:
            if not (force or r.chance(1, 2)):
                continue
            mem = self.mem_ref(ci)
            form = r.below(3)
            if form == 0:
                d.els = mem
            elif form == 1:
                d.guard, d.then, d.els = jdfgen.N(d.guard), mem, d.then
            else:
                f.deps.append(jdfgen.Dep(False, jdfgen.N(d.guard), mem))
        if force or r.chance(2, 3):
            outs = [tg for d in f.deps if not d.din for tg in (d.then, d.els) if tg is not None and tg[0] == 'T']
            if all(self.p.classes[tg[1]].flows[tg[2]].mode == 'R' for tg in outs):
                par = jdfgen.simp(jdfgen.B("eq", jdfgen.B("mod", self.canon(ci, 0), jdfgen.C(2)), jdfgen.C(0)))
                form = r.below(4) if MEM_MEM_TERNARY else r.below(3)
                if form <= 1:
                    f.deps.append(jdfgen.Dep(False, None, self.mem_ref(ci)))
                elif form == 2:
                    f.deps.append(jdfgen.Dep(False, par if r.chance(1, 2) else jdfgen.N(par), self.mem_ref(ci)))
                else:
                    f.deps.append(jdfgen.Dep(False, par, self.mem_ref(ci), self.mem_ref(ci)))


def _t_bcast_read(g):
    """Z(k) writes a NEW tile and broadcasts it to T(k, 0..m-1) READ; every T also owns an RW chain along m;
    a control gather brings the row back to Q(k) which reads Z's tile after all the T"""
    r = g.r
    n, m = r.range(1, 4), r.range(1, 5)
    z = g.new_class([(n, False)])
    t = g.new_class([(n, False), (m, False)])
    za = g.add_flow(z, r.pick(['W', 'B']))
    ta = g.add_flow(t, 'R')
    g.connect((z, za), (t, ta), [jdfgen.same(0), jdfgen.allof(lambda u: jdfgen.C(m))], [jdfgen.same(0)])
    tb = g.add_flow(t, 'B')
    g.connect((t, tb), (t, tb), [jdfgen.same(0), jdfgen.shift(1, 1)], [jdfgen.same(0), jdfgen.shift(1, -1)],
              out_bounds=r.chance(1, 2))
    if r.chance(2, 3):
        q = g.new_class([(n, False)])
        tx = g.add_flow(t, 'C')
        qx = g.add_flow(q, 'C')
        g.connect((t, tx), (q, qx), [jdfgen.same(0)], [jdfgen.same(0), jdfgen.allof(lambda u: jdfgen.C(m))])
        qa = g.add_flow(q, r.pick(['R', 'B']))
        g.connect((z, za), (q, qa), [jdfgen.same(0)], [jdfgen.same(0)])


def _t_relay(g):
    """S(k) RW -> T(k) RW [-> U(k)]: the copy is handed over and modified in place by each class in turn;
    V(k) READs S's value and a control dependency V(k) -> T(k) orders that read before T overwrites the copy"""
    r = g.r
    n = r.range(1, 6)
    s = g.new_class([(n, False)])
    t = g.new_class([(n, False)])
    v = g.new_class([(n, False)])
    sa = g.add_flow(s, 'B')
    va = g.add_flow(v, 'R')
    ta = g.add_flow(t, 'B')
    g.connect((s, sa), (v, va), [jdfgen.same(0)], [jdfgen.same(0)])
    g.connect((s, sa), (t, ta), [jdfgen.same(0)], [jdfgen.same(0)])
    vx = g.add_flow(v, 'C')
    tx = g.add_flow(t, 'C')
    g.connect((v, vx), (t, tx), [jdfgen.same(0)], [jdfgen.same(0)])      # V(k) reads before T(k) overwrites
    if r.chance(1, 2):
        u = g.new_class([(n, False)])
        ua = g.add_flow(u, r.pick(['R', 'B']))
        g.connect((t, ta), (u, ua), [jdfgen.same(0)], [jdfgen.same(0)])


def _t_overlap(g):
    """first match wins: T(k) RW A <- (k - d >= 0) ? A T(k-d)  <- D(..)   (the fallback has no guard, or one that also holds
    where the first does) plus a second task-fed flow READ B <- B S(k) whose producers have no predecessor and
    finish early; sometimes a control chain too.  A runtime that looks past the first applicable dependency would
    release T(k) as soon as S(k) is done."""
    r = g.r
    g.force_overlap = True
    n = r.range(3, 9)
    t = g.new_class([(n, False)])
    g.p.classes[t].count = False                 # mask tracking (the default of ptgpp)
    a = g.add_flow(t, 'B')
    d = r.pick([1, 1, 2])
    g.connect((t, a), (t, a), [jdfgen.shift(0, d)], [jdfgen.shift(0, -d)], out_bounds=r.chance(1, 2))
    s = g.new_class([(n, False)])
    b = g.add_flow(s, r.pick(['B', 'W']))
    rd = g.add_flow(t, 'R')
    g.connect((s, b), (t, rd), [jdfgen.same(0)], [jdfgen.same(0)], out_bounds=r.chance(1, 2))
    if r.chance(1, 3):
        x = g.add_flow(t, 'C')
        g.connect((t, x), (t, x), [jdfgen.shift(0, 1)], [jdfgen.shift(0, -1)], out_bounds=r.chance(1, 2))


def _t_wbforms(g):
    """chains that read one element and END by writing another one, the final write-back sitting on the other side of
    the guarded output dependency that forwards the copy (all spellings, see ValGen.add_writebacks); one chain starts
    from D(a) and is modified in place on the way, one starts from a NEW tile"""
    r = g.r
    g.force_wb = True
    n = r.range(2, 7)
    t = g.new_class([(n, False)])
    a = g.add_flow(t, 'B')
    g.connect((t, a), (t, a), [jdfgen.shift(0, 1)], [jdfgen.shift(0, -1)], out_bounds=True)
    s = g.new_class([(n, False)])
    w = g.add_flow(s, 'W')                       # <- NEW
    u = g.new_class([(n, False)])
    ub = g.add_flow(u, 'B')
    # S(k) -> U(k) only for even k (guarded output: the odd S write their tile back instead)
    g.connect((s, w), (u, ub), [jdfgen.same(0)], [jdfgen.same(0)],
              gs=lambda uu: jdfgen.B("eq", jdfgen.B("mod", uu[0], jdfgen.C(2)), jdfgen.C(0)),
              gd=lambda uu: jdfgen.B("eq", jdfgen.B("mod", uu[0], jdfgen.C(2)), jdfgen.C(0)))
    if r.chance(1, 2):
        d = r.pick([1, 2])
        b2 = g.add_flow(u, 'B')
        g.connect((u, b2), (u, b2), [jdfgen.shift(0, d)], [jdfgen.shift(0, -d)], out_bounds=True)


def _t_shrink(g):
    """execution spaces with 3 or 4 parameters in which the upper bound of a MIDDLE parameter depends on the outer one,
    shrinking (m = 0 .. N-1-(k-k0)) or growing (m = 0 .. k-k0) as it advances:
        P(k, m, n[, q])  RW X <- D(i)              -> X A(k, m, n[, q])     CTL c -> c B(k)
        B(k)             CTL c <- c P(k, all m, all n[, all q])             CTL d -> d A(k, all m, all n[, all q])
        A(k, m, n[, q])  RW X <- X P(k, m, n[, q]) -> D(j)                  CTL d <- d B(k)
    every P of a row is complete, its copy waiting in the repository, before the control barrier B(k) lets the A of the
    row start: A fetches its input through the repository lookup while many producers of the class are alive, so
    the generated keys (mixed radix over the recorded ranges of the parameters) must tell them apart."""
    r = g.r
    C_, L_, B_ = jdfgen.C, jdfgen.L, jdfgen.B
    N, nn = r.range(2, 4), r.range(2, 3)
    nq = r.pick([0, 0, 2])                         # a fourth parameter, sometimes
    k0 = r.pick([0, 0, 1, -2, 3])
    grow = r.chance(1, 4)
    k0e = g.lo_expr(k0)
    khi = jdfgen.simp(B_("add", k0e, g.count_expr(N)))
    base = g.data_next
    size = N * N * nn * max(1, nq)
    g.data_next += 2 * size

    def u(kl):                                     # canonical coordinate of k
        return jdfgen.simp(B_("sub", kl, k0e))

    def mhi(kl):
        return u(kl) if grow else jdfgen.simp(B_("sub", C_(N - 1), u(kl)))

    def locals_of(c):
        c.locals.append(jdfgen.Local("k", 'R', k0e, khi, C_(1)))
        c.locals.append(jdfgen.Local("m", 'R', C_(0), mhi(L_(0)), C_(1)))
        c.locals.append(jdfgen.Local("n", 'R', C_(0), C_(nn - 1), C_(1)))
        if nq:
            c.locals.append(jdfgen.Local("q", 'R', C_(0), C_(nq - 1), C_(1)))
        c.params = list(range(len(c.locals)))

    def idx(off):
        e = B_("add", B_("mul", B_("add", B_("mul", u(L_(0)), C_(N)), L_(1)), C_(nn)), L_(2))
        if nq:
            e = B_("add", B_("mul", e, C_(nq)), L_(3))
        return ('M', [jdfgen.simp(B_("add", C_(base + off), e))])

    def same_args():
        return [('E', L_(i)) for i in range(3 + (1 if nq else 0))]

    def all_args():
        a = [('E', L_(0)), ('S', C_(0), mhi(L_(0)), C_(1)), ('S', C_(0), C_(nn - 1), C_(1))]
        if nq:
            a.append(('S', C_(0), C_(nq - 1), C_(1)))
        return a
    cls = []
    for _ in range(3):
        c = jdfgen.Cls(next(g.names))
        c.manual = True
        g.p.classes.append(c)
        cls.append(len(g.p.classes) - 1)
    pi, bi, ai = cls
    P_, Bc, A_ = (g.p.classes[i] for i in cls)
    locals_of(P_)
    locals_of(A_)
    Bc.locals.append(jdfgen.Local("k", 'R', k0e, khi, C_(1)))
    Bc.params = [0]
    P_.flows = [jdfgen.Flow("X", 'B', [jdfgen.Dep(True, None, idx(0)), jdfgen.Dep(False, None, ('T', ai, 0, same_args()))]),
                jdfgen.Flow("Y", 'C', [jdfgen.Dep(False, None, ('T', bi, 0, [('E', L_(0))]))])]
    Bc.flows = [jdfgen.Flow("Y", 'C', [jdfgen.Dep(True, None, ('T', pi, 1, all_args()))]),
                jdfgen.Flow("Z", 'C', [jdfgen.Dep(False, None, ('T', ai, 1, all_args()))])]
    A_.flows = [jdfgen.Flow("X", 'B', [jdfgen.Dep(True, None, ('T', pi, 0, same_args())), jdfgen.Dep(False, None, idx(size))]),
                jdfgen.Flow("Z", 'C', [jdfgen.Dep(True, None, ('T', bi, 1, [('E', L_(0))]))])]
    if r.chance(1, 2):
        P_.prio = L_(1)
    if r.chance(1, 3):
        A_.count = True


def space_shapes(p):
    """classes with >= 3 parameters whose middle parameter has an upper bound shrinking / growing with an outer one"""
    d = {"shrinking": 0, "growing": 0}
    for c in p.classes:
        if len(c.params) < 3:
            continue
        envs = jdfgen.enum(p.gvals, c.locals)
        for pos in c.params[1:-1]:
            l = c.locals[pos]
            if l.kind != 'R':
                continue
            his = []
            for env in envs:
                h = jdfgen.ev(p.gvals, list(env), l.hi)
                if not his or his[-1] != h:
                    his.append(h)
            if any(a > b for a, b in zip(his, his[1:])):
                d["shrinking"] += 1
            elif any(a < b for a, b in zip(his, his[1:])):
                d["growing"] += 1
    return d


def writeback_forms(p):
    """how the final write-backs of a program are spelt: counts per form, and whether each form's guard is both
    true and false over the instances"""
    d = {"uncond": 0, "binary": 0, "tern_mem_false": 0, "tern_mem_true": 0, "tern_mem_mem": 0}
    for c in p.classes:
        for f in c.flows:
            for dp in f.deps:
                if dp.din:
                    continue
                tm, em = dp.then[0] == 'M', (dp.els is not None and dp.els[0] == 'M')
                if dp.guard is None:
                    d["uncond"] += 1 if tm else 0
                elif dp.els is None:
                    d["binary"] += 1 if tm else 0
                elif tm and em:
                    d["tern_mem_mem"] += 1
                elif tm:
                    d["tern_mem_true"] += 1
                elif em:
                    d["tern_mem_false"] += 1
    return d


def overlapping_flows(p):
    """number of (instance, data flow) pairs with more than one applicable input dependency"""
    n = 0
    for t in jdfgen.instances(p):
        c = p.classes[t[0]]
        env = jdfgen.complete(p.gvals, c, t[1])
        for f in c.flows:
            if f.mode != 'C' and sum(1 for d in f.deps if d.din and jdfgen.dep_target(p.gvals, env, d) is not None) > 1:
                n += 1
    return n


EXTRA_TEMPLATES = {"bcast_read": _t_bcast_read, "relay": _t_relay, "overlap": _t_overlap, "wbforms": _t_wbforms, "shrink": _t_shrink}
VAL_TEMPLATES = ("shrink", "wbforms", "overlap", "chain", "fan", "bcast_gather", "diamond", "split_merge", "pipeline2d", "tri", "mixed", "bcast_read", "relay")


def gen_value_program(rng, template=None, max_inst=100, tries=60):
    """a well-formed, hazard-free program that reads no NEW tile"""
    for _ in range(tries):
        r = rng.fork()
        t = template or r.pick(VAL_TEMPLATES)
        g = ValGen(r, max_inst, True)
        try:
            if t in EXTRA_TEMPLATES:
                EXTRA_TEMPLATES[t](g)
            else:
                getattr(jdfgen, "_t_" + t)(g)
            g.finish_flows()
        except StopIteration:
            continue
        p = g.p
        p.template = t
        n = len(jdfgen.instances(p))
        if n == 0 or n > max_inst or not wf_fm(p):
            continue
        sem = Sem(p)
        if reads_uninit(sem) or not safe(sem):
            continue
        return p
    g = ValGen(rng.fork(), max_inst, False)
    jdfgen._t_chain(g)
    g.finish_flows()
    g.p.template = "chain-fallback"
    assert wf_fm(g.p) and safe(Sem(g.p))
    return g.p


def fmt_tid(p, t):
    return "%s(%s)" % (p.classes[t[0]].name, ",".join(str(v) for v in t[1]))


def fmt_fv(l):
    return " ".join("%d=%d" % (f, v) for f, v in l)


if __name__ == "__main__":
    sys.path.insert(0, __file__.rsplit("/", 2)[0] + "/lib")
    from vcheck import Rng
    seed = int(sys.argv[1]) if len(sys.argv) > 1 else 1
    tmpl = sys.argv[2] if len(sys.argv) > 2 else None
    pr = gen_value_program(Rng(seed), tmpl)
    sys.stdout.write(jdfgen.to_jdf(pr))
    sys.stderr.write(jdfgen.to_case(pr) + "\n")
    sys.stderr.write("%s %s\n" % (pr.template, jdfgen.stats(pr)))
