"""Shared part of C15 / C06: build of the harnesses that link the tiny PTG taskpool
harness/compound_pool.jdf (compiled once per check with the parsec-ptgpp of the tree under test)."""
import os
import shutil

import vcheck
from vcheck import Check, Failure, run

SCHEDULERS = ("lfq", "ll", "ltq", "lhq", "gd", "ap", "pbq", "spq", "rnd", "llp", "ip")
RUN_ENV = {"OMPI_MCA_ess_singleton_isolated": "1", "OMPI_MCA_btl": "self", "OMPI_MCA_pml": "ob1"}


class PoolCheck(Check):
    link_parsec = True
    impl_env_timeout = None      # (name, ms) of the per-case time-out variable of the harness

    def build_sides(self):
        fails = []
        ok, msg = vcheck.ensure_parsec()
        if not ok:
            return [Failure("build", "PaRSEC does not build from /repo", msg)]
        gen = os.path.join(vcheck.BIN, "gen_" + self.comp)
        shutil.rmtree(gen, ignore_errors=True)
        os.makedirs(gen)
        shutil.copy(os.path.join(vcheck.VERIF, "harness/compound_pool.jdf"), os.path.join(gen, "compound_pool.jdf"))
        ptgpp = os.path.join(vcheck.PBUILD, "parsec/interfaces/ptg/ptg-compiler/parsec-ptgpp")
        rc, o, e = run([ptgpp, "-E", "-i", "compound_pool.jdf", "-o", "compound_pool", "-f", "compound_pool"], cwd=gen, timeout=120)
        if rc != 0 or not os.path.exists(os.path.join(gen, "compound_pool.c")):
            return [Failure("correspondence", "parsec-ptgpp no longer accepts harness/compound_pool.jdf", (o + e)[-3000:])]
        obj = os.path.join(gen, "compound_pool.o")
        rc, o, e = run(["cc"] + vcheck.harness_cflags() + ["-O0", "-g0", "-w", "-I" + gen, "-c", "compound_pool.c", "-o", obj],
                       cwd=gen, timeout=300)
        if rc != 0:
            return [Failure("correspondence", "the C generated from harness/compound_pool.jdf no longer compiles", (o + e)[-3000:])]
        ok, msg = vcheck.build_harness(self.harness_src, self.hbin(), True, [obj], cflags=["-I" + gen])
        if not ok:
            fails.append(Failure("correspondence", "harness %s no longer compiles against /repo" % self.harness_src, msg))
        self.race_ok = False
        ok, msg = vcheck.build_driver(self.comp, "ocaml/d_%s.ml" % self.comp, self.extracted, self.mbin())
        if not ok:
            fails.append(Failure("build", "model driver does not build", msg))
        return fails

    def run_impl(self, casefile, n):
        env = dict(os.environ)
        env.update(RUN_ENV)
        if self.impl_env_timeout and self.impl_env_timeout[0] not in env:
            env[self.impl_env_timeout[0]] = str(self.impl_env_timeout[1] if self.tier == "quick" else 3 * self.impl_env_timeout[1])
        rc, o, e = run([self.hbin(), casefile], timeout=self.impl_timeout(), env=env)
        lines = o.splitlines()
        if rc != 0 or len(lines) != n:
            lines = lines[:n] + ["<impl rc=%d: %s>" % (rc, e.strip()[-200:].replace("\n", " "))] * (n - len(lines))
        # a hang is believed only when it is confirmed: every case reported as hanging runs once more, alone
        hung = [i for i, l in enumerate(lines) if l.startswith("<hang")]
        if hung and not casefile.endswith(".confirm"):
            cases = [l.rstrip("\n") for l in open(casefile) if l.strip() and not l.startswith("#")]
            for i in hung[:6]:
                cf = casefile + ".confirm"
                with open(cf, "w") as f:
                    f.write(cases[i] + "\n")
                rc2, o2, e2 = run([self.hbin(), cf], timeout=self.impl_timeout(), env=env)
                l2 = o2.splitlines()
                if len(l2) == 1:
                    lines[i] = l2[0] + (" (confirmed)" if l2[0].startswith("<hang") else "")
        return lines
