import os
import re

import vcheck
from vcheck import Check, Failure

PAGE = 4096
HDR = 25
U64 = (1 << 64) - 1
U32 = (1 << 32) - 1


def gstr(tag, j, n):
    pre = "%s%d_" % (tag, j)
    return "".join(pre[m] if m < len(pre) else chr(97 + ((j * 7 + m * 3) % 26)) for m in range(max(n, 0)))


def kname(j, b, n):
    """name of dictionary entry j whose strings derive from index b (harness kname)"""
    g = gstr("k", b, n)
    return "".join(chr(65 + ((j + m) % 26)) if m >= 63 else ch for m, ch in enumerate(g))


def subcases(case):
    """files opened together, in order: [(rank, case of that rank)]"""
    if not case.startswith("M"):
        return [(0, case)]
    parts = case.split("||")
    order = parts[0].split()[1]
    return [(int(ch), parts[1 + int(ch)].strip()) for ch in order if int(ch) < len(parts) - 1]


def ibyte(seed, m):
    return (seed * 31 + m * 7 + (m >> 8) * 13 + 1) & 0xff


def fnv(bs):
    h = 2166136261
    for b in bs:
        h = ((h ^ b) * 16777619) & 0xffffffff
    return h


def parse_case(case):
    hd, dic, infos, evs = case.split("|")
    pages, mode, ns = [int(x) for x in hd.split()]
    keys = []
    for j, w in enumerate(dic.split()):
        f = [int(x) for x in w.split(":")]
        keys.append(tuple(f[:4]) + ((f[4],) if len(f) > 4 else (j,)))        # (nlen, alen, clen, ilen, string index)
    ninfo = [int(x) for x in infos.split()]
    events = []
    for t in evs.split(";"):
        w = t.split()
        if not w:
            continue
        events.append((int(w[0]), int(w[1]), int(w[2]), int(w[3]), int(w[4]), None if w[5] == "-" else int(w[5])))
    return pages, mode, ns, keys, ninfo, events


def packing(avail, keys, evs):
    """buffers of one stream as the writer fills them: list of lists of event lengths"""
    bufs, pos = [[]], 0
    for (_, key, _, _, _, info) in evs:
        ln = 24 + (keys[key // 2 - 1][3] if info is not None else 0)
        if pos + ln > avail:
            bufs.append([])
            pos = 0
        bufs[-1].append(ln)
        pos += ln
    return bufs


def dict_packing(avail, keys):
    """dictionary buffers as dump_dictionary fills them (N/A entry first): list of lists of entry lengths"""
    bufs, pos = [[]], 0
    for cs in [0] + [k[2] for k in keys]:
        ln = 203 + cs
        if pos + ln >= avail:
            bufs.append([])
            pos = 0
        bufs[-1].append(ln)
        pos += ln
    return bufs


class C42(Check):
    id = "C42"
    prop_file = "theories/Properties/Properties_C42.v"
    theorems = ("C42_read_back", "C42_stream_events_read_back", "C42_order_preserved", "C42_no_event_across_buffers",
                "C42_key_pairing_bijective", "C42_key_fits_uint16", "C42_logged_event_ok",
                "C42_has_info_flag_without_info_prefix_refuted", "C42_infos_kept_when_entry_fits",
                "C42_oversized_info_omitted", "C42_kept_infos_position_independent",
                "C42_repaired_loop_agrees_with_prefix", "C42_dump_thread_info_loop_prefix_refuted",
                "C42_thread_entry_ends_before_buffer_end", "C42_thread_entry_exactly_full_prefix_refuted",
                "C42_merged_dictionary_returns_written_key", "C42_events_through_merged_dictionary")
    comp = "prof"
    extract_file = "theories/Extract/Extract_Prof.v"
    extracted = ("prof",)
    harness_src = "harness/h_prof.c"
    link_parsec = True
    level_text = ("Theorems, for every dictionary, number of streams, event sequence, info length, allocation of file offsets "
                  "(injective) and buffer size that fits every single event: the modelled reader applied to the file produced by "
                  "the modelled writer returns the dictionary (name, last 6 characters of the attributes = what the reader keeps, "
                  "convertor, info length), the thread table and, per stream, exactly the logged events in order; the writer "
                  "never places an event across a buffer boundary; START_KEY/END_KEY is a bijection with BASE_KEY as inverse. "
                  "Byte-exact model of events buffers, dictionary and thread-table entries (little-endian x86-64 layout of "
                  "parsec_binary_profile.h). Tie: a harness linked to a -DPARSEC_PROF_TRACE=ON build writes a profile with the real "
                  "writer API and reads it back with the real dbpreader.c; the extracted reader model is run on the very bytes "
                  "of that file and must print the same dictionary/threads/events, and the extracted writer model must "
                  "reproduce every events, dictionary and thread-table buffer of the file byte for byte. Partial: the file header, the global info blocks, "
                  "the merge of several ranks' files, mmap/ftruncate/write and the I/O helper thread are outside the model.")
    level_note = ("Trusted: Coq kernel, extraction, the harness, the OCaml driver (parses the 224-byte file header and feeds "
                  "buffers to the model), the profiling build configuration (default options: mmap + helper thread). File offsets "
                  "of buffers are an input of the model (taken from the file), timestamps are only checked for monotonicity. "
                  "The merged dictionary of the reader (dico_map) is modelled (merge_files/presented, theorem "
                  "C42_merged_dictionary_returns_written_key) and tested with names sharing their 63 stored characters and "
                  "with 2-3 rank files opened in several orders; an entry merged into an earlier one is presented with the "
                  "earlier one's attributes (the generator gives equal attributes to entries that merge).")
    technique = ("Coq proof (writer invariant for every entry sequence, chain walk for every injective offset allocation) + "
                 "differential run of the real writer/reader against the extracted reader and writer models on the same file bytes")
    rule = ("random dictionaries (info lengths aimed at events that exactly fill / overflow by one byte the remaining space of a "
            "buffer), 1..4 streams written sequentially or by concurrent pthreads, 1..3 pages per buffer, stream infos, "
            "boundary ids; dictionaries of 1, 2, 3, 4+ buffers (many keys, long convertors, buffers ending one byte before the limit "
            "or entries moved for ending exactly at it); non-trivial = some stream or the dictionary spans >= 2 buffers; "
            "distinct = distinct case text")
    trusted = ("second PaRSEC build with -DPARSEC_PROF_TRACE=ON (default PARSEC_PROFILING_USE_MMAP / _HELPER_THREAD), rebuilt "
               "from the repository on every run; tools/profiling/dbpreader.c is compiled into the harness",
               "OCaml driver parses the profile file header (outside the model) and compares buffers")
    assumptions = ("little-endian x86-64 layout of the structures of parsec_binary_profile.h",
                   "every event fits a buffer: 24 + info_length <= buffer size - 25 (asserted by the writer, compiled out)",
                   "keys are registered keys (any flags: since fix 27f62af the stored HAS_INFO bit follows the info pointer; "
                   "the pre-fix behaviour is kept as C42_has_info_flag_without_info_prefix_refuted)",
                   "dictionary names < 64 bytes, attributes of 6..127 bytes (reader keeps the last 6), names distinct; "
                   "a stream info that does not fit a thread buffer is omitted (fix 54d29e4; the dump then returns "
                   "PARSEC_ERROR with a complete file; fix 73717d1: a thread entry always ends before the end of a buffer); "
                   "no allocation / I/O failure")

    # ---- builds -------------------------------------------------------------
    def pbuild(self):
        if vcheck.REPO == "/repo":
            return os.path.join(vcheck.WORK, "pbuild_prof")
        return os.path.join(vcheck.REPO, "_vbuild_prof")

    def build_sides(self):
        fails = []
        b = self.pbuild()
        ok, msg = vcheck.ensure_parsec(targets=("parsec",), build=b, extra_cmake=["-DPARSEC_PROF_TRACE=ON"])
        if not ok:
            fails.append(Failure("build", "PaRSEC (-DPARSEC_PROF_TRACE=ON) does not build from the repository", msg))
            return fails
        ok, msg = vcheck.build_harness(self.harness_src, self.hbin(), True, self.harness_ldflags, build=b,
                                       cflags=self.harness_cflags)
        if not ok:
            fails.append(Failure("correspondence", "harness %s no longer compiles against /repo" % self.harness_src, msg))
        self.race_ok = False
        ok, msg = vcheck.build_driver(self.comp, "ocaml/d_%s.ml" % self.comp, self.extracted, self.mbin())
        if not ok:
            fails.append(Failure("build", "model driver does not build", msg))
        return fails

    # ---- generator ------------------------------------------------------------
    def one_case(self, r, nev_target, big):
        pages = r.pick([1, 1, 1, 2, 3])
        avail = pages * PAGE - HDR
        ns = r.pick([1, 2, 3, 4])
        mode = r.pick([0, 0, 1])
        nk = r.range(1, 5)
        # info lengths: small ones, and large ones designed so that events hit the end of a buffer exactly
        ilens = []
        small = r.pick([0, 1, 8, 16, 40, 100, 3])
        for j in range(nk):
            kind = r.below(6) if big else r.pick([0, 1])
            if kind == 0:
                ilens.append(small)
            elif kind == 1:
                ilens.append(r.range(0, 64))
            elif kind == 2:
                ilens.append(avail - 24 - r.pick([0, 0, 1, 24, 25, 48]))            # alone (almost) fills a buffer
            elif kind == 3:
                k = r.range(1, 6)                                                   # after k events of (24+small): exact fit / off by one
                ilens.append(max(0, avail - k * (24 + small) - 24 + r.pick([0, 0, 1, -1])))
            elif kind == 4:
                ilens.append(max(0, avail // r.range(2, 5) - 24 + r.pick([0, 0, 1, -1])))  # m events fill a buffer exactly
            else:
                ilens.append(r.range(200, avail - 24))
        keys = []
        for j in range(nk):
            nlen = r.pick([3, 5, 9, 20, 40, 62, 63, 64, 70]) if r.chance(1, 4) else r.range(3, 30)
            alen = r.pick([6, 7, 12, 30, 126, 127, 128, 140]) if r.chance(1, 3) else r.range(6, 40)
            clen = r.pick([0, 0, 1, 5, 20, 100, 300, 1000]) if r.chance(1, 2) else r.range(0, 30)
            keys.append((nlen, alen, clen, ilens[j]))
        ninfo = [r.pick([0, 0, 1, 2, 3]) for _ in range(ns)]
        if r.chance(1, 8):          # large infos: the thread table needs more than one buffer
            ninfo = [r.range(1200, 1900) for _ in range(ns)]
        evs = []
        idpool = [0, 1, 2, U64, U64 - 1, 1 << 32, (1 << 63), r.u64(), r.u64() & 0xffff]
        tppool = [0, 1, U32, 7, r.u64() & U32]
        active = [s for s in range(ns) if not r.chance(1, 8)] or [0]      # some streams stay empty
        for _ in range(nev_target):
            sid = r.pick(active)
            j = r.below(nk)
            key = 2 * (j + 1) + r.below(2)
            hasinfo = r.chance(2, 3) if keys[j][3] > 64 else r.chance(1, 2)
            ufl = r.pick([0, 0, 0, 2, 4, 8, 6, 12, 14])
            if hasinfo and r.chance(1, 2):
                ufl |= 1          # callers pass PARSEC_PROFILING_EVENT_HAS_INFO together with the info
            evs.append((sid, key, ufl, r.pick(tppool), r.pick(idpool), r.below(256) if hasinfo else None))
        return self.fmt(pages, mode, ns, keys, ninfo, evs)

    def dict_case(self, r, nbuf):
        """a dictionary that needs nbuf buffers (1, 2, 3, 4+): many keys and/or long convertors, with buffers that
        end one byte before the limit (the entry still fits) or exactly at it (the entry moves to the next buffer)"""
        pages = r.pick([1, 1, 1, 2])
        avail = pages * PAGE - HDR
        keys, style = [], r.below(3)
        def add(clen):
            keys.append((r.pick([3, 4, 9, 30, 63, 64]) if r.chance(1, 4) else r.range(3, 12),
                         r.pick([6, 7, 40, 127, 128]) if r.chance(1, 4) else r.range(6, 14), clen, r.pick([0, 0, 4, 8, 16])))
        guard = 0
        while guard < 118:
            guard += 1
            b = dict_packing(avail, keys)
            if len(b) > nbuf or (len(b) == nbuf and len(b[-1]) >= 1 + r.below(4)):
                break
            pos = sum(b[-1])
            room = avail - pos - 203              # convertor length that makes the entry end exactly at avail (moves)
            kind = r.below(8)
            if kind == 0 and 0 <= room - 1 <= 3800:
                add(room - 1)                     # fits with one byte to spare: the buffer ends at avail - 1
            elif kind == 1 and 0 <= room <= 3800:
                add(room)                         # would end exactly at avail: goes to the next buffer
            elif style == 0:
                add(r.pick([0, 0, 1, 20, 21]))    # many small entries (20 per one-page buffer)
            elif style == 1:
                add(r.range(700, 1400))           # long convertors (3 per one-page buffer)
            else:
                add(r.pick([0, 20, 300, 1000, 2500]))
        while len(dict_packing(avail, keys)) > nbuf and len(keys) > 1 and nbuf > 0:
            keys.pop()
        if not keys:                 # at least one registered key for the events
            add(r.pick([0, 20]))
        nk = len(keys)
        ns = r.range(1, 2)
        evs = []
        for i in range(r.range(2, 12)):
            j = r.pick([0, nk - 1, r.below(nk)])
            hasinfo = r.chance(1, 2)
            evs.append((r.below(ns), 2 * (j + 1) + r.below(2), r.pick([0, 2, 4]), 7, i, r.below(256) if hasinfo else None))
        return self.fmt(pages, 0, ns, keys, [0] * ns, evs)

    def keyset(self, r, nb):
        """a pool of keys: strings (by index) and a usual info length, all different"""
        ils = r.shuffle([0, 4, 8, 12, 16, 24, 40, 56, 100, 200])
        return [(r.range(3, 14), r.range(6, 14), r.pick([0, 0, 3, 10]), ils[b % len(ils)], b) for b in range(nb)]

    def events_on(self, r, keys, ns, n):
        evs = []
        for i in range(n):
            j = r.below(len(keys))
            evs.append((r.below(ns), 2 * (j + 1) + r.below(2), r.pick([0, 2, 4]), r.pick([0, 7, U32]), r.pick([i, U64, r.u64()]),
                        r.below(256) if r.chance(3, 4) else None))
        return evs

    def prefix_case(self, r):
        """one file whose dictionary holds names that agree on the 63 characters the file stores (lengths around
        62/63/64): with the same info length and convertor the reader merges them, every later entry then has a
        merged index below its local one; with another info length or convertor they stay apart"""
        pool = self.keyset(r, 6)
        keys = []
        for b in r.shuffle(range(6))[:r.range(3, 6)]:
            nlen, alen, clen, il, _ = pool[b]
            kind = r.below(5)
            if kind == 0:                                   # two or three long names sharing the stored prefix: merged
                L = r.pick([64, 65, 70, 90])
                for _ in range(r.range(2, 3)):
                    keys.append((L + r.below(3), alen, clen, il, b))
            elif kind == 1:                                 # same stored name, other info length: not merged
                keys.append((64, alen, clen, il, b))
                keys.append((66, alen, clen, il + 4, b))
            elif kind == 2:                                 # same stored name, other convertor: not merged
                keys.append((64, alen, clen, il, b))
                keys.append((64 + 3, alen, clen + 1, il, b))
            else:
                keys.append((r.pick([62, 63, nlen, nlen]), alen, clen, il, b))
        ns = r.range(1, 2)
        return self.fmt(1, r.below(2), ns, keys, [0] * ns, self.events_on(r, keys, ns, r.range(6, 20)))

    def multi_cases(self, r):
        """2-3 ranks, each with its own file: the shared keys are registered in another order, some ranks have keys
        of their own, a shared name may have another info length on one rank; opened together in two orders"""
        nr = r.range(2, 3)
        pool = self.keyset(r, 7)
        subs = []
        for rank in range(nr):
            mine = r.shuffle(range(7))[:r.range(2, 6)]
            if rank > 0 and r.chance(1, 4):
                mine = list(reversed(subs_keys0))          # same keys as rank 0, reverse order
            keys = []
            for b in mine:
                nlen, alen, clen, il, _ = pool[b]
                keys.append((nlen, alen, clen, il + (4 if r.chance(1, 6) else 0), b))
            if rank == 0:
                subs_keys0 = [k[4] for k in keys]
            ns = r.range(1, 2)
            subs.append(self.fmt(1, 0, ns, keys, [r.pick([0, 1]) for _ in range(ns)], self.events_on(r, keys, ns, r.range(4, 14))))
        orders = r.shuffle(["01", "10"] if nr == 2 else ["012", "210", "102", "120", "201", "021"])[:2]
        return ["M %s || %s" % (o, " || ".join(subs)) for o in orders]

    def flag_case(self, r):
        """PARSEC_PROFILING_EVENT_HAS_INFO with a NULL info.  The reader then misparses what follows; the cases are
        shaped so that the misparse stays inside defined behaviour (it never looks up a garbage dictionary index):
        info length 8, the offending event is followed by no-info events with ids < 65536 (their id bytes are read
        as key/flags = id/0) and then by an event with info, where the parse falls back in step; or it is the last."""
        def rnd(i):
            return (0, 2 + r.below(2), r.pick([0, 2]), 7, 100 + i, None if r.chance(1, 2) else r.below(256))
        evs = [rnd(i) for i in range(r.range(0, 3))]
        evs.append((0, 2, 1 | r.pick([0, 2, 4]), 7, 200, None))           # flag set, no info
        if r.chance(2, 3):
            evs += [(0, 2 + r.below(2), 0, 7, 300 + i, None) for i in range(r.range(1, 4))]
            evs.append((0, 2 + r.below(2), 0, 7, 400, r.below(256)))
            evs += [rnd(500 + i) for i in range(r.range(0, 3))]
        return self.fmt(1, 0, 1, [(5, 7, 0, 8)], [0], evs)

    def directed_case(self, r):
        """per stream: k events with a small info and m without, then one event whose info length makes it
        exactly fill the buffer / miss by one byte / leave one byte, then the same again"""
        pages = r.pick([1, 1, 2, 3])
        avail = pages * PAGE - HDR
        ns = r.range(1, 4)
        mode = r.pick([0, 1])
        a = r.pick([0, 1, 8, 16, 40, 7])
        keys = [(r.range(3, 12), r.range(6, 20), r.range(0, 12), a)]
        per = []
        for s in range(ns):
            k, m = r.range(0, 12), r.range(0, 12)
            pos = k * (24 + a) + m * 24
            delta = r.pick([0, 0, 1, 1, -1])
            b = avail - pos - 24 + delta
            if b < 0 or 24 + b > avail:
                b, delta = avail - pos - 24, 0
            keys.append((r.range(3, 12), r.range(6, 20), r.range(0, 12), b))
            bk = 2 * (len(keys))            # base key of this stream's filler = its index + 1 (N/A is 0)
            seq = []
            for rep in range(r.range(1, 3)):
                body = [(2 + r.below(2), True)] * k + [(2 + r.below(2), False)] * m
                body = r.shuffle(body)
                seq += body + [(bk + r.below(2), True)]
                if delta == 1 and rep == 0:
                    seq += [(2, False)] * r.range(0, 3)
            seq += [(2 + r.below(2), r.chance(1, 2)) for _ in range(r.range(0, 4))]
            per.append([(s, key, r.pick([0, 0, 2, 4]) | (1 if (inf and r.chance(1, 2)) else 0), r.pick([0, 7, U32]),
                         r.pick([0, 1, U64, r.u64()]), r.below(256) if inf else None) for (key, inf) in seq])
        # random interleaving that keeps each stream's order
        evs, idx = [], [0] * ns
        while any(idx[s] < len(per[s]) for s in range(ns)):
            s = r.pick([s for s in range(ns) if idx[s] < len(per[s])])
            evs.append(per[s][idx[s]])
            idx[s] += 1
        return self.fmt(pages, mode, ns, keys, [r.pick([0, 1, 2]) for _ in range(ns)], evs)

    @staticmethod
    def fmt(pages, mode, ns, keys, ninfo, evs):
        return "%d %d %d | %s | %s | %s" % (
            pages, mode, ns, " ".join(("%d:%d:%d:%d" % tuple(k[:4])) + (":%d" % k[4] if len(k) > 4 and k[4] != j else "")
                                      for j, k in enumerate(keys)), " ".join(str(x) for x in ninfo),
            " ; ".join("%d %d %d %d %d %s" % (e[0], e[1], e[2], e[3], e[4], "-" if e[5] is None else str(e[5])) for e in evs))

    def cases(self):
        r = self.rng
        out = []
        mult = 1 if self.tier == "quick" else 15
        # small cases: many events, small infos
        for _ in range(6 * mult):
            out.append(self.one_case(r, r.range(1, 40), False))
        # large infos: several buffers per stream, boundary hits
        for _ in range(28 * mult):
            out.append(self.one_case(r, r.range(5, 45), True))
        # long streams of small events: many events per buffer, several buffers
        for _ in range(1 * mult):
            out.append(self.one_case(r, r.range(250, 350), False))
        # events that exactly fill a buffer, miss it by one byte, leave one byte
        for _ in range(14 * mult):
            out.append(self.directed_case(r))
        # dictionaries of 1, 2, 3, 4+ buffers
        for nb in [1, 2, 3, 3, 4, 4, r.range(4, 6)] * mult:
            out.append(self.dict_case(r, nb))
        # the merged dictionary of the reader: names equal on the 63 stored characters, several ranks opened together
        for _ in range(4 * mult):
            out.append(self.prefix_case(r))
        for _ in range(3 * mult):
            out += self.multi_cases(r)
        # the API accepts PARSEC_PROFILING_EVENT_HAS_INFO with a NULL info pointer
        for _ in range(2 * mult):
            out.append(self.flag_case(r))
        # stream infos that do not fit the thread buffer are omitted ("info ignored"), around the limit of a buffer
        for _ in range(2 * mult):
            pages = r.pick([1, 1, 2])
            lim = pages * PAGE - HDR - 156 - 14           # value length at which the entry is exactly avail
            ns = r.range(1, 3)
            ninfo = [r.pick([lim - 1, lim, lim + 1, lim + r.range(2, 600), r.range(1200, lim - 1), r.pick([0, 2])]) for _ in range(ns)]
            evs = [(r.below(ns), 2 + r.below(2), 0, 7, i, r.pick([None, r.below(256)])) for i in range(r.range(2, 8))]
            out.append(self.fmt(pages, r.below(2), ns, [(5, 7, 0, 8)], ninfo, evs))
        return out

    def search_cases(self):
        r = vcheck.Rng(self.seed + 977)
        return [self.one_case(r, r.range(5, 60), True) for _ in range(60)]

    # ---- metadata ---------------------------------------------------------------
    def shape(self, case):
        pages, mode, ns, keys, ninfo, evs = parse_case(case)
        avail = pages * PAGE - HDR
        per = {}
        for e in evs:
            per.setdefault(e[0], []).append(e)
        bufs = {s: packing(avail, keys, l) for s, l in per.items()}
        return pages, mode, ns, avail, bufs

    def nontrivial_key(self, case):
        if case.startswith("M"):
            return case
        try:
            pages, mode, ns, avail, bufs = self.shape(case)
        except Exception:
            return None
        if any(len(b) >= 2 for b in bufs.values()):
            return case
        try:
            if len(dict_packing(avail, parse_case(case)[3])) >= 2:
                return case
        except Exception:
            pass
        return None

    def dist(self, cases):
        d = {"cases": len(cases), "events": 0, "streams": {}, "pages": {}, "threaded": 0, "max_buffers_per_stream": 0,
             "buffers_exactly_full": 0, "switch_with_1_byte_missing": 0, "flag_without_info": 0,
             "dictionary_buffers": {}, "dict_buffer_ends_at_avail_minus_1": 0, "dict_entry_moved_for_ending_at_avail": 0}
        d["multi_file_cases"] = sum(1 for c in cases if c.startswith("M"))
        d["keys_merged_by_the_reader"] = 0
        flat = []
        for c in cases:
            try:
                subs = subcases(c)
                flat += [x[1] for x in subs]
                seen = set()
                for _, sc in subs:
                    for j, k in enumerate(parse_case(sc)[3]):
                        ident = (kname(j, k[4], k[0])[:63], k[2], k[3])
                        d["keys_merged_by_the_reader"] += ident in seen
                        seen.add(ident)
            except Exception:
                continue
        for c in flat:
            try:
                pages, mode, ns, keys, ninfo, evs = parse_case(c)
                _, _, _, avail, bufs = self.shape(c)
            except Exception:
                continue
            d["events"] += len(evs)
            db = dict_packing(avail, keys)
            d["dictionary_buffers"][str(min(len(db), 4)) + ("+" if len(db) >= 4 else "")] = \
                d["dictionary_buffers"].get(str(min(len(db), 4)) + ("+" if len(db) >= 4 else ""), 0) + 1
            for i, lens in enumerate(db):
                if sum(lens) == avail - 1:
                    d["dict_buffer_ends_at_avail_minus_1"] += 1
                if i + 1 < len(db) and sum(lens) + db[i + 1][0] == avail:
                    d["dict_entry_moved_for_ending_at_avail"] += 1
            d["streams"][str(ns)] = d["streams"].get(str(ns), 0) + 1
            d["pages"][str(pages)] = d["pages"].get(str(pages), 0) + 1
            d["threaded"] += mode
            d["flag_without_info"] += sum(1 for e in evs if (e[2] & 1) and e[5] is None)
            for b in bufs.values():
                d["max_buffers_per_stream"] = max(d["max_buffers_per_stream"], len(b))
                for i, lens in enumerate(b):
                    if sum(lens) == avail:
                        d["buffers_exactly_full"] += 1
                    if i + 1 < len(b) and sum(lens) + b[i + 1][0] == avail + 1:
                        d["switch_with_1_byte_missing"] += 1
        return d

    # ---- property oracle on the implementation's observation ----------------------
    def oracle(self, case, obs):
        if not case.startswith("M"):
            return self.oracle_single(case, obs)
        if obs.startswith("<"):
            return "no read-back: " + obs[:100]
        try:
            subs = subcases(case)
        except Exception:
            return None
        segs = obs.split(" || ")
        if segs[0] != "M" or len(segs) != len(subs) + 1:
            return "%d files read back, %d were opened" % (len(segs) - 1, len(subs))
        for (rank, sub), seg in zip(subs, segs[1:]):
            r = self.oracle_single(sub, seg)
            if r:
                return "file of rank %d: %s" % (rank, r)
        return None

    def oracle_single(self, case, obs):
        try:
            pages, mode, ns, keys, ninfo, evs = parse_case(case)
        except Exception:
            return None
        # precondition of the property (and of the writer API): events use registered keys, streams exist.
        # A case outside it is not judged (the generators never produce one; a replay file might).
        if any(not (1 <= e[1] // 2 <= len(keys)) or not (0 <= e[0] < ns) for e in evs):
            return None
        if obs.startswith("<"):
            return "no read-back: " + obs[:100]
        parts = [p.strip() for p in obs.split(" | ")]
        if len(parts) < 2:
            return "unparsable observation: " + obs[:100]
        head, tail = parts[0], parts[-1]
        m = re.match(r"mono=(\d) rc=(-?\d+) enc=", tail)
        if not m:
            return "unparsable observation tail: " + tail[:80]
        rc = int(m.group(2))
        avail = pages * PAGE - HDR
        hw = head.split()
        if hw[0] != "err=0" or len(hw) < 2 or hw[1] != "D":
            return "the reader rejects the file: " + head[:80]
        # dictionary: N/A, then the user's keys, as the reader presents them
        want = ["N/A/000000//0"]
        for j, (nlen, alen, clen, il, b) in enumerate(keys):
            a = gstr("a", b, alen)[:127]
            want.append("%s/%s/%s/%d" % (kname(j, b, nlen)[:63], a[-6:] if len(a) >= 6 else None, gstr("c", b, clen), il))
        got = hw[2:]
        if len(got) != len(want):
            return "dictionary has %d entries, %d were registered" % (len(got), len(want))
        for g, w in zip(got, want):
            if "/None/" in w:                      # attributes shorter than 6 bytes: outside the reader's precondition
                gs, ws = g.split("/"), w.split("/")
                if (gs[0], gs[2:]) != (ws[0], ws[2:]):
                    return "dictionary entry read back as %s, registered %s" % (g[:80], w[:80])
            elif g != w:
                return "dictionary entry read back as %s, registered %s" % (g[:80], w[:80])
        # streams
        per = {}
        for e in evs:
            per.setdefault(e[0], []).append(e)
        sids = sorted(per)
        threads = parts[1:-1]
        if len(threads) != len(sids):
            return "%d streams read back, %d streams logged events" % (len(threads), len(sids))
        omitted = False
        for sid, th in zip(sids, threads):
            mm = re.match(r"(\S+) n=(-?\d+) I ?(\S*) :(.*)$", th)
            if not mm:
                return "unparsable stream: " + th[:80]
            if mm.group(1) != "s%d" % sid:
                return "stream %s read back where s%d was expected" % (mm.group(1), sid)
            if int(mm.group(2)) != len(per[sid]):
                return "stream s%d announces %s events, %d were logged" % (sid, mm.group(2), len(per[sid]))
            big = sid < len(ninfo) and ninfo[sid] > 15
            winfo = [] if big else sorted("%s=%s" % (gstr("i", sid * 16 + k, 4 + (sid + k) % 9), gstr("v", sid * 16 + k, 3 + (sid * 5 + k * 11) % 40))
                           for k in range(ninfo[sid] if sid < len(ninfo) else 0))
            ginfo = sorted(x for x in mm.group(3).split(",") if x)
            if big:        # an info that cannot fit a thread buffer is dropped with a warning ("info ignored"), else it must be intact
                room = 156 + 11 + 3 + ninfo[sid]
                if room < avail and ginfo != ["big=" + "v" * ninfo[sid]]:
                    return "stream s%d: its info (%d bytes, fits) read back as %s" % (sid, ninfo[sid], str(ginfo)[:60])
                if room >= avail and ginfo != []:
                    return "stream s%d: an info that cannot fit was read back as %s" % (sid, str(ginfo)[:60])
                if ginfo not in ([], ["big=" + "v" * ninfo[sid]]):
                    return "stream s%d info read back as %s" % (sid, str(ginfo)[:80])
                if ginfo == []:
                    omitted = True
            elif winfo != ginfo:
                return "stream s%d infos read back as %s, added %s" % (sid, ginfo, winfo)
            gev = mm.group(4).split()
            for i, e in enumerate(per[sid]):
                _, key, ufl, tp, eid, seed = e
                if seed is None:
                    # the HAS_INFO bit of a read-back event tells whether an info was attached: none here
                    w = "%d.%d.%d.%d.-1.00000000" % (key, ufl & ~1, tp, eid)
                else:
                    il = keys[key // 2 - 1][3]
                    w = "%d.%d.%d.%d.%d.%08x" % (key, ufl | 1, tp, eid, il, fnv([ibyte(seed, k) for k in range(il)]))
                if i >= len(gev):
                    return "stream s%d: only %d of %d events read back" % (sid, len(gev), len(per[sid]))
                if gev[i] != w:
                    return "stream s%d event %d read back as %s, logged %s" % (sid, i, gev[i], w)
            if len(gev) != len(per[sid]):
                return "stream s%d: %d events read back, %d logged" % (sid, len(gev), len(per[sid]))
        if m.group(1) != "1":
            return "timestamps of a stream decrease"
        if rc != 0 and not (rc == -1 and omitted):      # the dump reports the omitted info (PARSEC_ERROR), the file is complete
            return "the writer API returned %d" % rc
        return None

    def signature(self, case, obs):
        if case.startswith("M"):
            return "merge-multi-file"
        try:
            pages, mode, ns, keys, ninfo, evs = parse_case(case)
        except Exception:
            return "badcase"
        if any((e[2] & 1) and e[5] is None for e in evs):
            return "hasinfo-flag-null-info"
        idents = [(kname(j, k[4], k[0])[:63], k[2], k[3]) for j, k in enumerate(keys)]
        if len(set(idents)) < len(idents):
            return "merge-name-prefix63"
        if any(x > 3500 for x in ninfo) and obs.startswith("<"):
            avail = pages * PAGE - HDR
            if any(156 + 14 + x == avail for x in ninfo):
                return "thread-entry-exactly-full"
            return "stream-info-too-large"
        nd = len(dict_packing(pages * PAGE - HDR, keys))
        if nd >= 3:
            return "readback-dict%dbuf" % min(nd, 4)
        return "readback-p%d-s%d" % (pages, ns)
