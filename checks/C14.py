import os
import re
import shutil
from concurrent.futures import ThreadPoolExecutor

import vcheck
from vcheck import Check, Failure, run, build_harness

MPIEXEC = ["mpiexec", "--allow-run-as-root", "--oversubscribe"]
USER_TAGS = (7, 8, 9)
HDR = 24
EAGER = 3900      # safely below btl_vader_eager_limit (4096 including MPI's headers)


def fnv(lines):
    h = 0xcbf29ce484222325
    for s in lines:
        for c in (s + "\n").encode():
            h = ((h ^ c) * 0x100000001b3) & 0xFFFFFFFFFFFFFFFF
    return h


def parse_case(case):
    """-> dict(k,P,T,D,R,ub,hide,maxlen, scripts=[[(opid,kind,tag,dst,size)]], xfers=[(id,kind,origin,target,size)])"""
    head, *scr = case.split("|")
    w = head.split()
    c = dict(k=int(w[1]), P=int(w[2]), T=int(w[3]), D=int(w[4]), R=int(w[5]), ub=int(w[6]), hseed=int(w[7]),
             hide=int(w[8]), maxlen=int(w[9]), scripts=[], xfers=[])
    for r, s in enumerate(scr):
        ops = []
        for opid, tok in enumerate(s.split()):
            t = tok.rstrip("!")
            if t[0] == "a":
                tag, dst, size = (int(x) for x in t[1:].split(":"))
                ops.append((opid, "a", tag, dst, size))
            elif t[0] in "pg":
                dst, size = (int(x) for x in t[1:].split(":"))
                ops.append((opid, t[0], 0, dst, size))
                c["xfers"].append((len(c["xfers"]), t[0], r, dst, size))
            else:
                ops.append((opid, "w", 0, 0, 0))
        c["scripts"].append(ops)
    return c


class C14(Check):
    id = "C14"
    prop_file = "theories/Properties/Properties_C14.v"
    theorems = ("C14_am_conservation", "C14_am_exactly_once_intact", "C14_am_no_duplicate", "C14_am_quiescent_all_delivered",
                "C14_am_fifo_refuted", "C14_window_conserved", "C14_windows_invariant", "C14_window_no_double", "C14_window_eventually", "C14_dynamic_conserved",
                "C14_dynamic_run", "C14_pending_installed", "C14_next_tag_valid", "C14_next_tag_distinct")
    comp = "ce"
    extract_file = "theories/Extract/Extract_CE.v"
    extracted = ("ce",)
    harness_src = "harness/h_ce.c"
    link_parsec = True
    harness_ldflags = ("-rdynamic",)
    level_text = ("Partial. Proved for every oracle behaviour (any interleaving of sends, MPI matchings and MPI_Testsome reports, any "
                  "subset reported, any window sizes): every active message handed to a tag's callback is a message that was sent, "
                  "with the bytes sent, never twice, and sent = delivered + matched-not-yet-served + in flight; the tested window of "
                  "a tag always holds distinct posted receives and is full after a refill, nothing is dropped or duplicated by the "
                  "packing, no pool entry ever sits in two slots and every posted receive enters the window within req_count picks, for any completion order (1 <= tested <= posted); the dynamic region and the two pending FIFOs conserve the set of dynamic requests "
                  "for any ascending report and any callback behaviour, the region has no hole after compaction, and after a progress "
                  "pass a free slot implies nothing installable is waiting; next_tag stays in [0, MAX-k] and floor(MAX/k) consecutive "
                  "allocations are disjoint.  Per-(source, tag) FIFO delivery is refuted on the model (one completion of another "
                  "source reported late desynchronises the window from MPI's matching order for good) and replayed on the real code "
                  "(finding fifo-desync).  Not proved: eventual delivery (no stall of a matched receive outside the window; argued in "
                  "notes/findings/C14-fifo.md, explored exhaustively for posted <= 6), FIFO under in-order reports, the put/get "
                  "handshake across two processes (its tag hypothesis is false when a get and a put move data the same way: finding "
                  "getput-cross).  The model is tied to the code by replaying, in the extracted model, the MPI_Testsome results and "
                  "put/get calls recorded on 2..4 real ranks and comparing every request array MPI_Testsome was given (persistent and "
                  "dynamic requests named slot by slot), the tags handed out, and the multiset of delivered messages / one-sided "
                  "completions; next_tag is swept directly.")
    level_note = ("MPI is an assumption: per (source, communicator, tag) non-overtaking, receives matched in the order they were started "
                  "(MPI_Startall assumed to start in array order, as Open MPI does), MPI_Testsome returning ascending indices.  "
                  "The harness observes and thins MPI_Testsome through the MPI profiling interface (PMPI); nothing in /repo is changed.")
    technique = ("Coq proofs over an executable model of the slot bookkeeping and of one AM tag over an abstract MPI + differential "
                 "replay of real 2..4-rank runs (public CE API, PMPI-recorded oracle) in the extracted model + direct sweep of next_tag")
    rule = ("'tag MAX v0 k n': n calls of the real static next_tag(k) (both the plain and the CAS branch) vs the model; "
            "'ce k P T D R ub hseed hide maxlen | script...': one mpiexec run of k ranks, window parameters P/T/D/R from 1 up, "
            "every rank sends seeded streams of AMs (sizes 24..maxlen) on 3 tags to random peers and issues put/get of 0..4 MiB, "
            "some from inside callbacks; hide/1000 of the completed slots are withheld per MPI_Testsome call (hide = -1: exactly one "
            "completion, of another source, is withheld once).  "
            "Non-trivial = a ce case with at least 20 AMs or a tag case with a roll-over; distinct = distinct case text")
    trusted = ("PMPI interposition layer of harness/h_ce.c (names requests, thins MPI_Testsome results, never reorders or drops them)",
               "Open MPI 4.1.4 as the MPI implementation under the engine",
               "checks/C14.py merges the per-rank recordings; ocaml/d_ce.ml turns them into model events")
    assumptions = ("MPI semantics: non-overtaking per (source, communicator, tag); posted receives are matched in posting order; "
                   "MPI_Testsome may report any subset of the completed requests, with ascending indices",
                   "tags are registered before ce->enable (the only place where the request arrays are built)",
                   "no more than MAX_MPI_TAG one-sided transfers are outstanding from one process (tag distinctness)",
                   "a get and a put moving data in the same direction between the same two processes are not in flight together "
                   "(finding getput-cross: their tags come from two unrelated counters)")

    # ------------------------------------------------------------------
    def build_sides(self):
        fails = super().build_sides()
        ok, msg = build_harness("harness/h_ce_tag.c", self.hbin() + "_tag", True, build=vcheck.PBUILD,
                                cflags=("-DBUILDING_PARSEC",))
        if not ok:
            fails.append(Failure("correspondence", "harness harness/h_ce_tag.c no longer compiles against /repo", msg))
        return fails

    # ------------------------------------------------------------------
    def gen_ce(self, r, k, P, T, D, R, ub, hide, nam, nput, nget, maxlen, big=False, burst=False):
        # send_am is a blocking MPI_Send: two processes that send each other messages above MPI's eager limit while
        # all posted receives of the tag are used up block for ever (an unsafe MPI program, outside the property).
        # Only rank 0 sends AMs above EAGER; everybody else stays below.
        # one mechanism per data direction x->y: put by x, or get by y (see finding getput-cross)
        mech = {}
        for x in range(k):
            for y in range(k):
                if x != y:
                    mech[(x, y)] = r.pick("pg")
        scripts = []
        for me in range(k):
            items = ["a"] * nam + ["o"] * (nput + nget)
            r.shuffle(items)
            if burst:
                # the one-sided operations back to back (no progress in between): fills the array and the pending FIFOs
                items = ["a"] * nam
                at = r.below(nam + 1)
                items[at:at] = ["O"] * (nput + nget)
            toks = []
            for it in items:
                dst = r.pick([x for x in range(k) if x != me])
                d = "!" if (r.chance(1, 5) and it != "O") else ""
                if it == "a":
                    lim = maxlen if me == 0 else min(maxlen, EAGER)
                    size = r.pick([HDR, HDR + 1, 64, lim, lim - 1, r.range(HDR, lim), r.range(HDR, min(lim, 300))])
                    toks.append("a%d:%d:%d%s" % (r.pick(USER_TAGS), dst, size, d))
                else:
                    size = r.pick([0, 1, 4095, 4096, 4097, 65535, 65536, 65537, r.range(0, 70000), r.range(0, 1 << 20)])
                    if big and r.chance(1, 4):
                        size = r.pick([4 << 20, (4 << 20) - 1, r.range(1 << 20, 4 << 20)])
                    # data me->dst is a put by me; data dst->me is a get by me
                    kinds = [kd for kd in "pg" if (kd == "p" and mech[(me, dst)] == "p") or (kd == "g" and mech[(dst, me)] == "g")]
                    if not kinds:
                        cand = [x for x in range(k) if x != me and (mech[(me, x)] == "p" or mech[(x, me)] == "g")]
                        if not cand:
                            continue
                        dst = r.pick(cand)
                        kinds = [kd for kd in "pg" if (kd == "p" and mech[(me, dst)] == "p") or (kd == "g" and mech[(dst, me)] == "g")]
                    toks.append("%s%d:%d%s" % (r.pick(kinds), dst, size, d))
                if r.chance(1, 3) and it != "O":
                    toks.append("w%d" % r.range(1, 3))
            scripts.append(" ".join(toks))
        return "ce %d %d %d %d %d %d %d %d %d | %s" % (k, P, T, D, R, ub, r.below(1 << 30), hide, maxlen, " | ".join(scripts))

    def cases(self):
        r = self.rng
        out = []
        # next_tag sweep: small boxes exhaustively, then random large values near INT_MAX
        for mx in range(1, 13):
            for k in range(1, mx + 1):
                out.append("tag %d 0 %d %d" % (mx, k, 3 * mx + 2))
                for v0 in (r.range(0, mx), mx):
                    out.append("tag %d %d %d %d" % (mx, v0, k, 2 * mx + 2))
        for _ in range(40 if self.tier == "quick" else 400):
            mx = r.pick([2147483647, r.range(1, 1 << 30), r.range(1, 5000)])
            k = r.pick([1, 1, r.range(1, min(mx, 64))])
            per = mx // k
            v0 = r.pick([0, mx, max(0, per * k - r.range(0, 3) * k), r.range(0, mx)])
            out.append("tag %d %d %d %d" % (mx, v0, k, r.range(1, 40)))
        q = self.tier == "quick"
        am = (lambda a: a) if q else (lambda a: a * 3)
        reps = 1 if q else 6
        for _ in range(reps):
            out.append(self.gen_ce(r, 2, 6, 1, 30, 15, -1, 0, am(120), 8, 8, 4096, big=True))      # the defaults
            out.append(self.gen_ce(r, 3, 1, 1, 2, 1, -1, 0, am(60), 6, 6, 1024, burst=True))                   # minimal windows, pending FIFOs
            out.append(self.gen_ce(r, 4, 3, 2, 3, 1, -1, 0, am(50), 5, 5, 2048, burst=r.chance(1, 2)))
            out.append(self.gen_ce(r, 3, 4, 1, 3, 2, -1, r.range(150, 450), am(80), 6, 6, 512, burst=True))    # thinned Testsome, window of 1
            out.append(self.gen_ce(r, 2, 5, 5, 4, 2, -1, r.range(100, 300), am(150), 8, 8, 65536))   # tested = posted, out-of-order reports, rank 0 sends AMs above the eager limit
            out.append(self.gen_ce(r, 3, 4, 3, 4, 2, -1, r.range(150, 350), am(70), 4, 4, 512))  # out-of-order reports, 2*tested > posted+1
            # the boundary of the pool scan, always present: the window holds (almost) the whole pool, so that a refill after an
            # out-of-order completion has to walk past receives that are still in the window to find the free one
            Pb = r.range(2, 4)
            out.append(self.gen_ce(r, 3, Pb, Pb, 3, 1, -1, r.range(200, 400), am(60), 3, 3, 512))
            Pc = r.range(3, 7)
            out.append(self.gen_ce(r, r.range(2, 3), Pc, r.range((Pc + 1) // 2 + 1, Pc), 4, 2, -1, r.range(150, 350), am(50), 3, 3, 1024))
            out.append(self.gen_ce(r, 2, 3, 2, 6, 3, r.range(2, 5), 0, am(100), 2, 0, 4096))        # tag roll-over
            k = r.range(2, 4)
            P = r.range(1, 8)
            T = r.range(1, P)
            D = r.range(2, 8)
            out.append(self.gen_ce(r, k, P, T, D, r.range(1, D - 1), -1, r.pick([0, 0, r.range(50, 300)]) if T == 1 else 0,
                                   am(r.range(30, 120)), r.range(0, 8), r.range(0, 8), r.pick([64, 512, 4096, 16384])))
        return out

    def nontrivial_key(self, case):
        w = case.split()
        if w[0] == "tag":
            mx, v0, k, n = (int(x) for x in w[1:5])
            return case if v0 + k * n > mx else None
        return case if case.count(" a") >= 20 else None

    def dist(self, cases):
        ce = [c for c in cases if c.startswith("ce ")]
        return {"next_tag_sweeps": len(cases) - len(ce), "mpi_runs": len(ce),
                "ranks": sorted({int(c.split()[1]) for c in ce}),
                "am_messages": sum(c.count(" a") for c in ce),
                "one_sided": sum(len(re.findall(r" [pg]\d", c)) for c in ce),
                "windows_PTDR": sorted({tuple(int(x) for x in c.split()[2:6]) for c in ce}),
                "thinned_testsome_runs": sum(1 for c in ce if int(c.split()[8]) > 0)}

    # ------------------------------------------------------------------
    def impl_timeout(self):
        return 900 if self.tier == "quick" else 3000

    def one_run(self, casefile, i, case, outdir):
        k = int(case.split()[1])
        prefix = os.path.join(outdir, str(i))
        cmd = MPIEXEC + ["-n", str(k), self.hbin(), casefile, prefix, str(i)]
        rc, o, e = run(cmd, timeout=600)
        ranks = []
        for r in range(k):
            try:
                ranks.append(open("%s.%d" % (prefix, r)).read().splitlines())
            except OSError:
                ranks.append(None)
        return rc, (o + e)[-400:], ranks

    @staticmethod
    def merge(case, rc, err, ranks):
        """one observation line: what the model predicts (compared) ## the delivery order (oracle only)"""
        parts, order = [], []
        for r, lines in enumerate(ranks):
            if not lines or not lines[-1].startswith("end "):
                why = "aborted"
                m = re.search(r"MPI_ERR_\w+[^\n]*", err)
                if m:
                    why += " " + m.group(0).replace(" ", "_")[:60]
                parts.append("r%d <%s rc=%d>" % (r, why, rc))
                continue
            status = lines[-1][4:].replace(" ", "_")
            am, os_, xs, snaps, ordr = [], [], [], [], []
            for l in lines:
                w = l.split()
                if not w:
                    continue
                if w[0] == "am":
                    tag, src, opid, ln, ok, pseq, seq = (int(x) for x in w[1:8])
                    am.append((tag, src, opid, ln, ok))
                    ordr.append("%d.%d.%d.%d" % (tag, src, seq, pseq))
                elif w[0] in ("pl", "pr", "gl", "gr"):
                    os_.append(".".join(w))
                elif w[0] == "X":
                    xs.append(w[1])
                elif w[0] in ("S", "F"):
                    snaps.append(l[1:])
            am.sort()
            os_.sort()
            parts.append("r%d %s am:%s | os:%s | X:%s | snaps %d %x" % (
                r, status, "".join(" %d.%d.%d.%d.%d" % a for a in am), "".join(" " + x for x in os_),
                "".join(" " + x for x in xs), len(snaps), fnv(snaps)))
            order.append("r%d:%s" % (r, "".join(" " + x for x in ordr)))
        return " || ".join(parts) + " ## " + " ; ".join(order)

    @staticmethod
    def fifo_deviations(obs):
        """observation only: (rank, tag, source, message number, delivered after number) of per-source order deviations"""
        out = []
        for part in obs.partition(" ## ")[2].split(" ; "):
            m = re.match(r"r(\d+):(.*)", part.strip())
            if not m:
                continue
            last = {}
            for x in m.group(2).split():
                tag, src, seq, pseq = (int(y) for y in x.split("."))
                if seq != last.get((tag, src), -1) + 1:
                    out.append((int(m.group(1)), tag, src, seq, last.get((tag, src), -1)))
                last[(tag, src)] = seq
        return out

    def run_impl(self, casefile, n):
        cases = [l.rstrip("\n") for l in open(casefile) if l.strip() and not l.startswith("#")]
        outdir = casefile + ".d"
        shutil.rmtree(outdir, ignore_errors=True)
        os.makedirs(outdir)
        lines = [None] * len(cases)
        rc, o, e = run([self.hbin() + "_tag", casefile], timeout=300)
        tl = o.splitlines()
        for i, c in enumerate(cases):
            if not c.startswith("ce "):
                lines[i] = tl[i] if i < len(tl) and rc == 0 else "<impl rc=%d: %s>" % (rc, e.strip()[-120:].replace("\n", " "))
        ce = [(i, c) for i, c in enumerate(cases) if c.startswith("ce ")]

        def job(ic):
            i, c = ic
            rc, err, ranks = self.one_run(casefile, i, c, outdir)
            if rc == 124 and all(x is None for x in ranks):
                # the launcher itself ran out of time before any rank could write (overloaded machine): not an observation
                rc, err, ranks = self.one_run(casefile, i, c, outdir)
            if any(x and x[-1].startswith("end TIMEOUT") for x in ranks):
                # a rank gave up waiting: run once more, so that a machine that was too busy is not mistaken for a lost message
                rc, err, ranks = self.one_run(casefile, i, c, outdir)
            return i, self.merge(c, rc, err, ranks)
        with ThreadPoolExecutor(max_workers=4) as ex:
            for i, line in ex.map(job, ce):
                lines[i] = line
        self._impl_lines = lines
        dev = []
        for c, l in zip(cases, lines):
            if c.startswith("ce ") and l:
                d = self.fifo_deviations(l)
                if d:
                    w = c.split()
                    dev.append({"case_PTDR_hide": " ".join(w[2:6] + [w[8]]), "deviations": len(d),
                                "first": "rank %d tag %d source %d: #%d after #%d" % d[0]})
        self.cov["fifo_deviations"] = {
            "note": "observation, not judged: per-(source, tag) delivery order is not part of C14's statement; see "
                    "C14_am_fifo_refuted and notes/findings/C14-fifo.md", "runs_with_deviation": len(dev), "runs": dev[:10]}
        return lines

    def run_model(self, casefile, n):
        lines = super().run_model(casefile, n)
        impl = getattr(self, "_impl_lines", [None] * n)
        out = []
        for m, a in zip(lines, impl):
            # the delivery order is an observation the model does not predict: carried over for the oracle
            if m.startswith("<undefined"):
                # outside the tag-distinctness hypothesis of the model: nothing is predicted, the oracle alone judges
                m = a
            elif a and " ## " in a and not m.startswith("<"):
                m = m + " ## " + a.split(" ## ", 1)[1]
            out.append(m)
        return out

    # ------------------------------------------------------------------
    def oracle(self, case, obs):
        w = case.split()
        if w[0] == "tag":
            mx, v0, k, n = (int(x) for x in w[1:5])
            try:
                ts = [int(x) for x in obs.split(":")[1].split()]
            except Exception:
                return "unparsable observation: " + obs[:80]
            if len(ts) != n:
                return "%d tags for %d calls" % (len(ts), n)
            for t in ts:
                if t < 0 or t + k > mx:
                    return "tag range [%d, %d) leaves [0, MAX=%d]" % (t, t + k, mx)
            if v0 % k == 0:
                per = mx // k
                for a in range(len(ts)):
                    for b in range(a + 1, min(len(ts), a + per)):
                        if abs(ts[a] - ts[b]) < k:
                            return "allocations %d and %d (fewer than MAX/k = %d apart) overlap: %d, %d" % (a, b, per, ts[a], ts[b])
            return None
        c = parse_case(case)
        main, _, order = obs.partition(" ## ")
        ranks = main.split(" || ")
        if len(ranks) != c["k"]:
            return "unparsable observation: " + obs[:80]
        late = []
        for r, txt in enumerate(ranks):
            m = re.match(r"r(\d+) (\S+) am:(.*) \| os:(.*) \| X:(.*) \| snaps (\S+) (\S+)", txt)
            if not m:
                return "rank %d: no result: %s" % (r, txt[:120])
            status = m.group(2)
            got = [tuple(int(x) for x in a.split(".")) for a in m.group(3).split()]
            exp = sorted((tag, src, opid, size) for src, ops in enumerate(c["scripts"]) for (opid, kind, tag, dst, size) in ops
                         if kind == "a" and dst == r)
            seen = {}
            for (tag, src, opid, ln, ok) in got:
                key = (tag, src, opid)
                seen[key] = seen.get(key, 0) + 1
                if seen[key] > 1:
                    return "rank %d: AM tag %d from %d (op %d) delivered twice" % (r, tag, src, opid)
                if not ok:
                    return "rank %d: AM tag %d from %d (op %d) delivered with other bytes than sent" % (r, tag, src, opid)
            expd = {(tag, src, opid): size for (tag, src, opid, size) in exp}
            for (tag, src, opid, ln, ok) in got:
                if (tag, src, opid) not in expd:
                    return "rank %d: AM tag %d from %d (op %d) was never sent to this rank" % (r, tag, src, opid)
                if expd[(tag, src, opid)] != ln:
                    return "rank %d: AM tag %d from %d (op %d) delivered with length %d, sent %d" % (r, tag, src, opid, ln, expd[(tag, src, opid)])
            for key in expd:
                if key not in seen:
                    late.append("rank %d: AM tag %d from %d (op %d) never delivered (%s)" % (r, key[0], key[1], key[2], status))
                    break
            osr = m.group(4).split()
            expo = []
            for (i, kind, o, t, size) in c["xfers"]:
                if o == r:
                    expo.append("pl.%d.%d" % (i, t) if kind == "p" else "gl.%d.%d.1" % (i, t))
                if t == r:
                    expo.append("pr.%d.%d.%d.1" % (i, o, size) if kind == "p" else "gr.%d" % i)
            for x in osr:
                if osr.count(x) > 1:
                    return "rank %d: one-sided completion %s fired twice" % (r, x)
                if x not in expo:
                    f = x.split(".")
                    what = {"pl": "put (origin callback)", "pr": "put (target callback)", "gl": "get (origin callback)", "gr": "get (target callback)"}[f[0]]
                    same = [y for y in expo if y.split(".")[:2] == f[:2]]
                    if same:
                        return "rank %d: %s of transfer %s: bytes/length differ from the request (%s, expected %s)" % (r, what, f[1], x, same[0])
                    return "rank %d: unexpected one-sided completion %s" % (r, x)
            for x in expo:
                if x not in osr:
                    late.append("rank %d: one-sided completion %s never fired (%s)" % (r, x, status))
                    break
            if status != "ok" and not late:
                late.append("rank %d: %s" % (r, status))
            xs = [int(x) for x in m.group(5).split()]
            mx = c["ub"] if c["ub"] >= 0 else 2147483647
            for a in range(len(xs)):
                if xs[a] < 0 or xs[a] + 1 > mx:
                    return "rank %d: data tag %d outside [0, %d)" % (r, xs[a], mx)
                for b in range(a + 1, min(len(xs), a + mx)):
                    if xs[a] == xs[b]:
                        return "rank %d: data tag %d handed out twice within %d allocations" % (r, xs[a], mx)
        if late:
            # the rank that gave up first names what is missing; the others were killed by mpiexec
            late.sort(key=lambda x: (0 if "TIMEOUT" in x else 1 if "never" in x else 2))
            return late[0]
        # per-(source, tag) FIFO is not part of C14's statement: deviations are recorded in the evidence (fifo_deviations), never judged
        return None

    def signature(self, case, obs):
        w = case.split()
        if w[0] == "tag":
            return "next-tag"
        why = self.oracle(case, obs) or ""
        c = parse_case(case)
        dirs = {}
        for (i, kind, o, t, size) in c["xfers"]:
            d = (o, t) if kind == "p" else (t, o)
            dirs.setdefault(d, set()).add(kind)
        cross = any(len(v) == 2 for v in dirs.values())
        if cross and ("no result" in why or "one-sided" in why or "bytes/length" in why or "never" in why):
            return "getput-cross"
        for key, sig in (("twice", "dup"), ("other bytes", "corrupt"), ("never delivered", "am-lost"), ("never sent", "am-ghost"),
                         ("length", "am-length"), ("never fired", "os-lost"), ("bytes/length", "os-corrupt"),
                         ("data tag", "tag"), ("no result", "abort"), ("TIMEOUT", "timeout"), ("KILLED", "timeout")):
            if key in why:
                return sig
        return "other"

    def search_cases(self):
        r = vcheck.Rng(self.seed + 77)
        saved, self.rng = self.rng, r
        out = [self.gen_ce(r, 3, 2, 1, 2, 1, -1, 0, 60, 6, 6, 512),
               self.gen_ce(r, 2, 4, 2, 3, 1, -1, 0, 120, 8, 8, 4096),
               self.gen_ce(r, 4, 6, 3, 4, 2, -1, 0, 60, 6, 6, 1024),
               self.gen_ce(r, 3, 3, 1, 2, 1, -1, 300, 80, 6, 6, 512)]
        self.rng = saved
        return out
