from vcheck import Check

MAXD = 6


def parse_case(case):
    f = [x.strip() for x in case.split("|")]
    hd = [int(x) for x in f[0].split()]
    D = hd[0]
    cf = [hd[1 + 2 * i] for i in range(D)]
    df = [hd[2 + 2 * i] for i in range(D)]
    tv = [int(x) for x in f[1].split()]
    nt, q, ths = tv[0], 1, []
    for _ in range(nt):
        h, n = tv[q], tv[q + 1]
        ths.append((h, tv[q + 2:q + 2 + n]))
        q += 2 + n
    sched = [int(x) for x in f[2].split()]
    flag = int(f[3]) if len(f) > 3 and f[3] else 0
    return D, cf, df, ths, sched, flag


def parse_fu(case):
    """first-use case: fu D c1 d1 .. | NT {nops op*}* | sched | 1"""
    f = [x.strip() for x in case[2:].split("|")]
    hd = [int(x) for x in f[0].split()]
    D = hd[0]
    cf = [hd[1 + 2 * i] for i in range(D)]
    df = [hd[2 + 2 * i] for i in range(D)]
    tv = [int(x) for x in f[1].split()]
    nt, q, opss = tv[0], 1, []
    for _ in range(nt):
        n = tv[q]
        opss.append(tv[q + 1:q + 1 + n])
        q += 1 + n
    sched = [int(x) for x in f[2].split()]
    return D, cf, df, opss, sched


def interleaved(s):
    return any(s[i] != s[i + 1] and s[i] in s[i + 2:] for i in range(len(s) - 2))


class C34(Check):
    id = "C34"
    prop_file = "theories/Properties/Properties_C34.v"
    theorems = ("C34_ctor_order", "C34_dtor_order", "C34_dtor_each_once", "C34_ctor_each_once",
                "C34_depth_counted", "C34_arrays_in_block",
                "C34_count_is_refs_held", "C34_destroyed_at_most_once", "C34_zero_is_last",
                "C34_nothing_after_destroy", "C34_live_trace_positive", "C34_no_touch_after_destroy",
                "C34_destroyed_iff_no_reference_left", "C34_all_released_destroyed_once",
                "C34_leaked_never_destroyed", "C34_whole_life", "C34_undisciplined_refuted",
                "C34_first_use_init_once", "C34_first_use_mutex", "C34_first_use_lives", "C34_first_use_finished",
                "C34_first_use_no_recheck_refuted")
    comp = "obj"
    extract_file = "theories/Extract/Extract_Obj.v"
    extracted = ("obj",)
    harness_src = "harness/h_obj.c"
    harness_cflags = ("-DBUILDING_PARSEC",)
    link_parsec = False      # parsec_object.c is compiled inside the harness (free() hooked, atomics yielding)
    race = True              # also explore schedules in which every access to the reference-count word is a scheduling point
    level_text = ("(a) For EVERY class chain (any depth, any pattern of NULL constructors/destructors, any content of the fresh "
                  "allocation) the model of parsec_class_initialize (both loops, one block holding the two NULL-terminated arrays) "
                  "makes construction run exactly the non-NULL constructors base->derived and destruction exactly the non-NULL "
                  "destructors derived->base, each once; cls_depth is the chain length; all writes stay inside the block. "
                  "(b) For ANY number of threads, ANY per-thread retain/release lists obeying the reference discipline, ANY schedule "
                  "(every prefix of every run): count = references held >= 0; at most one update returns 0; that release is the last "
                  "atomic update ever performed, the trace then ends with the destructor chain and free, exactly once; no update "
                  "touches a destroyed object; destroyed iff no reference is left; all released => destroyed exactly once; a leaked "
                  "reference => never destroyed. C34_undisciplined_refuted keeps the witness of what a retain without a held "
                  "reference does (double destruction). (c) First use: for ANY number of threads creating an object of the same not yet "
                  "initialised class and ANY schedule over lock/unlock/fetch-add, the arrays are built exactly once and equal those of one "
                  "sequential parsec_class_initialize, class_lock is a mutex, and every thread's object lives one complete life "
                  "(constructors base->derived before first use, destructors derived->base exactly when its last reference goes); "
                  "C34_first_use_no_recheck_refuted: without the re-test under the lock the arrays are built twice. Tie: the real parsec_object.{h,c} run under the same schedules in coroutines; "
                  "constructor log, full event trace (thread:returned count, destructors, free), destroy/late counters, final count, "
                  "cls_depth, per-thread step counts and the PARSEC_OBJ_CONSTRUCT/DESTRUCT sequences are compared with the extracted "
                  "model. Full level.")
    level_note = ("Trusted: Coq kernel, extraction, cosched/interpose.h (a yield in front of the atomic fetch-add of parsec_obj_update), "
                  "the harness hooks (fetch-add logger, free() quarantine of the object's block). Sequentially consistent atomics. "
                  "Model granularity: a release is ONE step (fetch-add, and when it reads 0 the destructor chain and free); this is "
                  "without loss for the property because the theorems show that no other update can follow the one that reads 0. "
                  "First-use model: the code between lock and unlock (re-test, both loops, cls_initialized = 1, save_class) is one step "
                  "(justified by the mutex theorem; the race build explores the finer interleavings of the plain accesses to "
                  "cls_initialized and the arrays, fresh blocks reading as zeros there). Not modelled: PARSEC_DEBUG_PARANOID fields, hand-over of a reference from one thread to another after "
                  "the start (covered only as an initial distribution). int32 count: wrap written into the model, theorems assume "
                  "references + retains < 2^31. Race exploration (search only, no proof): a second build (clang -fsanitize=thread "
                  "+ tsanrt.c) makes every plain or atomic access to obj_reference_count a scheduling point and judges the "
                  "observation (values RETURNED by parsec_obj_update, destructors, free) with the same oracle.")
    technique = ("Coq: structural induction over class chains for the array construction; invariant over an atomic-step model lifted "
                 "to all schedules (fold_left_inv). Controlled-schedule differential run (ucontext coroutines, macro-interposed "
                 "atomics, hooked free) of the real PARSEC_OBJ_NEW/RETAIN/RELEASE/CONSTRUCT/DESTRUCT against the extracted model")
    rule = ("hierarchies (depth 1..6, every NULL pattern up to depth 3 exhaustively, random above) x reference distributions over "
            "1..6 threads (disciplined+balanced, disciplined+leaking, undisciplined) x schedules (sequential, round-robin, reversed, "
            "final releases racing, random); first-use cases: 2..4 threads PARSEC_OBJ_NEW the same fresh class of depth 1..6 then "
            "retain/release their own object, schedules all-start-first / sequential / round-robin / random; non-trivial = >= 2 threads with operations and an interleaving schedule (key: case "
            "text), or a distinct hierarchy pattern (key: pattern)")
    trusted = ("cosched.h/interpose.h scheduling points; harness/h_obj.c hooks: parsec_atomic_fetch_add_int32 logger, free() quarantine",)
    assumptions = ("sequentially consistent atomics (parsec_atomic_fetch_add_int32 is a full-barrier builtin)",
                   "reference discipline: a thread retains/releases only while it holds a reference (initially distributed or retained by itself)",
                   "fewer than 2^31 references + retains")

    # ------------------------------------------------------------------ generators
    def hier(self, r):
        D = r.pick([1, 2, 3, 4, 1, 2, 3, 4, 5, 6])
        k = r.below(5)
        if k == 0:
            fl = [(1, 1)] * D
        elif k == 1:
            fl = [(0, 0)] * D
        else:
            fl = [(r.below(2), r.below(2)) for _ in range(D)]
        return D, fl

    def hier_txt(self, D, fl):
        return "%d %s" % (D, " ".join("%d %d" % x for x in fl))

    def disc_ops(self, r, h, leak):
        """a disciplined walk: every op is done while holding >= 1; ends at 0 unless leaking"""
        ops, cur = [], h
        if h == 0:
            return ops
        for _ in range(r.range(0, 5)):
            if r.chance(2, 5):
                ops.append(1); cur += 1
            elif cur > 1:
                ops.append(0); cur -= 1
        if leak:
            keep = r.range(1, cur)
            ops += [0] * (cur - keep)
        else:
            ops += [0] * cur
        return ops

    def threads(self, r, flag):
        nt = r.range(1, 6)
        if flag == 0:
            held = [r.below(3) for _ in range(nt)]
            if sum(held) < 1:
                held[r.below(nt)] = 1
            ths = []
            for h in held:
                ops = [r.below(2) for _ in range(r.range(0, 5))]
                ths.append((h, ops))
            # make sure the stream really breaks the discipline somewhere
            t = r.below(nt)
            ths[t] = (0, [1, 0]) if r.chance(1, 2) else (ths[t][0], ths[t][1] + [0] * (ths[t][0] + 1 + sum(1 for o in ths[t][1] if o)))
            if sum(h for h, _ in ths) < 1:
                ths.append((1, [0]))
            return ths
        held = [r.pick([0, 1, 1, 1, 2, 3]) for _ in range(nt)]
        if sum(held) < 1:
            held[r.below(nt)] = 1
        leaker = r.pick([t for t in range(nt) if held[t] > 0]) if flag == 2 else -1
        return [(h, self.disc_ops(r, h, t == leaker)) for t, h in enumerate(held)]

    def thr_txt(self, ths):
        return " ".join([str(len(ths))] + [" ".join([str(h), str(len(o))] + [str(x) for x in o]) for h, o in ths])

    def sched(self, r, ths):
        nt = len(ths)
        need = [len(o) + 1 for _, o in ths]
        kind = r.below(7)
        if kind == 0:      # sequential
            return [t for t in range(nt) for _ in range(need[t])]
        if kind == 1:      # round robin
            return [t for _ in range(max(need)) for t in range(nt)]
        if kind == 2:      # reverse round robin
            return [t for _ in range(max(need)) for t in reversed(range(nt))]
        if kind == 3:      # everything but the last operation of each thread, then the last ones race in a random order
            s = [t for t in range(nt) for _ in range(need[t] - 1)]
            return s + r.shuffle(range(nt))
        if kind == 4:      # all threads reach their first scheduling point, then random
            return list(range(nt)) + [r.below(nt) for _ in range(r.range(0, sum(need)))]
        if kind == 5:      # reversed sequential
            return [t for t in reversed(range(nt)) for _ in range(need[t])]
        return [r.below(nt) for _ in range(r.range(0, sum(need) + nt))]

    def cases(self):
        r = self.rng
        out = []
        # exhaustive NULL patterns up to depth 3 (4 + 16 + 64 hierarchies), two threads racing on the last release
        for D in (1, 2, 3):
            for m in range(4 ** D):
                fl = [((m >> (2 * i)) & 1, (m >> (2 * i + 1)) & 1) for i in range(D)]
                ths = [(1, [1, 0, 0]), (1, [0])]
                out.append("%s | %s | %s | 1" % (self.hier_txt(D, fl), self.thr_txt(ths),
                                                 " ".join(map(str, self.sched(r, ths)))))
        N = 2500 if self.tier == "quick" else 60000
        for _ in range(N):
            D, fl = self.hier(r)
            flag = r.pick([1, 1, 1, 1, 1, 1, 2, 0])
            ths = self.threads(r, flag)
            out.append("%s | %s | %s | %d" % (self.hier_txt(D, fl), self.thr_txt(ths),
                                              " ".join(map(str, self.sched(r, ths))), flag))
        for _ in range(500 if self.tier == "quick" else 10000):
            out.append(self.fu_case(r, race=False))
        return out

    # first use of a fresh class by several threads
    def fu_case(self, r, race):
        D = r.pick([1, 2, 3, 4, 2, 3, 4, 4, 5, 6])
        k = r.below(4)
        fl = [(1, 1)] * D if k == 0 else [(r.below(2), r.below(2)) for _ in range(D)]
        nt = r.pick([2, 2, 3, 3, 3, 4])
        opss = [self.disc_ops(r, 1, False) for _ in range(nt)]
        need = [len(o) + 4 for o in opss]
        kind = r.below(5)
        if race:       # every plain access is a step there: long random prefixes, the rest is round-robin
            s = [] if kind == 0 else [r.below(nt) for _ in range(r.range(nt, 60 * nt))]
        elif kind == 0:    # all threads read cls_initialized == 0 first, then random
            s = r.shuffle(range(nt)) + [r.below(nt) for _ in range(r.range(0, sum(need)))]
        elif kind == 1:    # sequential: only the first thread initialises
            s = [t for t in range(nt) for _ in range(need[t])]
        elif kind == 2:    # round robin
            s = []
        elif kind == 3:    # one thread gets as far as the unlock, the others arrive meanwhile
            a = r.shuffle(range(nt))
            s = [a[0], a[0]] + a[1:] + a[1:] + [a[0]] + [r.below(nt) for _ in range(r.range(0, sum(need)))]
        else:
            s = [r.below(nt) for _ in range(r.range(0, sum(need) + nt))]
        return "fu %s | %s | %s | 1" % (self.hier_txt(D, fl),
                                        " ".join([str(nt)] + [" ".join([str(len(o))] + [str(x) for x in o]) for o in opss]),
                                        " ".join(map(str, s)))

    def search_cases(self):
        r = self.rng.fork()
        out = []
        for D in (1, 2, 3, 4):
            for m in range(4 ** D):
                fl = [((m >> (2 * i)) & 1, (m >> (2 * i + 1)) & 1) for i in range(D)]
                for ths in ([(1, [0])], [(1, [0]), (1, [0])], [(2, [0, 0]), (1, [1, 0, 0]), (0, [])]):
                    out.append("%s | %s | %s | 1" % (self.hier_txt(D, fl), self.thr_txt(ths),
                                                     " ".join(map(str, self.sched(r, ths)))))
        return out

    def race_cases(self, cases):
        # race exploration: plain accesses to obj_reference_count are scheduling points too (an update may
        # take several steps), so the disciplined cases with >= 2 busy threads get new, longer schedules:
        # pure round-robin, "everything but the last operation, then the last ones interleave", random
        out, r = [], self.rng.fork()
        for nt in range(2, 7):            # directed: nt threads drop the last nt references together
            for fl in ("2 1 1 1 1", "1 0 1", "4 1 0 0 1 1 1 0 0"):
                ths = [(1, [0])] * nt
                out.append("%s | %s | | 1" % (fl, self.thr_txt(ths)))
                out.append("%s | %s | %s | 1" % (fl, self.thr_txt(ths), " ".join(map(str, r.shuffle(range(nt)) * 2))))
                ths = [(1, [1, 0, 0])] * nt
                out.append("%s | %s | %s | 1" % (fl, self.thr_txt(ths), " ".join(map(str, r.shuffle(list(range(nt)) * 3)))))
        # first use of a fresh class: plain accesses to cls_initialized, the class descriptor, the arrays and
        # the objects are scheduling points
        for _ in range(400 if self.tier == "quick" else 4000):
            out.append(self.fu_case(r, race=True))
        for c in cases:
            try:
                D, cf, df, ths, sched, flag = parse_case(c)
            except Exception:
                continue
            nt = len(ths)
            if flag == 0 or sum(1 for _, o in ths if o) < 2:
                continue
            need = [len(o) + 1 for _, o in ths]
            k = r.below(4)
            if k == 0:
                s = []
            elif k == 1:
                s = [t for t in range(nt) for _ in range(max(0, need[t] - 1))]
                s += r.shuffle(list(range(nt)) * 3)
            else:
                s = [r.below(nt) for _ in range(r.range(nt, 3 * sum(need)))]
            f = [x.strip() for x in c.split("|")]
            f[2] = " ".join(map(str, s))
            out.append(" | ".join(f))
        return out

    # ------------------------------------------------------------------ bookkeeping
    def nontrivial_key(self, case):
        if case.startswith("fu"):
            try:
                D, cf, df, opss, sched = parse_fu(case)
            except Exception:
                return None
            # at least two threads reach parsec_class_initialize before the class is initialised
            first = []
            for t in sched:
                if t in first:
                    break
                first.append(t)
            return case if (len(first) >= 2 or not sched) and len(opss) >= 2 else ("fu-hier", D, tuple(cf), tuple(df))
        try:
            D, cf, df, ths, sched, flag = parse_case(case)
        except Exception:
            return None
        busy = sum(1 for _, o in ths if o)
        if busy >= 2 and interleaved(sched):
            return case
        return ("hier", D, tuple(cf), tuple(df))

    def dist(self, cases):
        d = {"depth_hist": {}, "threads_hist": {}, "disciplined_balanced": 0, "disciplined_leak": 0, "undisciplined": 0,
             "interleaved": 0, "ops_total": 0}
        d["first_use"] = sum(1 for c in cases if c.startswith("fu"))
        for c in cases:
            try:
                D, cf, df, ths, sched, flag = parse_case(c)
            except Exception:
                continue
            d["depth_hist"][str(D)] = d["depth_hist"].get(str(D), 0) + 1
            d["threads_hist"][str(len(ths))] = d["threads_hist"].get(str(len(ths)), 0) + 1
            d[{1: "disciplined_balanced", 2: "disciplined_leak", 0: "undisciplined"}[flag]] += 1
            d["interleaved"] += int(interleaved(sched))
            d["ops_total"] += sum(len(o) for _, o in ths)
        return d

    # ------------------------------------------------------------------ the property, on the implementation's observation
    def judge(self, case, obs, race=False):
        """returns (signature, message) or None.  race=True: the observation comes from the race-exploration
        build, where the logged value is what parsec_obj_update RETURNED and the log order is the order of
        the returns; only property-level facts are judged there (not the arithmetic of each returned value)"""
        if case.startswith("fu"):
            return self.judge_fu(case, obs)
        try:
            D, cf, df, ths, sched, flag = parse_case(case)
        except Exception:
            return None            # malformed case: compared with the model only
        if obs.startswith("<bad case>"):
            return None
        if obs.startswith("<impl") or "<deadlock>" in obs or obs.startswith("<out of"):
            return ("crash", "the implementation did not complete: " + obs[:120])
        try:
            f = [x.strip() for x in obs.split("|")]
            depth = int(f[0].split("=")[1])
            ctor = [int(x) for x in f[1].split()[1:]]
            ev = f[2].split()[1:]
            cnt = dict(x.split("=") for x in f[3].split())
            destroys, late, rc = int(cnt["destroys"]), int(cnt["late"]), int(cnt["rc"])
            st = f[5].split()[1:]
        except Exception:
            return ("unparsable", "unparsable observation " + obs[:120])
        exp_c = [i + 1 for i in range(D) if cf[i]]
        exp_d = [i + 1 for i in reversed(range(D)) if df[i]]
        # cls_depth is compared with the model only: the property does not speak about it
        if ctor != exp_c:
            return ("ctor-order", "constructors ran as %s, expected exactly %s (base first)" % (ctor, exp_c))
        if st != ["c%d" % i for i in exp_c] + ["d%d" % i for i in exp_d]:
            return ("static-order", "PARSEC_OBJ_CONSTRUCT/DESTRUCT ran %s, expected c%s then d%s" % (st, exp_c, exp_d))
        if flag == 0:
            return None            # no discipline, no promise: compared with the model only
        total = sum(h for h, _ in ths)
        nops = sum(len(o) for _, o in ths)
        if destroys > 1 or ev.count("F") > 1:
            return ("destroyed-twice", "the object was destroyed %d times (free logged %d times): %s"
                    % (destroys, ev.count("F"), " ".join(ev)))
        # walk the event trace
        pos = [0] * len(ths)
        cur = total
        zero_at = None
        dl = []
        frees = 0
        for i, e in enumerate(ev):
            if e[0] == "d":
                if zero_at is None:
                    return ("dtor-early", "destructor %s ran before any release observed 0: %s" % (e, " ".join(ev)))
                dl.append(int(e[1:]))
            elif e == "F":
                if zero_at is None:
                    return ("free-early", "the object was freed before any release observed 0: %s" % " ".join(ev))
                frees += 1
            else:
                t, v = [int(x) for x in e.split(":")]
                if zero_at is not None:
                    return ("touch-after-destroy", "thread %d updated the count (-> %d) after a release had observed 0: %s"
                            % (t, v, " ".join(ev)))
                if t < 0 or t >= len(ths) or pos[t] >= len(ths[t][1]):
                    return ("extra-update", "unexpected update %s: %s" % (e, " ".join(ev)))
                o = ths[t][1][pos[t]]
                pos[t] += 1
                cur += 1 if o else -1
                if v != cur and not race:
                    return ("lost-update", "update %d of thread %d returned %d, the count of performed retains/releases gives %d: %s"
                            % (pos[t], t, v, cur, " ".join(ev)))
                if v < 0:
                    return ("negative", "the count went negative: %s" % " ".join(ev))
                if v == 0:
                    if o:
                        return ("retain-zero", "a retain returned 0")
                    zero_at = i
        if late != 0:
            return ("touch-after-destroy", "%d atomic updates were performed on the destroyed object" % late)
        if sum(pos) != nops:
            return ("missing-update", "%d of %d operations performed an atomic update: %s" % (sum(pos), nops, " ".join(ev)))
        if flag == 1:
            if zero_at is None or destroys == 0:
                return ("never-destroyed", "all %d references were released (final count %d) but no release destroyed the object: %s"
                        % (total, rc, " ".join(ev)))
            if destroys != 1 or frees != 1:
                return ("destroyed-twice", "the object was destroyed %d times (free logged %d times)" % (destroys, frees))
            if dl != exp_d:
                return ("dtor-order", "destructors ran as %s, expected exactly %s (derived first, each once)" % (dl, exp_d))
            if ev[zero_at + 1:] != ["d%d" % i for i in exp_d] + ["F"]:
                return ("dtor-order", "after the last release the trace is %s, expected destructors %s then free"
                        % (ev[zero_at + 1:], exp_d))
            if rc != 0:
                return ("final-count", "final count %d after all references were released" % rc)
        else:
            if zero_at is not None or destroys != 0 or dl or frees:
                return ("destroyed-early", "a reference is still held (count should be %d) but the object was destroyed: %s"
                        % (cur, " ".join(ev)))
            if rc != cur or rc < 1:
                return ("final-count", "final count %d, references still held %d" % (rc, cur))
        return None

    def judge_fu(self, case, obs):
        """first use of a fresh class: every thread's own object must live exactly one complete life"""
        try:
            D, cf, df, opss, sched = parse_fu(case)
        except Exception:
            return None
        if obs.startswith("<bad case>"):
            return None
        if obs.startswith("<") or "<deadlock>" in obs:
            return ("crash", "the implementation did not complete: " + obs[:120])
        try:
            f = [x.strip() for x in obs.split("|")]
            logs = [x.split()[1:] for x in f[1:1 + len(opss)]]
            if len(logs) != len(opss) or not f[1 + len(opss)].startswith("steps"):
                raise ValueError
        except Exception:
            return ("unparsable", "unparsable observation " + obs[:120])
        exp_c = ["c%d" % (i + 1) for i in range(D) if cf[i]]
        exp_d = ["d%d" % (i + 1) for i in reversed(range(D)) if df[i]]
        for t, (ops, lg) in enumerate(zip(opss, logs)):
            nc = 0
            while nc < len(lg) and lg[nc][0] == "c":
                nc += 1
            if lg[:nc] != exp_c:
                return ("first-use-ctor", "thread %d's object of the fresh class was constructed by %s, expected exactly %s (base first): %s"
                        % (t, lg[:nc], exp_c, " ".join(lg)))
            rest = lg[nc:]
            cur, i = 1, 0
            for o in ops:
                if i >= len(rest) or rest[i][0] != ":":
                    return ("first-use-update", "thread %d: operation %d left no update in its log: %s" % (t, i + 1, " ".join(lg)))
                cur += 1 if o else -1
                if int(rest[i][1:]) != cur:
                    return ("first-use-update", "thread %d: update %d returned %s, expected %d: %s" % (t, i + 1, rest[i][1:], cur, " ".join(lg)))
                i += 1
                if cur == 0:
                    break
            tail = rest[i:]
            if cur == 0 and tail != exp_d + ["F"]:
                return ("first-use-dtor", "thread %d dropped the last reference of its object and then ran %s, expected destructors %s "
                        "(derived first, each once) then free: %s" % (t, tail, exp_d, " ".join(lg)))
            if cur != 0 and tail:
                return ("first-use-early", "thread %d's object still has %d references but %s ran: %s" % (t, cur, tail, " ".join(lg)))
        return None

    def oracle(self, case, obs):
        r = self.judge(case, obs)
        return r[1] if r else None

    def race_oracle(self, case, obs):
        r = self.judge(case, obs, race=True)
        return r[1] if r else None

    def signature(self, case, obs):
        # the property-level verdict names the class of a failing input; the finer T-sched verdict otherwise
        r = self.judge(case, obs, race=True) or self.judge(case, obs)
        return r[0] if r else "none"
