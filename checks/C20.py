from vcheck import Check

UINT_MAX = 4294967295
NBVPS = (1, 2, 3, 4, 6, 8, 12)


def _ceil(a, b):
    return (a + b - 1) // b


class C20(Check):
    id = "C20"
    prop_file = "theories/Properties/Properties_C20.v"
    theorems = ()  # filled below
    comp = "dist"
    extract_file = "theories/Extract/Extract_Dist.v"
    extracted = ("dist",)
    harness_src = "harness/h_dist.c"
    link_parsec = True
    level_text = ("Theorems for every process grid P,Q >= 1, every matrix/tile size and legal submatrix, every k-cyclicity "
                  "kp,kq >= 1 and grid offset: rank_of < P*Q; the slot data_of uses is a bijection between the tiles a rank "
                  "owns and [0, nb_local_tiles) (in range, injective, onto); the counts of all ranks add up to lmt*lnt (the "
                  "stored triangle for the symmetric collection); data_key/key2coords round trip; vpid < nb_vp; tile memory "
                  "ranges disjoint. Same for symmetric (lower with lnt <= lmt, upper on square tile grids), tabular, band and "
                  "the diagonal vector distribution on square grids; the key stored by data_of maps back to the tile for every "
                  "kp,kq (k-cyclic data_of repaired by fix 12f6606, the earlier code is kept as a refuted regression "
                  "witness). Refuted with witnesses (known findings): the vector ROW/COL distributions, the vector DIAG "
                  "init on non-square grids. The "
                  "model is tied to the code by running every rank's view of the real collections against the extracted "
                  "model. The k-cyclic view is proved to be a permutation of the submatrix's tiles (cycle walking terminates, "
                  "injective, onto) composed with the plain functions. Partial: LAPACK storage offsets are modelled and "
                  "tested, not proved; sum/onto statements are for the whole matrix, not per submatrix.")
    level_note = ("Trusted: Coq kernel, extraction, the harness (includes the distribution sources, redirects "
                  "parsec_vpmap_get_nb_vp to an input, replaces data_map by a padded array and mat by a fake base). "
                  "Assumes no int overflow (all products far below 2^31) and float-exact ceil(sqrt(nb_vp)) (nb_vp < 2^20).")
    technique = ("Coq proof (closed forms of the counting loops, mixed-radix decomposition of tile indices, sums over "
                 "the process grid) + differential run of the real collections, every rank impersonated, against the "
                 "extracted model + property oracle on the implementation's observations")
    rule = ("bc: exhaustive box P,Q<=3, kp,kq<=3, all grid offsets, mt,nt<=7 (whole matrix), plus sampled grids up to 32 "
            "ranks, up to 40x40 tiles, submatrices, both storages; kv, sym (exhaustive small square box + sampled, "
            "rectangular included), vec (box P,Q<=4 x 3 distributions + sampled), tab (random/cyclic tables), band: "
            "sampled. Non-trivial = at least 2 ranks; distinct = distinct case text")
    trusted = ("harness/h_dist.c: every rank is impersonated in one process through the myrank argument of the init "
               "functions; data_map is replaced by a zero-padded array so that an out-of-range slot is observed instead "
               "of corrupting the heap; each data_of result is destroyed again so that every call builds a fresh "
               "parsec_data_t; a watchdog on the CPU time of the harness thread (not wall time) reports non-terminating loops; a hang of the vector init is reported only after it was confirmed by a second run of the same init with a 10x larger limit",)
    assumptions = ("int arithmetic does not overflow (sizes in the generator keep every product below 2^31)",
                   "symmetric collections: lower storage needs lnt <= lmt, upper storage a square tile grid (outside "
                   "this domain the slot can leave the data map: C20_sym_nonsquare_refuted); such cases are run for "
                   "the correspondence but not judged by the oracle",
                   "band: sub-collections without submatrix offsets, band matrix of at least 2*band_size-1 tile rows")

    # ------------------------------------------------------------------ cases
    def _bc(self, P, Q, mb, nb, lm, ln, i, j, m, n, kp, kq, ip, jq, nbvp, st, kind="bc"):
        return "%s %d %d %d %d %d %d %d %d %d %d %d %d %d %d %d %d" % (
            kind, P, Q, mb, nb, lm, ln, i, j, m, n, kp, kq, ip, jq, nbvp, st)

    def cases(self):
        r = self.rng
        quick = self.tier == "quick"
        out = []
        # --- 2D block cyclic: exhaustive small box (whole matrix, tile storage)
        mtmax = 7
        for P in (1, 2, 3):
            for Q in (1, 2, 3):
                for kp in (1, 2, 3):
                    for kq in (1, 2, 3):
                        for ip in range(P):
                            for jq in range(Q):
                                for mt in range(1, mtmax + 1):
                                    for nt in range(1, mtmax + 1):
                                        h = (P * 31 + Q * 17 + kp * 7 + kq * 5 + ip * 3 + jq + mt * 11 + nt * 13)
                                        mb, nb = 1 + h % 3, 1 + (h // 3) % 3
                                        lm = mt * mb - (h % mb)
                                        ln = nt * nb - ((h // 5) % nb)
                                        out.append(self._bc(P, Q, mb, nb, lm, ln, 0, 0, lm, ln, kp, kq, ip, jq,
                                                            NBVPS[h % len(NBVPS)], 1))
        # --- sampled, bigger, submatrices, both storages
        for _ in range(700 if quick else 12000):
            P, Q = r.pick([(r.range(1, 4), r.range(1, 4)), (r.range(1, 8), r.range(1, 4)), (1, r.range(1, 16)),
                           (r.range(1, 16), 1), (4, 4), (2, 8)])
            if P * Q > 32:
                P, Q = 4, 8
            kp, kq = r.pick([(1, 1), (r.range(1, 5), r.range(1, 5)), (r.range(1, 3), 1), (1, r.range(1, 3))])
            mb, nb = r.range(1, 5), r.range(1, 5)
            lmt, lnt = r.pick([(r.range(1, 40), r.range(1, 40)), (r.range(1, 12), r.range(1, 12)),
                               (P * kp * r.range(1, 3) + r.range(-1, 1), Q * kq * r.range(1, 3) + r.range(-1, 1))])
            lmt, lnt = max(1, lmt), max(1, lnt)
            lm = lmt * mb - r.below(mb)
            ln = lnt * nb - r.below(nb)
            if r.chance(1, 2):
                i, j, m, n = 0, 0, lm, ln
            else:
                i = r.below(lm)
                j = r.below(ln)
                if r.chance(1, 2):
                    i -= i % mb
                    j -= j % nb
                m = r.range(1, lm - i)
                n = r.range(1, ln - j)
            st = 1 if r.chance(3, 4) else 0
            out.append(self._bc(P, Q, mb, nb, lm, ln, i, j, m, n, kp, kq, r.below(P), r.below(Q), r.pick(NBVPS), st))
        # --- k-cyclic view of a plain distribution
        for _ in range(500 if quick else 8000):
            P, Q = r.range(1, 4), r.range(1, 4)
            kp, kq = r.range(1, 4), r.range(1, 4)
            mb, nb = r.range(1, 3), r.range(1, 3)
            lmt, lnt = r.pick([(r.range(1, 8), r.range(1, 8)), (r.range(1, 30), r.range(1, 30))])
            lm, ln = lmt * mb - r.below(mb), lnt * nb - r.below(nb)
            i = j = 0
            m, n = lm, ln
            if r.chance(1, 4):
                i, j = mb * r.below(lmt), nb * r.below(lnt)
                m, n = r.range(1, lm - i), r.range(1, ln - j)
            out.append(self._bc(P, Q, mb, nb, lm, ln, i, j, m, n, kp, kq, r.below(P), r.below(Q), r.pick(NBVPS), 1, "kv"))
        # --- symmetric: exhaustive small square box, then sampled (rectangular ones included)
        for P in (1, 2, 3):
            for Q in (1, 2, 3):
                for T in range(1, 9):
                    for uplo in (121, 122):
                        mb = 1 + (P + Q + T) % 3
                        out.append("sym %d %d %d %d %d %d 0 0 %d %d %d %d" % (
                            P, Q, mb, mb, T * mb, T * mb, T * mb, T * mb, uplo, NBVPS[(P * Q + T) % len(NBVPS)]))
        for _ in range(300 if quick else 5000):
            P, Q = r.range(1, 5), r.range(1, 5)
            mb, nb = r.range(1, 4), r.range(1, 4)
            lmt = r.pick([r.range(1, 10), r.range(1, 30)])
            lnt = lmt if r.chance(2, 3) else max(1, lmt + r.range(-4, 4))
            lm, ln = lmt * mb - r.below(mb), lnt * nb - r.below(nb)
            i = j = 0
            m, n = lm, ln
            if r.chance(1, 4):
                k = r.below(min(lmt, lnt))
                i, j = k * mb, k * nb
                m, n = r.range(1, lm - i), r.range(1, ln - j)
            out.append("sym %d %d %d %d %d %d %d %d %d %d %d %d" % (
                P, Q, mb, nb, lm, ln, i, j, m, n, r.pick([121, 122]), r.pick(NBVPS)))
        # --- vector
        for P in (1, 2, 3, 4):
            for Q in (1, 2, 3, 4):
                for distrib in (0, 1, 2):
                    for lmt in ((1, 2, 3, 5, 6, 7, 12, 13) if distrib != 2 or P == Q else (5,)):
                        mb = 1 + (P + lmt) % 3
                        out.append("vec %d %d %d %d 0 %d %d %d" % (P, Q, mb, lmt * mb, lmt * mb, distrib,
                                                                  NBVPS[(P + Q + lmt) % len(NBVPS)]))
        for _ in range(100 if quick else 2000):
            P = r.range(1, 6)
            distrib = r.below(3)
            Q = P if distrib == 2 and r.chance(9, 10) else r.range(1, 6)
            mb = r.range(1, 4)
            lmt = r.range(1, 60)
            lm = lmt * mb - r.below(mb)
            i, m = 0, lm
            if r.chance(1, 3):
                i = r.below(lm)
                m = r.range(1, lm - i)
            out.append("vec %d %d %d %d %d %d %d %d" % (P, Q, mb, lm, i, m, distrib, r.pick(NBVPS)))
        # --- tabular
        for _ in range(200 if quick else 4000):
            nodes = r.range(1, 6)
            mb, nb = r.range(1, 3), r.range(1, 3)
            lmt, lnt = r.range(1, 7), r.range(1, 7)
            lm, ln = lmt * mb - r.below(mb), lnt * nb - r.below(nb)
            i = j = 0
            m, n = lm, ln
            if r.chance(1, 3):
                i, j = r.below(lm), r.below(ln)
                m, n = r.range(1, lm - i), r.range(1, ln - j)
            nbvp = r.pick(NBVPS)
            style = r.below(3)
            ranks = [(r.below(nodes) if style == 0 else (k % nodes if style == 1 else (k * 7 // 3) % nodes))
                     for k in range(lmt * lnt)]
            vp = [r.below(nbvp) for _ in range(lmt * lnt)]
            out.append("tab %d %d %d %d %d %d %d %d %d %d | %s | %s" % (
                nodes, mb, nb, lm, ln, i, j, m, n, nbvp, " ".join(map(str, ranks)), " ".join(map(str, vp))))
        # --- band
        for _ in range(200 if quick else 4000):
            P, Q = r.range(1, 3), r.range(1, 4)
            nodes = P * Q
            Pb = r.pick([d for d in range(1, nodes + 1) if nodes % d == 0])
            kp, kq, kpb, kqb = r.range(1, 3), r.range(1, 3), r.range(1, 2), r.range(1, 3)
            mb, nb = r.range(1, 3), r.range(1, 3)
            lmt, lnt = r.range(1, 12), r.range(1, 12)
            bs = r.range(1, 4)
            out.append("band %d %d %d %d %d %d %d %d %d %d %d %d %d %d %d %d" % (
                P, Q, kp, kq, r.below(P), r.below(Q), Pb, nodes // Pb, kpb, kqb, mb, nb,
                lmt * mb - r.below(mb), lnt * nb - r.below(nb), bs, r.pick(NBVPS)))
        return out

    def nontrivial_key(self, case):
        w = case.split("|")[0].split()
        if w[0] in ("bc", "kv", "sym", "band"):
            return case if int(w[1]) * int(w[2]) >= 2 else None
        if w[0] == "vec":
            return case if int(w[1]) * int(w[2]) >= 2 else None
        return case if int(w[1]) >= 2 else None

    def dist(self, cases):
        d = {}
        for c in cases:
            k = c.split()[0]
            d[k] = d.get(k, 0) + 1
        d["max_ranks"] = max(int(c.split()[1]) * (int(c.split()[2]) if c.split()[0] != "tab" else 1) for c in cases)
        return d

    # ------------------------------------------------------------------ oracle
    # The property, decided on what the implementation printed for one case.
    def _params(self, case):
        parts = case.split("|")
        w = parts[0].split()
        k = w[0]
        v = [int(x) for x in w[1:]]
        return k, v, parts[1:]

    def oracle(self, case, obs):
        r = self._oracle(case, obs)
        return r[1] if r else None

    def _oracle(self, case, obs):
        """returns None or (clause, message)"""
        kind, v, extra = self._params(case)
        if obs.startswith("<"):
            return ("crash", "no observation: " + obs[:120])
        secs = [s.strip() for s in obs.split("|")]
        if len(secs) != 4:
            return ("parse", "unparsable observation: " + obs[:120])
        try:
            mt, nt, lmt, lnt = [int(x) for x in secs[0].split()]
        except Exception:
            return ("parse", "unparsable header: " + secs[0][:80])
        if kind == "tab":
            nodes = v[0]
        else:
            nodes = v[0] * v[1]
        ranks = secs[1].split()
        if "hang" in ranks:
            return ("init-hang", "the init function of rank %d does not terminate" % ranks.index("hang"))
        if len(ranks) != nodes:
            return ("parse", "expected %d ranks, got %d" % (nodes, len(ranks)))
        rk = [[int(x) for x in s.split(":")] for s in ranks]
        nlt = [x[0] for x in rk]
        if secs[3] != "views=same":
            return ("views", "ranks disagree on rank_of")
        toks = secs[2].split()
        width = nt if kind != "vec" else 1
        if len(toks) != mt * width:
            return ("parse", "expected %d tiles, got %d" % (mt * width, len(toks)))
        nbvp = {"bc": 14, "kv": 14, "sym": 11, "vec": 7, "tab": 9, "band": 15}[kind]
        nbvp = v[nbvp]
        if kind == "band":
            nlt_band = [x[1] for x in rk]
        # stored part of a symmetric matrix (global coordinates), legal shapes only
        if kind == "sym":
            mb, nb, i, j, uplo = v[2], v[3], v[6], v[7], v[10]
            oi, oj = i // mb, j // nb
            if uplo == 122 and lnt > lmt:
                return None     # outside the domain: a lower-stored matrix needs lnt <= lmt
            if uplo == 121 and lnt != lmt:
                return None     # outside the domain: an upper-stored matrix needs lmt == lnt
        slots = {}
        keys = {}
        owned = [0] * nodes
        tiles = []
        for idx, tk in enumerate(toks):
            m, n = (idx // width, idx % width)
            f = tk.split(":")
            try:
                own = int(f[0])
            except Exception:
                return ("parse", "bad tile " + tk)
            if kind == "sym":
                M, N = m + oi, n + oj
                stored = (M >= N) if uplo == 122 else (M <= N)
                if not stored:
                    if own != UINT_MAX:
                        return ("owner", "tile (%d,%d) is outside the stored triangle but has owner %d" % (m, n, own))
                    continue
            if not (0 <= own < nodes) or f[1] == "x":
                return ("owner", "tile (%d,%d) is owned by rank %d, not a rank of the %d processes" % (m, n, own, nodes))
            owned[own] += 1
            try:
                if kind == "vec":
                    pos, key, vp, off = f[1], int(f[2]), int(f[3]), f[4]
                    rkey, kc, dkc = own, (key, 0), None
                    if key != m + v[4] // v[2]:
                        kc = None
                elif kind == "band":
                    rkey, pos, key, vp, off = int(f[1]), f[2], int(f[3]), int(f[4]), f[5]
                    kc = dkc = None
                else:
                    rkey, pos, key = int(f[1]), f[2], int(f[3])
                    kc = tuple(int(x) for x in f[4].split("."))
                    dkc = tuple(int(x) for x in f[6].split("."))
                    vp, off = int(f[7]), f[8]
            except Exception:
                return ("parse", "bad tile " + tk)
            if "?" in pos:
                return ("slot-range", "tile (%d,%d): data_of stored the data far outside the data map" % (m, n))
            if kind == "band":
                sub, p = [int(x) for x in pos.split(".")]
                cap = nlt_band[own] if sub else nlt[own]
                slot = (own, sub, p)
            else:
                p = int(pos)
                cap = nlt[own]
                slot = (own, 0, p)
            if not (0 <= p < cap):
                return ("slot-range", "tile (%d,%d) of rank %d uses local slot %d, outside [0, nb_local_tiles=%d)"
                        % (m, n, own, p, cap))
            if slot in slots:
                return ("slot-overlap", "tiles %s and (%d,%d) of rank %d share local slot %d"
                        % (slots[slot], m, n, own, p))
            slots[slot] = (m, n)
            if rkey != own:
                return ("rank-of-key", "rank_of_key(data_key(%d,%d)) = %d but rank_of = %d" % (m, n, rkey, own))
            if dkc is not None and dkc != (m, n):
                return ("data-key", "data_key(%d,%d) maps back to coordinates %s" % (m, n, dkc))
            if kind == "kv":
                # the data of a view keeps the key of the underlying tile: it must name a tile of the submatrix
                if not (0 <= kc[0] < mt and 0 <= kc[1] < nt):
                    return ("stored-key", "view tile (%d,%d): key %d of its data names no tile of the matrix %s" % (m, n, key, kc))
            elif kind == "vec":
                if kc is None:
                    return ("stored-key", "segment %d: key %d of its data is not its global index" % (m, key))
            elif kc is not None and kc != (m, n):
                return ("stored-key", "tile (%d,%d): key %d of the data built by data_of maps back to %s" % (m, n, key, kc))
            kk = (own, slot[1], key) if kind == "band" else key
            if kk in keys:
                return ("stored-key", "tiles %s and (%d,%d) get the same data key %d" % (keys[kk], m, n, key))
            keys[kk] = (m, n)
            if not (0 <= vp < nbvp):
                return ("vpid", "tile (%d,%d): vpid %d outside [0,%d)" % (m, n, vp, nbvp))
            tiles.append((own, m, n, off))
        # counts
        whole = (mt == lmt and (kind == "vec" or nt == lnt))
        if kind == "sym":
            want = sum(1 for M in range(lmt) for N in range(lnt) if ((M >= N) if uplo == 122 else (M <= N)))
        elif kind == "band":
            want = None
        else:
            want = lmt * (lnt if kind != "vec" else 1)
        for q in range(nodes):
            if nlt[q] < 0:
                return ("count", "rank %d has nb_local_tiles = %d" % (q, nlt[q]))
        if want is not None and sum(nlt) != want:
            return ("count", "the ranks' nb_local_tiles add up to %d, the matrix has %d tiles" % (sum(nlt), want))
        if whole and kind != "band":
            for q in range(nodes):
                if owned[q] != nlt[q]:
                    return ("count", "rank %d owns %d tiles but nb_local_tiles = %d" % (q, owned[q], nlt[q]))
        # memory: the element ranges of the tiles of one rank are disjoint and inside the local storage
        r = self._memory(kind, v, rk, tiles, lmt, lnt)
        if r:
            return r
        return None

    def _memory(self, kind, v, rk, tiles, lmt, lnt):
        if kind == "tab":
            return None
        if kind == "vec":
            mb = v[2]
            seen = {}
            for own, m, n, off in tiles:
                if off.startswith("b"):
                    return ("memory", "segment %d: misaligned address" % m)
                o = int(off)
                if o % mb or not (0 <= o // mb < rk[own][0]):
                    return ("memory", "segment %d of rank %d at element offset %d, local storage has %d elements"
                            % (m, own, o, rk[own][0] * mb))
                if (own, o) in seen:
                    return ("memory", "segments %d and %d of rank %d overlap in memory" % (seen[(own, o)], m, own))
                seen[(own, o)] = m
            return None
        if kind == "band":
            return None     # offsets are slot * bsiz in each sub-collection: covered by the slot clauses
        if kind in ("bc", "kv"):
            mb, nb, lm, ln, i, j, st = v[2], v[3], v[4], v[5], v[6], v[7], v[15]
        else:
            mb, nb, lm, ln, i, j, st = v[2], v[3], v[4], v[5], v[6], v[7], 1
        bsiz = mb * nb
        used = {}
        for own, m, n, off in tiles:
            if off.startswith("b"):
                return ("memory", "tile (%d,%d): misaligned address" % (m, n))
            o = int(off)
            if st == 1:
                if o % bsiz or not (0 <= o // bsiz < rk[own][0]):
                    return ("memory", "tile (%d,%d) of rank %d at element offset %d, outside the %d tiles of local storage"
                            % (m, n, own, o, rk[own][0]))
                cells = [(own, o)]
            else:
                if kind == "kv":
                    continue
                llm, lln = rk[own][3], rk[own][4]
                M, N = m + i // mb, n + j // nb
                rows = min(mb, lm - M * mb)
                cols = min(nb, ln - N * nb)
                cells = [(own, o + c * llm + rr) for c in range(cols) for rr in range(rows)]
                if o < 0 or (cells and cells[-1][1] >= llm * lln):
                    return ("memory", "tile (%d,%d) of rank %d reaches element %d, local storage is %d x %d"
                            % (m, n, own, cells[-1][1], llm, lln))
            for c in cells:
                if c in used:
                    return ("memory", "tiles %s and (%d,%d) of rank %d overlap in memory" % (used[c], m, n, own))
                used[c] = (m, n)
        return None

    def signature(self, case, obs):
        kind, v, _ = self._params(case)
        r = self._oracle(case, obs)
        clause = r[0] if r else "none"
        if kind == "bc":
            sub = "plain" if (v[10], v[11]) == (1, 1) else "kcyclic"
        elif kind == "vec":
            sub = ("row", "col", "diag-square" if v[0] == v[1] else "diag-rect")[v[6]]
        elif kind == "sym":
            sub = "upper" if v[10] == 121 else "lower"
        elif kind == "band":
            sub = "plain" if (v[2], v[3], v[8], v[9]) == (1, 1, 1, 1) else "kcyclic"
        else:
            sub = "all"
        return "%s-%s-%s" % (kind, sub, clause)

    def search_cases(self):
        return []


C20.theorems = (
    "C20_tmat_init_wf",
    "C20_bc_rank_in_range",
    "C20_bc_slot_in_range",
    "C20_bc_slot_injective",
    "C20_bc_slot_onto",
    "C20_bc_tiles_sum",
    "C20_data_key_roundtrip",
    "C20_bc_rank_of_key",
    "C20_bc_kcyclic_stored_key",
    "C20_bc_stored_key_injective",
    "C20_bc_kcyclic_stored_key_prefix_refuted",
    "C20_bc_vpid_in_range",
    "C20_bc_tile_memory",
    "C20_kview_permutation",
    "C20_kview_slot_in_range",
    "C20_kview_slot_injective",
    "C20_sym_rank_in_range",
    "C20_sym_lower_slot_in_range",
    "C20_sym_lower_slot_injective",
    "C20_sym_lower_slot_onto",
    "C20_sym_lower_tiles_sum",
    "C20_sym_upper_slot_in_range",
    "C20_sym_upper_slot_injective",
    "C20_sym_upper_slot_onto",
    "C20_sym_upper_tiles_sum",
    "C20_sym_stored_key",
    "C20_sym_nonsquare_refuted",
    "C20_tab_slot_in_range",
    "C20_tab_slot_injective",
    "C20_tab_slot_onto",
    "C20_tab_tiles_sum",
    "C20_tab_index_injective",
    "C20_vec_rank_in_range",
    "C20_vec_vpid_in_range",
    "C20_vec_diag_square_slot_in_range",
    "C20_vec_diag_square_slot_injective",
    "C20_vec_diag_square_slot_onto",
    "C20_vec_diag_square_tiles_sum",
    "C20_vec_diag_rect_refuted",
    "C20_vec_row_col_refuted",
    "C20_band_rank_in_range",
    "C20_band_slot_in_range",
    "C20_band_slot_injective",
)
