from vcheck import Check


def parse_case(case):
    """-> (mode, header ints, per-thread op triples, schedule, protocol flag)"""
    f = [x.strip() for x in case.split("|")]
    hw = f[0].split()
    mode = hw[0]
    hv = [int(x) for x in hw[1:]]
    nt = hv[2] if mode == "cnt" else hv[1]
    ops = []
    for s in f[1:1 + nt]:
        w = [int(x) for x in s.split()]
        ops.append([tuple(w[i:i + 3]) for i in range(0, len(w) - 2, 3)])
    sched = [int(x) for x in f[1 + nt].split()] if len(f) > 1 + nt else []
    proto = int(f[2 + nt]) if len(f) > 2 + nt and f[2 + nt] else 1
    return mode, hv, ops, sched, proto


def parse_obs(obs):
    f = [x.strip() for x in obs.split("|")]
    res = [[int(x) for x in t.split()] for t in f[0][len("res:"):].split(";")]
    return res, f[1:]


class C29(Check):
    id = "C29"
    prop_file = "theories/Properties/Properties_C29.v"
    theorems = ("C29_base_value_written_once", "C29_base_readers_get_the_value", "C29_base_later_reader_same_value",
                "C29_base_one_winner_one_callback", "C29_base_callback_exactly_once", "C29_base_null_set_refuted",
                "C29_countable_ready_exactly_at_count", "C29_countable_callback_once", "C29_countable_set_flags",
                "C29_countable_nonpositive_never_ready", "C29_countable_zero_count_refuted",
                "C29_dc_trigger_at_most_once", "C29_dc_one_fulfilment_per_shape", "C29_dc_lock_mutex",
                "C29_dc_readers_agree", "C29_dc_value_written_once", "C29_dc_root_reader_after_completion",
                "C29_dc_later_reader_gets_value", "C29_dc_cleanup_exactly_once", "C29_dc_double_set_refuted")
    comp = "future"
    extract_file = "theories/Extract/Extract_Future.v"
    extracted = ("future",)
    harness_src = "harness/h_future.c"
    harness_cflags = ("-DBUILDING_PARSEC",)
    link_parsec = True
    level_text = ("Theorems over atomic-step models of the base, countable and data-copy futures, for ANY number of threads, ANY "
                  "operation lists and EVERY schedule (arbitrary list of thread ids): tracked_data of a base future is written at "
                  "most once and every reader (in the whole history) gets that value, exactly one set wins and the callback runs "
                  "exactly once; a countable future is ready exactly when count decrements have completed and its callback runs "
                  "once; a data-copy future's fulfilment callback runs at most once per future and per shape (no two futures for "
                  "one shape), the future locks are mutually exclusive, all readers of a shape agree and a reader that starts after "
                  "completion gets the value, every cleanup callback runs once. Unguarded statements are kept as refuted "
                  "witnesses (set(NULL) on a base future, count 0, two sets on a data-copy future) and replayed on the code. Tie: "
                  "the real functions run in ucontext coroutines under the same schedules; per-operation results, callback "
                  "counters, final state and per-thread step counts are compared with the extracted model. Full level for the "
                  "logic under sequentially consistent memory.")
    level_note = ("Trusted: Coq kernel, extraction, cosched/interpose.h, the harness callbacks (counting, yielding) and its "
                  "is_ready polling in place of the un-interposable wait loop of parsec_base_future_get. Model granularity = code "
                  "between two yields: parsec_datacopy_future_set (tracked_data then status, plain stores) is one step, as are "
                  "the plain status read-modify-writes; weak-memory reorderings are out of scope. cb_match is modelled as "
                  "equality of shape ids; get_or_trigger is only called on the root future (nested_enable assert).")
    technique = ("Coq invariant proofs over all schedules (three atomic-step models) + controlled-schedule differential run "
                 "(ucontext coroutines, macro-interposed atomics, locks and barriers) of the real future functions")
    rule = ("random op lists for 1..5 threads on one base / countable / data-copy future (racing sets, blocking gets, "
            "get_or_trigger for 1..4 shapes with synchronous or deferred fulfilment) under sequential, round-robin, "
            "first-steps-first, reversed and random schedules, plus protocol-violating streams (NULL values, count<=0, "
            "double sets) compared with the model only; non-trivial = at least 2 threads and an interleaving schedule; "
            "distinct = case text")
    trusted = ("cosched.h/interpose.h scheduling points plus harness-local interposition of parsec_atomic_wmb/rmb",
               "harness callbacks cb_fulfill/cb_match/cb_nested/cb_cleanup of harness/h_future.c")
    assumptions = ("sequentially consistent memory (every step of the model is atomic)",
                   "protocol of the API: non-NULL values for base futures, count >= 1 and fewer than 2^31 sets for countable "
                   "futures, parsec_datacopy_future_set never called on a COMPLETED future (its assert)")

    # ------------------------------------------------------------------ generators
    def sched(self, r, nt, total):
        kind = r.below(7)
        per = max(2, total // max(1, nt) + 1)
        if kind == 0:
            return [t for t in range(nt) for _ in range(per)]
        if kind == 1:
            return list(range(nt)) + [r.below(nt) for _ in range(r.range(0, total + 2))]
        if kind == 2:
            return [t for _ in range(per) for t in reversed(range(nt))]
        if kind == 3:
            a = r.shuffle(range(nt))
            return a + a + a + [r.below(nt) for _ in range(r.range(0, total))]
        if kind == 4:      # bursts
            out = []
            for _ in range(r.range(1, 2 * nt + 2)):
                out += [r.below(nt)] * r.range(1, 4)
            return out
        return [r.below(nt) for _ in range(r.range(0, total + 4))]

    def fmt(self, head, ops, sched, proto):
        return "%s | %s | %s | %d" % (head, " | ".join(" ".join("%d %d %d" % o for o in l) for l in ops),
                                      " ".join(map(str, sched)), proto)

    def gen_base(self, r):
        nt = r.range(1, 5)
        proto = 0 if r.chance(1, 8) else 1
        samev = r.chance(1, 4)
        ops = []
        for t in range(nt):
            l = []
            for _ in range(r.range(1, 4)):
                k = r.below(10)
                if k < 4:
                    v = 7 if samev else r.range(1, 9)
                    if not proto and r.chance(1, 2):
                        v = 0
                    l.append((1, v, 0))
                elif k < 7:
                    l.append((2, 0, 0))
                else:
                    l.append((3, 0, 0))
            ops.append(l)
        # liveness of the scenario: some thread sets before it waits (else every get may block for ever)
        free = [t for t in range(nt) if any(o[0] == 1 for o in ops[t])
                and 2 not in [o[0] for o in ops[t][:[o[0] for o in ops[t]].index(1)]]]
        if not free and (any(o[0] == 1 or o[0] == 2 for l in ops for o in l) and not r.chance(1, 10)
                         or any(o[0] == 1 for l in ops for o in l)):
            ops[r.below(nt)].insert(0, (1, 0 if (not proto and r.chance(1, 2)) else r.range(1, 9), 0))
        hasnull = any(o[0] == 1 and o[1] == 0 for l in ops for o in l)
        proto = 0 if hasnull else 1
        total = sum(3 * len(l) for l in ops)
        # the harness recognises the winner of a NULL set through the callback only
        return self.fmt("base %d %d" % (1 if hasnull else (r.below(4) != 0), nt), ops, self.sched(r, nt, total), proto)

    def gen_cnt(self, r):
        nt = r.range(1, 5)
        count = r.range(1, 7)
        proto = 1
        if r.chance(1, 10):
            count, proto = r.range(-2, 0), 0
        want = max(0, count + r.pick([0, 0, 0, -1, 1, 2, -2]))
        ops = [[] for _ in range(nt)]
        for _ in range(want):
            ops[r.below(nt)].append((1, 0, 0))
        for t in range(nt):
            for _ in range(r.range(0, 2)):
                ops[t].insert(r.range(0, len(ops[t])), (3, 0, 0))
            if want >= count >= 1 and r.chance(1, 2):
                ops[t].append((2, 0, 0))          # a blocking get only after the thread's own sets
            if not ops[t]:
                ops[t].append((3, 0, 0))
        total = sum(2 * len(l) for l in ops)
        return self.fmt("cnt %d %d %d" % (r.below(4) != 0, count, nt), ops, self.sched(r, nt, total), proto)

    def gen_dc(self, r):
        nt = r.range(1, 5)
        nshape = r.range(1, 4)
        rootspec = r.range(1, nshape)
        cbv = [0, 0, 0, 0]
        for s in range(1, nshape + 1):
            if r.chance(2, 3):
                cbv[s - 1] = 10 + s
        proto = 0 if r.chance(1, 8) else 1
        ops = [[] for _ in range(nt)]
        for t in range(nt):
            fav = r.pick([0] + list(range(1, nshape + 1)))
            for _ in range(r.range(1, 5)):
                if r.chance(3, 4):
                    req = fav
                else:
                    req = r.range(0, nshape)
                ops[t].append((1, req, 0))
                if r.chance(1, 12):
                    ops[t].append((r.pick([3, 4]), 0, 0))
        # deferred fulfilment: one set per shape whose callback does not set (placed anywhere)
        for s in range(1, nshape + 1):
            if cbv[s - 1] == 0 and r.chance(5, 6):
                t = r.below(nt)
                ops[t].insert(r.range(0, len(ops[t])), (2, s, 20 + s))
        if not proto:
            k = r.below(3)
            s = r.range(1, nshape)
            t = r.below(nt)
            if k == 0:      # second set with another value
                ops[t].insert(r.range(0, len(ops[t])), (2, s, 30 + s))
                ops[r.below(nt)].append((2, s, 40 + s))
            elif k == 1:    # NULL value
                ops[t].insert(r.range(0, len(ops[t])), (2, s, 0))
            else:           # set racing with a synchronous callback
                cbv[s - 1] = 10 + s
                ops[t].insert(r.range(0, len(ops[t])), (2, s, 50 + s))
        ops = [l[:12] for l in ops]
        proto = 1 if self.dc_protocol_ok(rootspec, cbv, ops) else 0
        total = sum(5 * len(l) for l in ops)
        return self.fmt("dc %d %d %s" % (rootspec, nt, " ".join(map(str, cbv))), ops, self.sched(r, nt, total), proto)

    @staticmethod
    def dc_protocol_ok(rootspec, cbv, ops):
        for s in range(1, 5):
            sets = [o for l in ops for o in l if o[0] == 2 and o[1] == s]
            if any(o[2] == 0 for o in sets):
                return False
            if len(sets) + (1 if cbv[s - 1] != 0 else 0) > 1:
                return False
        return True

    def cases(self):
        r = self.rng
        out = [
            # directed: the refuted witnesses of the property file, replayed on the code
            "base 1 1 | 1 0 0 2 0 0 1 7 0 2 0 0 |  | 0",
            "cnt 1 0 1 | 1 0 0 3 0 0 |  | 0",
            "dc 1 1 0 0 0 0 | 2 1 5 1 0 0 2 1 6 1 0 0 |  | 0",
            # directed: every thread loses the CAS but one; nested shapes created in a race
            "base 1 3 | 1 5 0 2 0 0 | 1 6 0 2 0 0 | 1 7 0 2 0 0 | 0 1 2 0 1 2 0 1 2 | 1",
            "dc 1 3 11 12 13 0 | 1 2 0 1 2 0 | 1 2 0 1 3 0 | 1 3 0 1 2 0 | 0 1 2 0 1 2 0 1 2 2 1 0 | 1",
        ]
        N = 1200 if self.tier == "quick" else 24000
        for i in range(N):
            k = r.below(10)
            if k < 3:
                out.append(self.gen_base(r))
            elif k < 5:
                out.append(self.gen_cnt(r))
            else:
                out.append(self.gen_dc(r))
        return out

    def search_cases(self):
        out = []
        r = self.rng
        for _ in range(600):
            out.append(self.gen_dc(r))
            out.append(self.gen_base(r))
            out.append(self.gen_cnt(r))
        return out

    # ------------------------------------------------------------------ evidence helpers
    def nontrivial_key(self, case):
        try:
            mode, hv, ops, s, proto = parse_case(case)
        except Exception:
            return None
        if len(ops) < 2 or len(s) < 3:
            return None
        inter = any(s[i] != s[i + 1] and s[i] in s[i + 2:] for i in range(len(s) - 2))
        return case if inter else None

    def dist(self, cases):
        d = {"base": 0, "cnt": 0, "dc": 0, "protocol_respecting": 0, "threads_hist": {}}
        for c in cases:
            try:
                mode, hv, ops, s, proto = parse_case(c)
            except Exception:
                continue
            d[mode] += 1
            d["protocol_respecting"] += proto
            d["threads_hist"][str(len(ops))] = d["threads_hist"].get(str(len(ops)), 0) + 1
        return d

    # ------------------------------------------------------------------ oracle (implementation's observation only)
    def oracle(self, case, obs):
        try:
            mode, hv, ops, sched, proto = parse_case(case)
        except Exception:
            return None
        try:
            res, rest = parse_obs(obs)
            if len(res) != len(ops) and not (len(ops) == 0):
                return "unparsable observation " + obs[:80]
            kv = dict(x.split("=") for x in rest[0].split() if "=" in x)
        except Exception:
            return "unparsable observation " + obs[:80]
        dead = "<deadlock>" in obs
        flat = [(t, i, o, (res[t][i] if i < len(res[t]) else None)) for t, l in enumerate(ops) for i, o in enumerate(l)]
        if mode == "base":
            return self.oracle_base(hv, ops, flat, kv, dead, proto)
        if mode == "cnt":
            return self.oracle_cnt(hv, ops, flat, kv, dead, proto)
        return self.oracle_dc(hv, ops, flat, rest, dead, proto)

    def oracle_base(self, hv, ops, flat, kv, dead, proto):
        if not proto:
            return None
        hascb = hv[0]
        nsets = sum(1 for (_, _, o, _) in flat if o[0] == 1)
        if dead and nsets > 0:
            return "operations did not complete although a set exists"
        if dead:
            return None
        if any(x is None for (_, _, _, x) in flat):
            return "an operation did not return"
        won = [(o[1]) for (_, _, o, x) in flat if o[0] == 1 and x == 1]
        if len(won) > 1:
            return "%d sets won the future: values %s" % (len(won), won)
        if nsets > 0 and len(won) != 1:
            return "no set won although %d sets ran" % nsets
        gets = [x for (_, _, o, x) in flat if o[0] == 2]
        if len(set(gets)) > 1:
            return "readers saw different values: %s" % sorted(set(gets))
        if gets and (gets[0] == 0 or gets[0] != won[0]):
            return "readers saw %s, the winning set wrote %s" % (gets[0], won)
        if won and int(kv["data"]) != won[0]:
            return "final value %s is not the winning value %s" % (kv["data"], won[0])
        if int(kv["stat"]) != (1 if nsets else 0):
            return "final ready flag %s after %d sets" % (kv["stat"], nsets)
        want = 1 if (hascb and nsets) else 0
        if int(kv["ncb"]) != want:
            return "completion callback ran %s times (expected %d)" % (kv["ncb"], want)
        if want and kv.get("seen", "") != str(won[0]):
            return "callback saw value %s, expected %s" % (kv.get("seen"), won[0])
        for t, l in enumerate(ops):
            rd = [x for (tt, _, o, x) in flat if tt == t and o[0] == 3]
            if rd != sorted(rd):
                return "thread %d saw the future ready then not ready" % t
        return None

    def oracle_cnt(self, hv, ops, flat, kv, dead, proto):
        if not proto:
            return None
        hascb, count = hv[0], hv[1]
        nsets = sum(1 for (_, _, o, _) in flat if o[0] == 1)
        if dead and nsets >= count:
            return "operations did not complete although %d >= count sets exist" % nsets
        if dead:
            return None
        flags = [x for (_, _, o, x) in flat if o[0] == 1]
        if flags.count(0) != min(nsets, count - 1):
            return "%d sets returned before readiness, expected %d (count=%d, %d sets)" % (
                flags.count(0), min(nsets, count - 1), count, nsets)
        if int(kv["stat"]) != (1 if nsets >= count else 0):
            return "final ready flag %s after %d sets of count %d" % (kv["stat"], nsets, count)
        want = 1 if (hascb and nsets >= count) else 0
        if int(kv["ncb"]) != want:
            return "completion callback ran %s times (expected %d)" % (kv["ncb"], want)
        for t, l in enumerate(ops):
            rd = [x for (tt, _, o, x) in flat if tt == t and o[0] in (1, 3)]
            if rd != sorted(rd):
                return "thread %d saw the future ready then not ready" % t
        return None

    def oracle_dc(self, hv, ops, flat, rest, dead, proto):
        if dead:
            return "operations did not complete"
        rootspec = hv[0]
        cbv = (hv[2:] + [0, 0, 0, 0])[:4]
        try:
            futs = [tuple(int(y) for y in x.split(":")) for x in rest[0].split()[1:]]
            bad = int(rest[1].split("=")[1])
            clean = [int(x) for x in rest[2].split()[1:]]
        except Exception:
            return "unparsable observation"
        for (spec, trig, comp, data, lock, ncb) in futs:
            if ncb > 1:
                return "fulfilment callback of the future for shape %d ran %d times" % (spec, ncb)
            if ncb != trig:
                return "future for shape %d: triggered=%d but callback ran %d times" % (spec, trig, ncb)
            if lock:
                return "future for shape %d left locked" % spec
        specs = [f[0] for f in futs]
        if len(set(specs)) != len(specs):
            return "several futures (fulfilments) for one shape: %s" % specs
        if not futs or specs[0] != rootspec:
            return "root future lost"
        if sorted(clean) != sorted(specs):
            return "cleanup callbacks ran for %s, futures are %s" % (clean, specs)
        if not proto:
            return None
        if bad:
            return "a future was set twice although every shape has one fulfilment source"
        bys = dict((f[0], f) for f in futs)
        for s in range(1, 5):
            vals = [(t, x) for (t, _, o, x) in flat if o[0] == 1 and (o[1] or rootspec) == s]
            nz = sorted(set(x for (_, x) in vals if x != 0))
            if len(nz) > 1:
                return "readers of shape %d saw different values %s" % (s, nz)
            if nz:
                legit = [cbv[s - 1]] if cbv[s - 1] else [o[2] for (_, _, o, _) in flat if o[0] == 2 and o[1] == s]
                if s not in bys or not bys[s][2] or bys[s][3] != nz[0] or nz[0] not in legit:
                    return "readers of shape %d saw %d, the future holds %s" % (s, nz[0], bys.get(s))
            for t in range(len(ops)):
                seq = [x for (tt, x) in vals if tt == t]
                if any(seq[i] != 0 and seq[i + 1] == 0 for i in range(len(seq) - 1)):
                    return "thread %d got the value of shape %d, then NULL" % (t, s)
        return None

    def signature(self, case, obs):
        why = self.oracle(case, obs) or "diff"
        w = why.split()
        key = "-".join(x for x in w[:4] if not any(ch.isdigit() for ch in x))
        return case.split()[0] + "-" + key[:40]
