"""C18 — Typed PTG flows deliver correctly converted copies (component reshape).

A case (tools/gen_reshape.py) is a small PTG program with [type = ..], [type_remote = ..] and
[type_data = ..] attributes over FULL / LOWER / UPPER / LOWS / UPPS arena datatypes, plus a run
configuration (ranks, short-message limit, MPI thread level, cores).  The implementation side is
driven from here: JDF -> parsec-ptgpp (of the repository under test) -> cc -> link with
harness/reshape_driver.c and libparsec -> run (mpiexec for 2..4 ranks) -> canonical observation.
The model side is the extracted Reshape.run (ocaml/d_reshape.ml).
"""
import concurrent.futures
import hashlib
import os
import shutil
import sys
import threading

import vcheck
from vcheck import Check, Failure, run, log

sys.path.insert(0, os.path.join(vcheck.VERIF, "tools"))
import gen_reshape as G  # noqa: E402

RUN_ENV = {"OMPI_MCA_btl": "self,vader", "OMPI_MCA_pml": "ob1", "OMPI_MCA_rmaps_base_oversubscribe": "1",
           "OMPI_MCA_mpi_yield_when_idle": "1", "OMPI_MCA_hwloc_base_binding_policy": "none",
           "PARSEC_MCA_runtime_warn_slow_binding": "0"}
SINGLE_ENV = {"OMPI_MCA_ess_singleton_isolated": "1", "OMPI_MCA_btl": "self", "OMPI_MCA_pml": "ob1"}
SHN = G.SHORT + ["PACKED"]


# ---------------------------------------------------------------- property vocabulary (oracle side)
def region(shape, i, j):
    """element (i, j) belongs to the shape (from the property statement, not from the model)"""
    if shape == 1:
        return True
    if shape == 2:
        return j <= i
    if shape == 3:
        return i <= j
    if shape == 4:
        return j < i
    if shape == 5:
        return i < j
    return False


def sel_bytes(shape, mb, esz):
    """byte offsets of the elements of the shape, column-major, element by element"""
    out = []
    for j in range(mb):
        for i in range(mb):
            if region(shape, i, j):
                e = i + j * mb
                out.extend(range(e * esz, (e + 1) * esz))
    return out


def unhex(h):
    return [int(h[i:i + 2], 16) for i in range(0, len(h), 2)]


class Obs:
    """parsed canonical observation"""

    def __init__(self, line):
        self.crash = line.strip() == "CRASH"
        self.bad = None
        self.tasks, self.convs, self.tiles, self.nalloc = {}, [], {}, []
        if self.crash:
            return
        if line.startswith("<"):
            self.bad = line
            return
        try:
            for part in line.split(" ; "):
                w = part.split()
                if w[0] == "T":
                    self.tasks[(int(w[1]), int(w[2]), int(w[3]))] = (w[4], w[5], unhex(w[6]) if len(w) > 6 else [])
                elif w[0] == "X":
                    self.convs.append((w[1], w[2], int(w[3]), w[4], w[5]))
                elif w[0] == "D":
                    self.tiles[int(w[1])] = unhex(w[2])
                elif w[0] == "N":
                    self.nalloc = [int(x) for x in w[1:]]
        except Exception as ex:
            self.bad = "unparsable observation (%s): %s" % (ex, line[:100])


class C18(Check):
    id = "C18"
    prop_file = "theories/Properties/Properties_C18.v"
    theorems = ()
    comp = "reshape"
    extract_file = "theories/Extract/Extract_Reshape.v"
    extracted = ("reshape",)
    harness_src = None
    link_parsec = True
    run_timeout = int(os.environ.get("VERIF_RESHAPE_TIMEOUT", "90"))
    jobs = int(os.environ.get("VERIF_RESHAPE_JOBS", "8"))
    model_fixed = 0     # 1 once the repairs of notes/findings/C18-*.patch are in /repo

    # ------------------------------------------------------------------ build
    def build_sides(self):
        fails = Check.build_sides(self)
        if any(f.kind == "build" for f in fails):
            return fails
        os.makedirs(vcheck.BIN, exist_ok=True)
        self.drv_obj = os.path.join(vcheck.BIN, "reshape_driver.o")
        cmd = ["cc"] + vcheck.harness_cflags() + ["-c", os.path.join(vcheck.VERIF, "harness/reshape_driver.c"), "-o", self.drv_obj]
        rc, o, e = run(cmd, timeout=300)
        if rc != 0:
            fails.append(Failure("correspondence", "harness harness/reshape_driver.c no longer compiles against /repo", (o + e)[-4000:]))
        self.ptgpp = os.path.join(vcheck.PBUILD, "parsec/interfaces/ptg/ptg-compiler/parsec-ptgpp")
        if not os.path.exists(self.ptgpp):
            fails.append(Failure("build", "parsec-ptgpp was not built", self.ptgpp))
        self._exe = {}
        self._exe_lock = threading.Lock()
        self._raw = {}
        return fails

    def workroot(self, tag):
        return os.path.join(vcheck.WORK, "reshape" + vcheck._SFX, "%s-%s-%d" % (self.id, tag, self.seed))

    def build_prog(self, tag, prog):
        """JDF -> executable, cached by the JDF text (several configurations share one program)"""
        jdf = G.to_jdf(prog)
        h = hashlib.sha1(jdf.encode()).hexdigest()[:16]
        with self._exe_lock:
            ent = self._exe.get(h)
            if ent is None:
                ent = self._exe[h] = {"lock": threading.Lock(), "res": None}
        with ent["lock"]:
            if ent["res"] is None:
                ent["res"] = self._build(os.path.join(self.workroot(tag), h), jdf)
        return ent["res"]

    def _build(self, wd, jdf):
        shutil.rmtree(wd, ignore_errors=True)
        os.makedirs(wd)
        with open(os.path.join(wd, "rscase.jdf"), "w") as f:
            f.write(jdf)
        rc, o, e = run([self.ptgpp, "-E", "-i", "rscase.jdf", "-o", "rscase", "-f", "rscase"], cwd=wd, timeout=120)
        if rc != 0 or not os.path.exists(os.path.join(wd, "rscase.c")):
            return None, "ptgpp-rejected rc=%d %s" % (rc, (o + e).strip()[-300:].replace("\n", " "))
        cmd = ["cc"] + vcheck.harness_cflags() + ["-O0", "-g0", "-w", "-I" + wd, "-c", "rscase.c", "-o", "rscase.o"]
        rc, o, e = run(cmd, cwd=wd, timeout=300)
        if rc != 0:
            return None, "generated-C-does-not-compile " + (o + e).strip()[-300:].replace("\n", " ")
        exe = os.path.join(wd, "run")
        libdir = os.path.join(vcheck.PBUILD, "parsec")
        rc, o, e = run(["cc", "rscase.o", self.drv_obj, "-o", exe, "-L" + libdir, "-lparsec", "-Wl,-rpath," + libdir,
                        "-lpthread", "-lm", "-lhwloc"] + vcheck.MPI_LINK, cwd=wd, timeout=300)
        if rc != 0:
            return None, "link-failed " + (o + e).strip()[-300:].replace("\n", " ")
        return exe, ""

    # -------------------------------------------------------------------- run
    def run_prog(self, exe, p):
        args = [exe, str(p.cores), str(p.mt), "--mca", "runtime_comm_coll_bcast", "0"]
        if not p.short:
            args += ["--mca", "runtime_comm_short_limit", "0"]
        env = dict(os.environ)
        if p.nranks > 1:
            env.update(RUN_ENV)
            args = ["mpiexec", "--allow-run-as-root", "--oversubscribe", "--bind-to", "none", "-n", str(p.nranks)] + args
        else:
            env.update(SINGLE_ENV)
        for attempt in range(3):
            rc, o, e = run(args, timeout=self.run_timeout, env=env, cwd=os.path.dirname(exe))
            if rc in (0, 124) or "RANK" in o or attempt == 2:
                break
            # nothing printed: the failure may be in MPI start-up under load; but a crash of the code under
            # test before the output phase looks the same, so only retry when there is no sign of a signal
            if "Segmentation" in e or "Signal" in e or "signal" in e or "MPI_ERR" in e or rc < 0:
                break
        return rc, o, e

    def canonical(self, p, rc, out, err):
        """driver output of all ranks -> the observation line of ocaml/d_reshape.ml"""
        if rc == 124:
            return "TIMEOUT"
        blocks, cur = {}, None
        for line in out.splitlines():
            w = line.split()
            if not w:
                continue
            if w[0] == "RANK":
                cur = int(w[1])
                blocks[cur] = {"T": [], "X": [], "D": [], "N": 0, "end": None}
            elif cur is not None and w[0] in ("T", "X", "D"):
                blocks[cur][w[0]].append(w[1:])
            elif cur is not None and w[0] == "N":
                blocks[cur]["N"] = int(w[1])
            elif cur is not None and w[0] == "END":
                blocks[cur]["end"] = w[1]
        complete = len(blocks) == p.nranks and all(b["end"] == "rc=0" for b in blocks.values())
        if rc != 0 or not complete:
            return "CRASH"

        def base(rank, ptr):
            if ptr.startswith("D"):
                return ptr[:-2] if ptr.endswith("+0") else ptr
            if ptr.startswith("a"):
                return (rank, ptr)
            return ptr
        tasks = []
        for rk, b in blocks.items():
            for w in b["T"]:
                tasks.append(((int(w[0]), int(w[1]), int(w[2])), base(rk, w[3]), w[4], w[5] if len(w) > 5 else ""))
        tasks.sort(key=lambda t: t[0])
        names = {}

        def name_task(q):
            if isinstance(q, tuple):
                if q not in names:
                    names[q] = "f%d" % len(names)
                return names[q]
            return q
        tl = ["T %d %d %d %s %s %s" % (t[0][0], t[0][1], t[0][2], name_task(t[1]), t[2], t[3]) for t in tasks]

        def name_any(q):
            if isinstance(q, tuple):
                return names.get(q, "u")
            return q
        xl = []
        for rk, b in blocks.items():
            for w in b["X"]:
                xl.append("X %s %s %s %s %s" % (name_any(base(rk, w[0])), w[1], w[2], name_any(base(rk, w[3])), w[4]))
        xl.sort()
        dl = []
        for rk, b in blocks.items():
            for w in b["D"]:
                dl.append((int(w[0]), w[1]))
        dl.sort()
        dl = ["D %d %s" % d for d in dl]
        nl = "N " + " ".join(str(blocks[r]["N"]) for r in range(p.nranks))
        return " ; ".join(tl + xl + dl + [nl])

    def one_case(self, tag, i, case):
        try:
            p = G.parse_case(case.split(" V ")[0])
        except Exception as ex:
            return "<bad case %s>" % ex
        why = G.wf(p)
        if why:
            return "<bad case %s>" % why
        exe, msg = self.build_prog(tag, p)
        if exe is None:
            return "<%s>" % msg
        rc, o, e = self.run_prog(exe, p)
        line = self.canonical(p, rc, o, e)
        if line in ("CRASH", "TIMEOUT"):
            log("%s: case %d -> %s rc=%d; stderr tail: %s" % (self.id, i, line, rc, e.strip()[-300:].replace("\n", " | ")))
        return line

    def run_impl(self, casefile, n):
        cases = [l.rstrip("\n") for l in open(casefile) if l.strip() and not l.startswith("#")]
        tag = os.path.basename(casefile).split("-")[1] if "-" in os.path.basename(casefile) else "x"
        out = [None] * len(cases)
        with concurrent.futures.ThreadPoolExecutor(max_workers=self.jobs) as ex:
            futs = {ex.submit(self.one_case, tag, i, c): i for i, c in enumerate(cases)}
            for f in concurrent.futures.as_completed(futs):
                i = futs[f]
                try:
                    out[i] = f.result()
                except Exception as exn:
                    out[i] = "<impl exception %s>" % exn
        if not os.environ.get("VERIF_KEEP"):
            shutil.rmtree(self.workroot(tag), ignore_errors=True)
        return (out + ["<impl missing>"] * n)[:n]
