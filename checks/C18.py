"""C18 — Typed PTG flows deliver correctly converted copies (component reshape).

A case (tools/gen_reshape.py) is a small PTG program with [type = ..], [type_remote = ..] and
[type_data = ..] attributes over FULL / LOWER / UPPER / LOWS / UPPS arena datatypes, plus a run
configuration (ranks, short-message limit, MPI thread level, cores).  The implementation side is
driven from here: JDF -> parsec-ptgpp (of the repository under test) -> cc -> link with
harness/reshape_driver.c and libparsec -> run (mpiexec for 2..4 ranks) -> canonical observation.
The model side is the extracted Reshape.run (ocaml/d_reshape.ml).
"""
import concurrent.futures
import hashlib
import os
import shutil
import sys
import threading

import vcheck
from vcheck import Check, Failure, run, log

sys.path.insert(0, os.path.join(vcheck.VERIF, "tools"))
import gen_reshape as G  # noqa: E402

RUN_ENV = {"OMPI_MCA_btl": "self,vader", "OMPI_MCA_pml": "ob1", "OMPI_MCA_rmaps_base_oversubscribe": "1",
           "OMPI_MCA_mpi_yield_when_idle": "1", "OMPI_MCA_hwloc_base_binding_policy": "none",
           "PARSEC_MCA_runtime_warn_slow_binding": "0"}
SINGLE_ENV = {"OMPI_MCA_ess_singleton_isolated": "1", "OMPI_MCA_btl": "self", "OMPI_MCA_pml": "ob1"}
SHN = G.SHORT + ["PACKED"]


# ---------------------------------------------------------------- property vocabulary (oracle side)
def region(shape, i, j):
    """element (i, j) belongs to the shape (from the property statement, not from the model)"""
    if shape == 1:
        return True
    if shape == 2:
        return j <= i
    if shape == 3:
        return i <= j
    if shape == 4:
        return j < i
    if shape == 5:
        return i < j
    return False


def sel_bytes(shape, mb, esz):
    """byte offsets of the elements of the shape, column-major, element by element"""
    out = []
    for j in range(mb):
        for i in range(mb):
            if region(shape, i, j):
                e = i + j * mb
                out.extend(range(e * esz, (e + 1) * esz))
    return out


def unhex(h):
    return [int(h[i:i + 2], 16) for i in range(0, len(h), 2)]


class Obs:
    """parsed canonical observation"""

    def __init__(self, line):
        self.crash = line.strip() == "CRASH"
        self.bad = None
        self.tasks, self.tasksb, self.convs, self.tiles, self.nalloc = {}, {}, [], {}, []
        if self.crash:
            return
        if line.startswith("<"):
            self.bad = line
            return
        try:
            for part in line.split(" ; "):
                w = part.split()
                if w[0] in ("T", "U"):
                    (self.tasks if w[0] == "T" else self.tasksb)[(int(w[1]), int(w[2]), int(w[3]))] = \
                        (w[4], w[5], unhex(w[6]) if len(w) > 6 else [])
                elif w[0] == "X":
                    self.convs.append((w[1], w[2], int(w[3]), w[4], w[5]))
                elif w[0] == "D":
                    self.tiles[int(w[1])] = unhex(w[2])
                elif w[0] == "N":
                    self.nalloc = [int(x) for x in w[1:]]
        except Exception as ex:
            self.bad = "unparsable observation (%s): %s" % (ex, line[:100])


class C18(Check):
    id = "C18"
    prop_file = "theories/Properties/Properties_C18.v"
    comp = "reshape"
    extract_file = "theories/Extract/Extract_Reshape.v"
    extracted = ("reshape",)
    harness_src = None
    link_parsec = True
    run_timeout = int(os.environ.get("VERIF_RESHAPE_TIMEOUT", "300"))   # seconds per run (a run takes 0.5-3 s on an idle machine)
    jobs = int(os.environ.get("VERIF_RESHAPE_JOBS", "6"))
    # 1 once the repairs of notes/findings/C18-stale-promise.patch are in /repo (the model then follows the repaired code)
    model_fixed = int(os.environ.get("VERIF_C18_FIXED", "0"))

    # ------------------------------------------------------------------ build
    def build_sides(self):
        fails = Check.build_sides(self)
        if any(f.kind == "build" for f in fails):
            return fails
        os.makedirs(vcheck.BIN, exist_ok=True)
        self.drv_obj = os.path.join(vcheck.BIN, "reshape_driver.o")
        cmd = ["cc"] + vcheck.harness_cflags() + ["-c", os.path.join(vcheck.VERIF, "harness/reshape_driver.c"), "-o", self.drv_obj]
        rc, o, e = run(cmd, timeout=300)
        if rc != 0:
            fails.append(Failure("correspondence", "harness harness/reshape_driver.c no longer compiles against /repo", (o + e)[-4000:]))
        self.ptgpp = os.path.join(vcheck.PBUILD, "parsec/interfaces/ptg/ptg-compiler/parsec-ptgpp")
        if not os.path.exists(self.ptgpp):
            fails.append(Failure("build", "parsec-ptgpp was not built", self.ptgpp))
        self._exe = {}
        self._exe_lock = threading.Lock()
        return fails

    def workroot(self, tag):
        return os.path.join(vcheck.WORK, "reshape" + vcheck._SFX, "%s-%s-%d" % (self.id, tag, self.seed))

    def build_prog(self, tag, prog):
        """JDF -> executable, cached by the JDF text (several configurations share one program)"""
        jdf = G.to_jdf(prog)
        h = hashlib.sha1(jdf.encode()).hexdigest()[:16]
        with self._exe_lock:
            ent = self._exe.get((tag, h))
            if ent is None:
                ent = self._exe[(tag, h)] = {"lock": threading.Lock(), "res": None}
        with ent["lock"]:
            if ent["res"] is None:
                ent["res"] = self._build(os.path.join(self.workroot(tag), h), jdf)
        return ent["res"]

    def _build(self, wd, jdf):
        shutil.rmtree(wd, ignore_errors=True)
        os.makedirs(wd)
        with open(os.path.join(wd, "rscase.jdf"), "w") as f:
            f.write(jdf)
        rc, o, e = run([self.ptgpp, "-E", "-i", "rscase.jdf", "-o", "rscase", "-f", "rscase"], cwd=wd, timeout=120)
        if rc != 0 or not os.path.exists(os.path.join(wd, "rscase.c")):
            return None, "ptgpp-rejected rc=%d %s" % (rc, (o + e).strip()[-300:].replace("\n", " "))
        cmd = ["cc"] + vcheck.harness_cflags() + ["-O0", "-g0", "-w", "-I" + wd, "-c", "rscase.c", "-o", "rscase.o"]
        rc, o, e = run(cmd, cwd=wd, timeout=300)
        if rc != 0:
            return None, "generated-C-does-not-compile " + (o + e).strip()[-300:].replace("\n", " ")
        exe = os.path.join(wd, "run")
        libdir = os.path.join(vcheck.PBUILD, "parsec")
        rc, o, e = run(["cc", "rscase.o", self.drv_obj, "-o", exe, "-L" + libdir, "-lparsec", "-Wl,-rpath," + libdir,
                        "-lpthread", "-lm", "-lhwloc"] + vcheck.MPI_LINK, cwd=wd, timeout=300)
        if rc != 0:
            return None, "link-failed " + (o + e).strip()[-300:].replace("\n", " ")
        return exe, ""

    # -------------------------------------------------------------------- run
    def run_prog(self, exe, p):
        wd = os.path.dirname(exe)
        with self._exe_lock:
            self._runid = getattr(self, "_runid", 0) + 1
            prefix = os.path.join(wd, "out%d" % self._runid)
        args = [exe, str(p.cores), str(p.mt), prefix, "--mca", "runtime_comm_coll_bcast", str(p.bcast)]
        if not p.short:
            args += ["--mca", "runtime_comm_short_limit", "0"]
        env = dict(os.environ)
        if p.nranks > 1:
            env.update(RUN_ENV)
            args = ["mpiexec", "--allow-run-as-root", "--oversubscribe", "--bind-to", "none", "-n", str(p.nranks)] + args
        else:
            env.update(SINGLE_ENV)
        rc, o, e = run(args, timeout=self.run_timeout, env=env, cwd=wd)
        out = ""
        for r in range(p.nranks):
            fn = "%s.%d" % (prefix, r)
            if os.path.exists(fn):
                with open(fn, errors="replace") as f:
                    out += f.read()
                os.unlink(fn)
        return rc, out, e

    def canonical(self, p, rc, out, err):
        """driver output of all ranks -> the observation line of ocaml/d_reshape.ml"""
        if rc == 124:
            # a rank that died (signal, MPI error) can leave the other ranks waiting until the launcher is killed
            died = any(m in err for m in ("exited on signal", "non-zero exit code", "MPI_ERR", "MPI_ABORT", "Segmentation fault",
                                          "*** Process received signal"))
            return "CRASH" if died else "TIMEOUT"
        blocks = {}
        for line in out.splitlines():
            if "| " not in line:
                continue
            hd, rest = line.split("| ", 1)
            if not hd.strip().isdigit():
                continue
            cur = int(hd)
            w = rest.split()
            if not w:
                continue
            b = blocks.setdefault(cur, {"T": [], "U": [], "X": [], "D": [], "N": 0, "end": None})
            if w[0] in ("T", "U", "X", "D"):
                b[w[0]].append(w[1:])
            elif w[0] == "N":
                b["N"] = int(w[1])
            elif w[0] == "END":
                b["end"] = w[1]
        complete = len(blocks) == p.nranks and all(b["end"] == "rc=0" for b in blocks.values())
        if rc != 0 or not complete:
            return "CRASH"

        def base(rank, ptr):
            if ptr.startswith("D"):
                return ptr[:-2] if ptr.endswith("+0") else ptr
            if ptr.startswith("a"):
                return (rank, ptr)
            return ptr
        tasks = []
        for rk, b in blocks.items():
            for kind in ("T", "U"):
                for w in b[kind]:
                    tasks.append(((int(w[0]), int(w[1]), int(w[2]), kind), base(rk, w[3]), w[4], w[5] if len(w) > 5 else ""))
        tasks.sort(key=lambda t: t[0])
        names = {}

        def name_task(q):
            if isinstance(q, tuple):
                if q not in names:
                    names[q] = "f%d" % len(names)
                return names[q]
            return q
        tl = ["%s %d %d %d %s %s %s" % (t[0][3], t[0][0], t[0][1], t[0][2], name_task(t[1]), t[2], t[3]) for t in tasks]

        def name_any(q):
            if isinstance(q, tuple):
                return names.get(q, "u")
            return q
        xl = []
        for rk, b in blocks.items():
            for w in b["X"]:
                xl.append("X %s %s %s %s %s" % (name_any(base(rk, w[0])), w[1], w[2], name_any(base(rk, w[3])), w[4]))
        xl.sort()
        dl = []
        for rk, b in blocks.items():
            for w in b["D"]:
                dl.append((int(w[0]), w[1]))
        dl.sort()
        dl = ["D %d %s" % d for d in dl]
        nl = "N " + " ".join(str(blocks[r]["N"]) for r in range(p.nranks))
        return " ; ".join(tl + xl + dl + [nl])

    def one_case(self, tag, i, case):
        try:
            p = G.parse_case(case.split(" V ")[0])
        except Exception as ex:
            return "<bad case %s>" % ex
        why = G.wf(p)
        if why:
            return "<bad case %s>" % why
        exe, msg = self.build_prog(tag, p)
        if exe is None:
            return "<%s>" % msg
        rc, o, e = self.run_prog(exe, p)
        line = self.canonical(p, rc, o, e)
        if line in ("CRASH", "TIMEOUT"):
            # a crash or hang of the code under test is deterministic on these programs; one that does not repeat is
            # counted as a flaky run of the environment (MPI start-up, overloaded machine) and the second result is used
            rc2, o2, e2 = self.run_prog(exe, p)
            line2 = self.canonical(p, rc2, o2, e2)
            if line2 not in ("CRASH", "TIMEOUT"):
                self.flaky = getattr(self, "flaky", 0) + 1
                log("%s: case %d failed once (rc=%d) and ran to completion when repeated; stderr tail of the failure: %s"
                    % (self.id, i, rc, e.strip()[-600:].replace("\n", " | ")))
                line = line2
        if line in ("CRASH", "TIMEOUT"):
            log("%s: case %d -> %s rc=%d; stderr tail: %s" % (self.id, i, line, rc, e.strip()[-300:].replace("\n", " | ")))
        return line

    def run_impl(self, casefile, n):
        cases = [l.rstrip("\n") for l in open(casefile) if l.strip() and not l.startswith("#")]
        tag = os.path.basename(casefile).split("-")[1] if "-" in os.path.basename(casefile) else "x"
        out = [None] * len(cases)
        with concurrent.futures.ThreadPoolExecutor(max_workers=self.jobs) as ex:
            futs = {ex.submit(self.one_case, tag, i, c): i for i, c in enumerate(cases)}
            for f in concurrent.futures.as_completed(futs):
                i = futs[f]
                try:
                    out[i] = f.result()
                except Exception as exn:
                    out[i] = "<impl exception %s>" % exn
        if not os.environ.get("VERIF_KEEP"):
            shutil.rmtree(self.workroot(tag), ignore_errors=True)
        self.cov["flaky_runs_repeated"] = getattr(self, "flaky", 0)
        return (out + ["<impl missing>"] * n)[:n]

    # ------------------------------------------------------------- metadata
    theorems = ("C18_convert_selected", "C18_convert_unselected", "C18_convert_length", "C18_shape_same",
                "C18_shape_kth", "C18_layout_membership", "C18_fulfil_once", "C18_fulfil_idempotent",
                "C18_same_shape_shared", "C18_other_copies_untouched", "C18_setup_touches_no_copy",
                "C18_identical_shapes_no_conversion", "C18_uniform_fanout", "C18_same_type_same_promise",
                "C18_delivery_refuted", "C18_completion_refuted", "C18_repaired_witnesses")
    level_text = ("partial. Proved (Coq, all sizes): the conversion PaRSEC performs (pack with the source datatype, unpack with "
                  "the destination datatype) delivers the k-th selected byte to the k-th selected byte and leaves every other byte "
                  "of the destination tile unchanged, for every tile, every pair of layouts, and for the FULL/LOWER/UPPER/LOWS/UPPS "
                  "arena datatypes of every tile and element size (layouts from C19); a reshape promise is fulfilled at most once, "
                  "a fulfilment only adds a copy (producer's, other consumers' and collection copies untouched), consumers requesting "
                  "the same shape share one copy and one conversion, no conversion when the shapes are identical; one producer with "
                  "any number of local consumers of any input types behind one promise (one output dependency, or several with the "
                  "same [type]): every consumer obtains exactly the documented copy (the producer's own, or a new copy = convert(pack "
                  "layout, unpack layout, producer's data, fresh tile)) and no earlier copy changes. The whole-program "
                  "statement is REFUTED on the faithful model and replayed on the code (two findings: stale reshape promise carried "
                  "across output dependencies of different [type]; NULL execution stream crash). Tie: generated typed-flow PTG programs "
                  "run on 1..4 ranks against the extracted whole-program interpreter (runtime, MPI and datatype engine observed).")
    level_note = ("Trusted: Coq kernel, extraction, ocaml/d_reshape.ml, checks/C18.py (JDF printer, canonicalisation), "
                  "harness/reshape_driver.c. The harness replaces the arenas' allocator (0xEE-filled, never reused chunks) so that "
                  "the content of fresh copies and copy identity are observable, and observes conversions through the MPI profiling "
                  "interface (MPI_Sendrecv). Modelled, not verified: MPI pack/unpack by type signature; Open MPI 4.1 behaviour on a "
                  "truncated MPI_Sendrecv to self (silent prefix copy when the send type is contiguous, fatal MPI_ERR_TRUNCATE "
                  "otherwise); arena memory management; task scheduling (the interpreter is sequential, generated programs are "
                  "race free by construction). A consumer may have a second READ data flow fed by the same producer flow (repo slots are "
                  "indexed by flow); control flows only gate tasks and carry nothing in the model. Broadcast relays are not in the "
                  "model (every rank receives what the producer packed): runs use the star topology, except the single-message "
                  "fan-out family run under chain and binomial trees, where the payload a relay forwards (received typed or as PACKED "
                  "bytes) is tied by observation only. Not modelled: producers with several output flows, GPU copies.")
    technique = ("Coq proof (conversion for all layouts and tile sizes through C19; promise invariants) + observation differential: "
                 "generated JDF -> parsec-ptgpp -> cc -> run on 1..4 MPI ranks, compared with the extracted reference interpreter; "
                 "property oracle on the observations alone")
    rule = ("a case = random tree of 2..5 task classes (fan-out, chains, replicated consumers; plus a family with two data flows "
            "per consumer fed by several messages of one producer flow and gated by control flows) with random [type]/[type_remote]/"
            "[type_data] attributes over 5 shapes, tile 2..5, element 1/4/8 bytes, random placement, each program run under up to 3 "
            "configurations (1 rank; 2..4 ranks with and without short messages; MPI_THREAD_MULTIPLE or SERIALIZED). Non-trivial = at "
            "least one typed dependency or memory access; distinct = program text + number of ranks + short flag")
    trusted = ("harness/reshape_driver.c: arena allocator hook, MPI_Sendrecv interposition (PMPI), one-dimensional collection",
               "checks/C18.py + tools/gen_reshape.py: JDF printer, merge and canonical naming of copies (collection tile D<i>, "
               "fresh copies f<n> in order of first appearance in the sorted task list)")
    assumptions = ("MPI_Sendrecv/Pack/Unpack move data by type signature (MPI-3.1 section 4.1); Open MPI 4.1 truncation behaviour as observed",
                   "on a remote edge the packed size of the sender's type equals that of every receiver's type (other programs are "
                   "rejected by the generator: the short-message path then receives bytes, the rendez-vous path aborts in MPI)",
                   "with short messages a producer instance sends at most one message per remote rank (the documented unsupported case of "
                   "tests/collections/reshape/testing_remote_multiple_outs_same_pred_flow.c is excluded)",
                   "broadcast topology star (runtime_comm_coll_bcast=0) unless a producer sends a single message (then also chain and "
                   "binomial): two messages with different destination sets abort in a relay (C13 finding F8); a relay forwards the "
                   "payload unchanged (observed, not modelled)",
                   "generated programs have no data race between task bodies (bodies modify a tile only on pure chains)")

    # ----------------------------------------------------------------- cases
    def model_filter(self, cases):
        """keep the cases the model accepts (remote size precondition, well-formedness)"""
        if not cases:
            return []
        os.makedirs(vcheck.CASES, exist_ok=True)
        cf = os.path.join(vcheck.CASES, "%s-filter-%d.txt" % (self.id, self.seed))
        with open(cf, "w") as f:
            for c in cases:
                f.write(c + "\n")
        rc, o, e = run([self.mbin(), cf], timeout=600)
        lines = o.splitlines()
        if len(lines) != len(cases):
            return cases
        return [c for c, l in zip(cases, lines) if not l.startswith("<")]

    def cases(self):
        r = self.rng
        nprog = int(os.environ.get("VERIF_C18_NPROG", "22" if self.tier == "quick" else "240"))
        out, tries, i = [], 0, 0
        while i < nprog and tries < 40 * nprog:
            tries += 1
            p = G.gen_program(r, nranks=1, clean=(i % 2 == 0), maxcls=4 if self.tier == "quick" else 5)
            nr = r.pick([2, 2, 3, 4])
            cfgs = [(1, 1)]
            if G.short_conflict(G.with_config(p, nr, 1)):
                cfgs.append((nr, 0))
            else:
                cfgs.append((nr, r.pick([0, 1])))
                if r.chance(1, 3):
                    cfgs.append((nr, 1 - cfgs[-1][1]))
            mine = []
            for (n, sh) in cfgs:
                q = G.with_config(p, n, sh, cores=(p.cores if n == 1 else (min(p.cores, 2) if n == 2 else 1)))
                # every conversion the program DECLARES must fit (a program that packs more than it unpacks is
                # erroneous by itself: MPI truncation)
                if G.declared(q)[0]:
                    mine.append(G.to_case(q) + " V %d" % self.model_fixed)
            if len(mine) >= 2 or (mine and r.chance(1, 4)):
                out += mine
                i += 1
        # the family with a second data flow and control gates (tools/gen_reshape.py:gen_twoflow), two ranks, rendez-vous
        for _ in range(int(os.environ.get("VERIF_C18_NTWO", "4" if self.tier == "quick" else "40"))):
            p = G.gen_twoflow(r)
            for q in (p, G.with_config(p, 1, 1)) if r.chance(1, 3) else (p,):
                if G.declared(q)[0]:
                    out.append(G.to_case(q) + " V %d" % self.model_fixed)
        # the family of the forwarding broadcast (tools/gen_reshape.py:gen_bcast): 3..4 ranks, chain and binomial trees, star as
        # control, with and without short messages
        for i in range(int(os.environ.get("VERIF_C18_NBCAST", "2" if self.tier == "quick" else "20"))):
            p = G.gen_bcast(r, nranks=r.pick([3, 3, 4]))
            if not (G.declared(p)[0] and G.single_message(p)):
                continue
            for bc in ((1, 2) if i % 2 == 0 else (2, 1, 0)):
                q = G.with_config(p, p.nranks, p.short if bc == 1 else 1 - p.short)
                q.bcast = bc
                out.append(G.to_case(q) + " V %d" % self.model_fixed)
        return self.model_filter(out)

    def corpus(self):
        return [c if " V " in c else c + " V %d" % self.model_fixed for c in Check.corpus(self)]

    def search_cases(self):
        # directed: every pair of output types towards two local consumers, every (to, ti) pair on a single edge
        out = []
        for a in range(0, 4):
            for b in range(0, 4):
                out.append("R 1 1 0 2 M 3 4 N 1 O 3 0 0 0 C 3 c 1 W 0 D 0 0 2 E 1 %d 0 E 2 %d 0 c 1 R 0 T 0 0 0 0 0 c 1 R 0 T 0 0 0 0 0 V %d"
                           % (a, b, self.model_fixed))
                out.append("R 1 1 0 2 M 3 4 N 1 O 2 0 0 C 2 c 1 W 0 D 0 0 1 E 1 %d 0 c 1 W 0 T 0 0 %d 0 1 M 0 0 V %d"
                           % (a, b, self.model_fixed))
        for a in (2, 3):
            for b in (2, 3):
                out.append("R 2 0 0 2 M 3 4 N 1 O 2 0 1 C 2 c 1 W 0 D 0 0 1 E 1 0 %d c 1 W 0 T 0 0 0 %d 1 M 0 0 V %d"
                           % (a, b, self.model_fixed))
        out = [c for c in out if G.declared(self._prog(c))[0]]
        return self.model_filter(out)

    @staticmethod
    def _prog(case):
        return G.parse_case(case.split(" V ")[0])

    def nontrivial_key(self, case):
        try:
            p = self._prog(case)
        except Exception:
            return None
        typed = 0
        for c in p.classes:
            typed += sum(1 for x in c.inp[1:] if c.inp[0] == "D" and x) + (sum(1 for x in c.inp[3:] if x) if c.inp[0] == "T" else 0)
            for o in c.outs:
                typed += sum(1 for x in (o[2:] if o[0] == "E" else o[1:]) if x)
        if typed == 0:
            return None
        return (G.to_jdf(p), p.nranks, p.short)

    def dist(self, cases):
        d = {"cases": len(cases), "ranks": {}, "short": {}, "mt": {}, "classes": {}, "mb": {}, "esz": {}, "remote_edges": 0,
             "local_edges": 0, "typed_out": 0, "typed_in": 0, "type_remote": 0, "writebacks": 0, "typed_reads": 0,
             "replicated": 0, "modify": 0}
        for c in cases:
            try:
                p = self._prog(c)
            except Exception:
                continue
            for k, v in (("ranks", p.nranks), ("short", p.short), ("mt", p.mt), ("classes", len(p.classes)), ("mb", p.mb), ("esz", p.esz)):
                d[k][str(v)] = d[k].get(str(v), 0) + 1
            for ci, C in enumerate(p.classes):
                d["replicated"] += 1 if C.R > 1 else 0
                d["modify"] += C.modify
                if C.inp[0] == "D":
                    d["typed_reads"] += 1 if (C.inp[1] or C.inp[2]) else 0
                else:
                    d["typed_in"] += 1 if C.inp[3] else 0
                    d["type_remote"] += 1 if C.inp[4] else 0
                for o in C.outs:
                    if o[0] == "M":
                        d["writebacks"] += 1
                    else:
                        d["typed_out"] += 1 if o[2] else 0
                        d["type_remote"] += 1 if o[3] else 0
                if C.R == 1:
                    for k in range(p.nt):
                        me = p.rank_of(ci, k, 0)
                        for u in G.succs(p, ci, k):
                            d["remote_edges" if u["rank"] != me else "local_edges"] += 1
        return d

    # ---------------------------------------------------------------- oracle
    @staticmethod
    def expected_local(d, to, ti):
        """CHANGELOG.ptg.md, 'propagation of dependencies between local tasks': (pack, unpack) or None (no reshape)"""
        p = d if (to == 0 or to == d) else to
        u = p if ti == 0 else ti
        return None if (p == d and u == d) else (p, u)

    def oracle(self, case, obs):
        r = self.judge(case, obs)
        return r[0] if r else None

    def judge(self, case, obs):
        """-> None (property holds on this observation) or (why, class of failure, detail for the signature)"""
        try:
            p = self._prog(case)
        except Exception:
            return None
        O = Obs(obs)
        if obs.strip() == "TIMEOUT":
            return ("the program did not terminate within the time limit", "hang", None)
        if O.crash:
            return ("the program crashed: no consumer observed its copy", "crash", None)
        if O.bad:
            return (O.bad, "unreadable", None)
        mb, esz = p.mb, p.esz
        nb = mb * mb * esz
        sel = {s: sel_bytes(s, mb, esz) for s in range(1, 6)}
        code = {n: i for i, n in enumerate(SHN)}
        # every instance ran once and saw a tile
        for ci, C in enumerate(p.classes):
            for k in range(p.nt):
                for r in range(C.R):
                    if (ci, k, r) not in O.tasks or (C.inp2 and (ci, k, r) not in O.tasksb):
                        return ("instance C%d(%d,%d) did not run" % (ci, k, r), "missing-task", None)
        for key, (ptr, dtt, data) in O.tasksb.items():
            if len(data) != nb:
                return ("C%d(%d,%d).B logged %d bytes (pointer %s)" % (key + (len(data), ptr)), "flowB", "null")
        after = {}
        for key, (ptr, dtt, data) in O.tasks.items():
            if len(data) != nb:
                return ("C%d(%d,%d) logged %d bytes" % (key + (len(data),)), "unreadable", None)
            m = p.classes[key[0]].modify
            after[key] = [x ^ (key[0] + 1) for x in data] if m else data
        # O0: what a class that reads the collection observes (CHANGELOG.ptg.md, "Reading from matrix")
        for ci, C in enumerate(p.classes):
            if C.inp[0] != "D":
                continue
            _, ty, td = C.inp
            src, dst = (td or 1), (ty or td)
            for k in range(p.nt):
                for r in range(C.R):
                    t = p.tile(ci, k, r)
                    init = [(37 * t + 11 * b + 5) & 0xff for b in range(nb)]
                    ptr, dtt, R = O.tasks[(ci, k, r)]
                    where = "C%d(%d,%d) <- descA(%d)" % (ci, k, r, t)
                    if (ty == 0 and td == 0) or dst == 1:
                        if ptr != "D%d" % t:
                            return ("%s: no conversion is declared but the task was given a copy (%s) instead of the tile" % (where, ptr),
                                    "read", "copied")
                        if R != init:
                            return ("%s: the tile does not hold its initial content" % where, "read", "data")
                    else:
                        if ptr.startswith("D"):
                            return ("%s: a conversion %s -> %s is declared but the task was given %s" % (where, SHN[src], SHN[dst], ptr),
                                    "read", "aliased")
                        n = min(len(sel[src]), len(sel[dst]))
                        got = set(sel[dst][:n])
                        for j in range(n):
                            if R[sel[dst][j]] != init[sel[src][j]]:
                                return ("%s: declared conversion %s -> %s, byte %d of the copy (selected #%d) is %02x, the tile's selected "
                                        "#%d is %02x" % (where, SHN[src], SHN[dst], sel[dst][j], j, R[sel[dst][j]], j, init[sel[src][j]]),
                                        "read", "data")
                        for b in range(nb):
                            if b not in got and R[b] != 0xEE:
                                return ("%s: byte %d of the fresh copy is outside %s but holds %02x" % (where, b, SHN[dst], R[b]),
                                        "read", "unselected")
        # O1: delivery along every edge (both data flows of a consumer)
        delivered = {}
        allowed = {}      # (source copy, pack type, unpack type) -> number of promises that declare this conversion
        for ci, C in enumerate(p.classes):
            if C.inp[0] == "D" and (C.inp[1] or C.inp[2]):
                src, dst = (C.inp[2] or 1), (C.inp[1] or C.inp[2])
                if dst != 1:
                    for k in range(p.nt):
                        for r in range(C.R):      # every task reading the tile with a conversion makes its own copy
                            akey = ("D%d" % p.tile(ci, k, r), SHN[src], SHN[dst])
                            allowed[akey] = allowed.get(akey, 0) + 1
        for ci, C in enumerate(p.classes):
            if C.R != 1:
                continue
            for k in range(p.nt):
                me = p.rank_of(ci, k, 0)
                sptr, sdtt, _ = O.tasks[(ci, k, 0)]
                P = after[(ci, k, 0)]
                d = code.get(sdtt, 0)
                ss = G.succs(p, ci, k)
                seen_local = 0
                for u in ss:
                    key = (u["q"], u["k"], u["r"])
                    tptr, tdtt, R = (O.tasks if u["flow"] == "A" else O.tasksb)[key]
                    local = (u["rank"] == me)
                    where = "C%d(%d,%d)%s <- C%d(%d,0)" % (key + (".B" if u["flow"] == "B" else "", ci, k))
                    delivered.setdefault(key, {})[u["flow"]] = (ci, k, local, u["to"], u["tro"], u["ti"], u["tri"], tptr)
                    if local:
                        exp = self.expected_local(d, u["to"], u["ti"])
                        cls = "local-later" if seen_local else "local-first"
                        seen_local += 1
                    else:
                        exp = (u["tro"] or d, u["tri"] or 1)
                        cls = "remote"
                    if exp is None:
                        if tptr != sptr:
                            return ("%s: shapes are identical but the consumer was given another copy (%s, producer has %s)"
                                    % (where, tptr, sptr), cls, "copied")
                        if R != P:
                            return ("%s: shares the producer's copy but does not see the producer's data" % where, cls, "data")
                        continue
                    pk, un = exp
                    if pk not in sel or un not in sel:
                        return ("%s: producer copy of unknown type %s" % (where, sdtt), cls, "type")
                    if tptr == sptr:
                        return ("%s: a conversion %s -> %s is declared but the consumer was given the producer's own copy"
                                % (where, SHN[pk], SHN[un]), cls, "aliased")
                    if tptr.startswith("D"):
                        return ("%s: the consumer's converted copy is a tile of the collection (%s)" % (where, tptr), cls, "aliased")
                    n = min(len(sel[pk]), len(sel[un]))
                    for j in range(n):
                        if R[sel[un][j]] != P[sel[pk][j]]:
                            return ("%s: declared conversion %s -> %s, but byte %d of the consumer's copy (selected #%d) is %02x, "
                                    "the producer's selected #%d (byte %d) is %02x; consumer copy %s of type %s"
                                    % (where, SHN[pk], SHN[un], sel[un][j], j, R[sel[un][j]], j, sel[pk][j], P[sel[pk][j]], tptr, tdtt),
                                    cls, "data")
                    if len(sel[pk]) <= len(sel[un]):
                        got = set(sel[un][:n])
                        for b in range(nb):
                            if b not in got and R[b] != 0xEE:
                                return ("%s: byte %d of the consumer's fresh copy is outside the received part of %s but holds %02x "
                                        "(a fresh arena chunk holds ee)" % (where, b, SHN[un], R[b]), cls, "unselected")
                # consumers of this instance on one rank with the same declared conversion share one copy
                groups = {}
                for u in ss:
                    if u["rank"] != me:
                        continue
                    exp = self.expected_local(d, u["to"], u["ti"])
                    if exp is not None:
                        groups.setdefault(exp, set()).add((O.tasks if u["flow"] == "A" else O.tasksb)[(u["q"], u["k"], u["r"])][0])
                for exp in groups:
                    # this producer instance owns one promise: one conversion per distinct declared (pack, unpack)
                    akey = (sptr, SHN[exp[0]], SHN[exp[1]])
                    allowed[akey] = allowed.get(akey, 0) + 1
                for exp, ptrs in groups.items():
                    if len(ptrs) > 1:
                        return ("consumers of C%d(%d,0) with the same conversion %s -> %s hold different copies %s"
                                % (ci, k, SHN[exp[0]], SHN[exp[1]], sorted(ptrs)), "local-later", "not-shared")
        # two data flows of one task that were sent as two different messages, or converted differently, are two copies
        for key, fl in delivered.items():
            if "A" in fl and "B" in fl:
                a, b = fl["A"], fl["B"]
                same = a[:2] == b[:2] and a[2] == b[2] and ((a[3], a[5]) == (b[3], b[5]) if a[2] else (a[3], a[4], a[6]) == (b[3], b[4], b[6]))
                if not same and a[7] == b[7]:
                    return ("C%d(%d,%d): flows A and B were delivered differently (%s / %s) but alias one copy %s"
                            % (key + (a[3:7], b[3:7], a[7])), "remote" if not a[2] else "local-later", "aliased-flows")
        # O4: a reshape promise is fulfilled at most once per requested shape.  A promise belongs to ONE producer
        # instance: two producers that hold the same copy (passed on without conversion) each convert it for their own
        # consumers, so a (source copy, pack type, unpack type) may occur once per promise that declares it.
        seen = {}
        dtt_of = {ptr: dtt for (ptr, dtt, _) in O.tasks.values()}
        for (sp, st, sc, dp, dt) in O.convs:
            if dp.startswith("D"):
                continue
            if sp == dp:
                return ("a conversion was applied in place on copy %s" % sp, "conversion", "in-place")
            if sp != "u":
                seen[(sp, st, dt)] = seen.get((sp, st, dt), 0) + 1
                if seen[(sp, st, dt)] > max(1, allowed.get((sp, st, dt), 0)):
                    return ("copy %s was converted %s -> %s %d times, %d promise(s) declare this conversion"
                            % (sp, st, dt, seen[(sp, st, dt)], allowed.get((sp, st, dt), 0)), "conversion", "twice")
                # O5: no conversion when the shapes are identical
                if st == dt and dtt_of.get(sp) == st:
                    return ("copy %s of type %s was converted to its own type" % (sp, st), "conversion", "identity")
        # final content of the collection: only declared write-backs and in-place bodies may change a tile
        for ci, C in enumerate(p.classes):
            wb = [o for o in C.outs if o[0] == "M"]
            for k in range(p.nt):
                for r in range(C.R):
                    t = p.tile(ci, k, r)
                    init = [(37 * t + 11 * b + 5) & 0xff for b in range(nb)]
                    for key, (ptr, dtt, data) in O.tasks.items():
                        if ptr == "D%d" % t and p.classes[key[0]].modify:
                            init = [x ^ (key[0] + 1) for x in init]
                    fin = O.tiles.get(t)
                    if fin is None:
                        return ("tile %d missing from the final dump" % t, "unreadable", None)
                    exp = list(init)
                    ptr, dtt, _ = O.tasks[(ci, k, r)]
                    if wb and ptr != "D%d" % t:
                        pk = wb[0][1] or code.get(dtt, 0)
                        un = wb[0][2] or 1
                        if pk in sel and un in sel and len(sel[pk]) <= len(sel[un]):
                            src = after[(ci, k, r)]
                            for j in range(len(sel[pk])):
                                exp[sel[un][j]] = src[sel[pk][j]]
                        else:
                            continue
                    if fin != exp:
                        b = [i for i in range(nb) if fin[i] != exp[i]][0]
                        return ("tile %d of the collection: byte %d is %02x at the end, expected %02x (%s)"
                                % (t, b, fin[b], exp[b], "after the write-back of C%d(%d,%d)" % (ci, k, r) if wb else "nobody writes it back"),
                                "collection", "writeback" if wb else "altered")
        return None

    def signature(self, case, obs):
        """stable class of a failing input (KNOWN_FINDINGS matching)"""
        r = self.judge(case, obs)
        if not r:
            return "none"
        why, cls, detail = r
        try:
            p = self._prog(case)
        except Exception:
            return cls
        mixed = G.mixed_outputs(p)
        if cls in ("crash", "hang"):
            # the known crashes need a producer that serves one rank through output dependencies of different [type]
            return "%s-mixed-outputs" % cls if mixed else cls
        if cls == "local-later" and mixed:
            # a local consumer that is not the first one served by its producer: it received the promise carried over
            # from the previous output dependency
            return "stale-promise"
        if cls in ("collection", "conversion") and mixed:
            return "stale-promise-%s" % cls
        return "%s-%s" % (cls, detail) if detail else cls
