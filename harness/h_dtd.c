/* C03 / C04 (and the base of C17) harness: runs an insertion sequence through the
 * real DTD interface (parsec_dtd_insert_task on real tiles of one int32 each)
 * and prints what the test-owned task bodies observed.
 *
 * case line:
 *   dtd <ndata> <threads> <sched> <window> <threshold> <spin> <flags> | <task> ; <task> ; ...
 *   <task>  = access list "<datum><mode>" separated by blanks, mode r|w|x (x = read-write);
 *             "." or nothing = a task without data; a task may name one datum several times.
 *             A task prefixed by ">" is inserted by the body of the closest preceding
 *             task that is not prefixed (nested insertion).
 *             A field "!" is not a task: the inserting thread calls parsec_taskpool_wait there
 *             (everything inserted so far completes) and goes on inserting.
 *   sched: scheduler component (--mca mca_sched), "default" = none given
 *   window/threshold: values of --mca dtd_window_size / dtd_threshold_size (window 0 = defaults)
 *   spin: seed of the per-task busy wait (0 = no wait)
 *   flags: bit0 = skip parsec_dtd_data_flush_all before the wait
 *          bit1 = "hold": every body waits until the main thread has inserted the whole
 *                 sequence, or reached the first wait point "!" (only used when the window
 *                 never blocks the inserting thread)
 *
 * observation line (schedule independent when C03/C04 hold):
 *   in: <t>=<v>,<v> ... | data: v ... | runs: c ... | conflicts=<n> null=<k>
 *   in     per task, the values read through its r/x flows, in flow order ("-" for none,
 *          "N" when the runtime handed the body a NULL pointer for that flow)
 *   data   final content of every datum (read from the collection's memory after the wait)
 *   runs   executions of every task
 *   conflicts  number of conflicting overlaps seen by the per-datum in-flight counters
 *              (writer entering while a reader/writer of the datum is inside, reader
 *              entering while a writer is inside, value changed under a reader)
 *   null   number of flows for which a body received a NULL pointer
 *
 * The cases are grouped by configuration (threads, scheduler, window, threshold); each
 * group runs in a forked worker process (MPI_Init_thread + parsec_init with the group's
 * thread count and "--mca mca_sched/dtd_window_size/dtd_threshold_size" values), one
 * fresh DTD taskpool and data collection per case.  A hang or a crash of the runtime
 * costs one line: the worker is replaced for the remaining cases of the group (after 3 hangs
 * the time-out drops to 2.5 s, after 12 the remaining cases are reported as not run).  Side
 * statistics (max concurrent readers ...) go to stderr as "#stat" lines. */
#include "parsec/runtime.h"
#include "parsec/data_dist/matrix/two_dim_rectangle_cyclic.h"
#include "parsec/interfaces/dtd/insert_function.h"
#include "parsec/interfaces/dtd/insert_function_internal.h"
#include "parsec/sys/atomic.h"
#include "hcommon.h"
#include <mpi.h>
#include <unistd.h>
#include <poll.h>
#include <signal.h>
#include <sys/wait.h>
#include <time.h>
#include <sched.h>

#define MAXT 1024
#define MAXD 32
#define MAXF 8
#define PMOD 1000003u

typedef struct { int nacc; int d[MAXF]; char m[MAXF]; int nested; int nchild; int wait_before; } task_t;
typedef struct {
    int ndata, threads, window, threshold, spin, flags, ntasks;
    char sched[32];
    task_t t[MAXT];
} case_t;
static case_t C;                      /* the case being run */

/* ---- observations (shared with the worker threads of the runtime) ---- */
static int32_t obs_in[MAXT][MAXF];
static uint8_t obs_null[MAXT][MAXF];
static volatile int32_t runs[MAXT];
static volatile int32_t in_w[MAXD], in_r[MAXD];
static volatile int32_t conflicts, nulls, max_w[MAXD], max_rw[MAXD], max_r[MAXD];
static volatile int32_t go_flag;
static parsec_taskpool_t *g_tp;
static parsec_data_collection_t *g_A;
static parsec_dtd_tile_t *g_tile[MAXD];
static int g_region;

static uint32_t Fval(int tid, const int32_t *in, int n) {
    uint64_t a = (uint64_t)tid + 1;
    for (int i = 0; i < n; i++) a = (a * 31 + (uint64_t)(uint32_t)in[i] + 7) % PMOD;
    return (uint32_t)((a * 17 + 3) % PMOD);
}
static void amax(volatile int32_t *p, int32_t v) {
    int32_t o = *p;
    while (v > o && !parsec_atomic_cas_int32(p, o, v)) o = *p;
}
static uint64_t mix(uint64_t z) {
    z += 0x9E3779B97F4A7C15ull; z = (z ^ (z >> 30)) * 0xBF58476D1CE4E5B9ull;
    z = (z ^ (z >> 27)) * 0x94D049BB133111EBull; return z ^ (z >> 31);
}
static long usec_since(const struct timespec *t0) {
    struct timespec t1; clock_gettime(CLOCK_MONOTONIC, &t1);
    return (t1.tv_sec - t0->tv_sec) * 1000000L + (t1.tv_nsec - t0->tv_nsec) / 1000;
}
static void spin_for(int tid) {
    if (!C.spin) return;
    uint64_t h = mix((uint64_t)C.spin * 1000003ull + (uint64_t)tid);
    long us = (h % 8 == 0) ? 150 + (long)((h >> 8) % 350) : (long)((h >> 8) % 50);   /* mostly short, sometimes long */
    struct timespec t0; clock_gettime(CLOCK_MONOTONIC, &t0);
    while (usec_since(&t0) < us) { }
}
/* strongest mode of task t on datum d: 0 none, 1 read, 2 write */
static int mode_on(const task_t *t, int d) {
    int r = 0;
    for (int j = 0; j < t->nacc; j++) if (t->d[j] == d) { if (t->m[j] != 'r') return 2; r = 1; }
    return r;
}
static void insert_one(int tid);

static int body(parsec_execution_stream_t *es, parsec_task_t *this_task) {
    int tid = -1; int32_t *p[MAXF] = {0};
    (void)es;
    parsec_dtd_unpack_args(this_task, &tid, &p[0], &p[1], &p[2], &p[3], &p[4], &p[5], &p[6], &p[7]);
    const task_t *t = &C.t[tid];
    int32_t in[MAXF]; int nin = 0;
    if (C.flags & 2) while (!go_flag) sched_yield();
    /* enter */
    for (int d = 0; d < C.ndata; d++) {
        int m = mode_on(t, d);
        if (m == 2) {
            int32_t w = parsec_atomic_fetch_inc_int32(&in_w[d]) + 1;
            int32_t r = in_r[d];
            amax(&max_w[d], w);
            if (w > 1) parsec_atomic_fetch_inc_int32(&conflicts);
            if (r > 0) { amax(&max_rw[d], r); parsec_atomic_fetch_inc_int32(&conflicts); }
        } else if (m == 1) {
            int32_t r = parsec_atomic_fetch_inc_int32(&in_r[d]) + 1;
            int32_t w = in_w[d];
            amax(&max_r[d], r);
            if (w > 0) { amax(&max_rw[d], r); parsec_atomic_fetch_inc_int32(&conflicts); }
        }
    }
    for (int j = 0; j < t->nacc; j++) {
        if (NULL == p[j]) { obs_null[tid][j] = 1; parsec_atomic_fetch_inc_int32(&nulls); }
        if (t->m[j] != 'w') { in[nin] = p[j] ? *(volatile int32_t *)p[j] : -1; obs_in[tid][nin] = in[nin]; nin++; }
    }
    spin_for(tid);
    /* a value read must still be there: nobody may write a datum this task holds */
    for (int j = 0, k = 0; j < t->nacc; j++)
        if (t->m[j] != 'w') { if (p[j] && *(volatile int32_t *)p[j] != in[k]) parsec_atomic_fetch_inc_int32(&conflicts); k++; }
    uint32_t v = Fval(tid, in, nin);
    for (int j = 0; j < t->nacc; j++)
        if (t->m[j] != 'r' && p[j]) *(volatile int32_t *)p[j] = (int32_t)v;
    /* nested insertion: this body inserts its children, in order */
    for (int c = 0; c < t->nchild; c++) insert_one(tid + 1 + c);
    /* exit */
    for (int d = 0; d < C.ndata; d++) {
        int m = mode_on(t, d);
        if (m == 2) parsec_atomic_fetch_dec_int32(&in_w[d]);
        else if (m == 1) parsec_atomic_fetch_dec_int32(&in_r[d]);
    }
    parsec_atomic_fetch_inc_int32(&runs[tid]);
    return PARSEC_HOOK_RETURN_DONE;
}

static int opf(char m) { return m == 'r' ? PARSEC_INPUT : m == 'w' ? PARSEC_OUTPUT : PARSEC_INOUT; }
#define ARG(j) PASSED_BY_REF, g_tile[t->d[j]], (opf(t->m[j]) | g_region | ((j) == 0 ? PARSEC_AFFINITY : 0))
static void insert_one(int tid) {
    const task_t *t = &C.t[tid];
#define HEAD g_tp, body, 0, PARSEC_DEV_CPU, "T", sizeof(int), &tid, PARSEC_VALUE
    switch (t->nacc) {
    case 0: parsec_dtd_insert_task(HEAD, PARSEC_DTD_ARG_END); break;
    case 1: parsec_dtd_insert_task(HEAD, ARG(0), PARSEC_DTD_ARG_END); break;
    case 2: parsec_dtd_insert_task(HEAD, ARG(0), ARG(1), PARSEC_DTD_ARG_END); break;
    case 3: parsec_dtd_insert_task(HEAD, ARG(0), ARG(1), ARG(2), PARSEC_DTD_ARG_END); break;
    case 4: parsec_dtd_insert_task(HEAD, ARG(0), ARG(1), ARG(2), ARG(3), PARSEC_DTD_ARG_END); break;
    case 5: parsec_dtd_insert_task(HEAD, ARG(0), ARG(1), ARG(2), ARG(3), ARG(4), PARSEC_DTD_ARG_END); break;
    case 6: parsec_dtd_insert_task(HEAD, ARG(0), ARG(1), ARG(2), ARG(3), ARG(4), ARG(5), PARSEC_DTD_ARG_END); break;
    case 7: parsec_dtd_insert_task(HEAD, ARG(0), ARG(1), ARG(2), ARG(3), ARG(4), ARG(5), ARG(6), PARSEC_DTD_ARG_END); break;
    default: parsec_dtd_insert_task(HEAD, ARG(0), ARG(1), ARG(2), ARG(3), ARG(4), ARG(5), ARG(6), ARG(7), PARSEC_DTD_ARG_END); break;
    }
}

/* ---- case parsing ---- */
static int parse_case(const char *line, case_t *c) {
    static char l[HC_MAXLINE];
    strncpy(l, line, HC_MAXLINE - 1); l[HC_MAXLINE - 1] = 0;
    char *bar = strchr(l, '|');
    if (!bar) return 0;
    *bar = 0;
    memset(c, 0, sizeof(*c));
    if (sscanf(l, "dtd %d %d %31s %d %d %d %d", &c->ndata, &c->threads, c->sched, &c->window, &c->threshold,
               &c->spin, &c->flags) != 7) return 0;
    if (c->ndata < 1 || c->ndata > MAXD || c->threads < 1 || c->threads > 64 || c->window < 0 || c->threshold < 0) return 0;
    char *s = bar + 1; int last_top = -1, barrier = 0;
    for (;;) {
        while (*s == ' ') s++;
        if (*s == 0) break;
        if (*s == '!') {                                   /* wait point */
            s++; while (*s == ' ') s++;
            if (*s == ';') s++; else if (*s) return 0;
            barrier = 1; continue;
        }
        if (c->ntasks >= MAXT) return 0;
        task_t *t = &c->t[c->ntasks];
        t->wait_before = barrier; barrier = 0;
        if (*s == '>') { s++; t->nested = 1; if (last_top < 0) return 0; c->t[last_top].nchild++; }
        else last_top = c->ntasks;
        while (*s && *s != ';') {
            if (*s == ' ' || *s == '.') { s++; continue; }
            char *e; long d = strtol(s, &e, 10);
            if (e == s || d < 0 || d >= c->ndata || t->nacc >= MAXF) return 0;
            if (*e != 'r' && *e != 'w' && *e != 'x') return 0;
            t->d[t->nacc] = (int)d; t->m[t->nacc] = *e; t->nacc++;
            s = e + 1;
        }
        c->ntasks++;
        if (*s == ';') s++;
    }
    return 1;
}
typedef struct { int threads, window, threshold; char sched[32]; } cfg_t;
static void cfg_of(const case_t *c, cfg_t *g) {
    memset(g, 0, sizeof *g); g->threads = c->threads; g->window = c->window; g->threshold = c->threshold; strcpy(g->sched, c->sched);
}

/* ---- worker process: one parsec context, several cases ---- */
static parsec_context_t *ctx;
static int worker_init(const case_t *c) {
    int prov;
    static char *pv[16]; int pc = 0; static char wbuf[16], hbuf[16], sbuf[32];
    MPI_Init_thread(NULL, NULL, MPI_THREAD_SERIALIZED, &prov);
    strcpy(sbuf, c->sched);
    if (strcmp(c->sched, "default")) { pv[pc++] = "--mca"; pv[pc++] = "mca_sched"; pv[pc++] = sbuf; }
    if (c->window > 0) {
        snprintf(wbuf, sizeof wbuf, "%d", c->window); pv[pc++] = "--mca"; pv[pc++] = "dtd_window_size"; pv[pc++] = wbuf;
        snprintf(hbuf, sizeof hbuf, "%d", c->threshold); pv[pc++] = "--mca"; pv[pc++] = "dtd_threshold_size"; pv[pc++] = hbuf;
    }
    pv[pc] = NULL;
    char **ppv = pv;
    ctx = parsec_init(c->threads, &pc, &ppv);
    return ctx != NULL;
}
static void worker_fini(void) {
    parsec_fini(&ctx);
    MPI_Finalize();
}

static void run_case(FILE *out) {
    int rc;
    memset(obs_in, 0, sizeof obs_in); memset(obs_null, 0, sizeof obs_null);
    memset((void *)runs, 0, sizeof runs); memset((void *)in_w, 0, sizeof in_w); memset((void *)in_r, 0, sizeof in_r);
    memset((void *)max_w, 0, sizeof max_w); memset((void *)max_rw, 0, sizeof max_rw); memset((void *)max_r, 0, sizeof max_r);
    conflicts = 0; nulls = 0; go_flag = 0;

    parsec_matrix_block_cyclic_t *m = calloc(1, sizeof(*m));
    parsec_matrix_block_cyclic_init(m, PARSEC_MATRIX_INTEGER, PARSEC_MATRIX_TILE, 0,
                                    1, 1, C.ndata, 1, 0, 0, C.ndata, 1, 1, 1, 1, 1, 0, 0);
    m->mat = parsec_data_allocate((size_t)m->super.nb_local_tiles * (size_t)m->super.bsiz *
                                  (size_t)parsec_datadist_getsizeoftype(m->super.mtype));
    int32_t *mem = (int32_t *)m->mat;
    for (int d = 0; d < C.ndata; d++) mem[d] = 100 + d;
    g_A = (parsec_data_collection_t *)m;
    parsec_data_collection_set_key(g_A, "A");

    g_tp = parsec_dtd_taskpool_new();
    parsec_arena_datatype_t *adt = parsec_matrix_adt_new_rect(parsec_datatype_int32_t, 1, 1, 1);
    parsec_dtd_attach_arena_datatype(ctx, adt, &g_region);
    parsec_dtd_data_collection_init(g_A);
    rc = parsec_context_add_taskpool(ctx, g_tp);
    if (rc < 0) { fprintf(out, "<add_taskpool rc=%d>\n", rc); return; }
    rc = parsec_context_start(ctx);
    if (rc < 0) { fprintf(out, "<context_start rc=%d>\n", rc); return; }
    /* tile handles are created serially, before any (possibly concurrent) insertion */
    for (int d = 0; d < C.ndata; d++) g_tile[d] = PARSEC_DTD_TILE_OF_KEY(g_A, g_A->data_key(g_A, d, 0));

    int has_nested = 0;
    for (int i = 0; i < C.ntasks; i++) {
        if (C.t[i].wait_before) {
            /* under "hold" the bodies are released at the first wait point: everything before it
             * was inserted while its predecessors were still alive */
            if (C.flags & 2) { parsec_mfence(); go_flag = 1; }
            rc = parsec_taskpool_wait(g_tp);
            if (rc < 0) { fprintf(out, "<taskpool_wait rc=%d>\n", rc); return; }
        }
        if (!C.t[i].nested) insert_one(i); else has_nested = 1;
    }
    parsec_mfence();
    go_flag = 1;
    /* nested insertions happen inside bodies: all of them must be done before the flush
     * tasks are inserted (flushes are serialized with the insertions on the same tile) */
    if (has_nested) { rc = parsec_taskpool_wait(g_tp); if (rc < 0) { fprintf(out, "<taskpool_wait rc=%d>\n", rc); return; } }
    if (!(C.flags & 1)) parsec_dtd_data_flush_all(g_tp, g_A);
    rc = parsec_taskpool_wait(g_tp);
    if (rc < 0) { fprintf(out, "<taskpool_wait rc=%d>\n", rc); return; }

    /* observation */
    fprintf(out, "in:");
    for (int i = 0; i < C.ntasks; i++) {
        fprintf(out, " %d=", i);
        int k = 0;
        for (int j = 0; j < C.t[i].nacc; j++)
            if (C.t[i].m[j] != 'w') {
                if (k) fprintf(out, ",");
                if (!runs[i]) fprintf(out, "?"); else if (obs_null[i][j]) fprintf(out, "N"); else fprintf(out, "%d", (int)obs_in[i][k]);
                k++;
            }
        if (!k) fprintf(out, "-");
    }
    fprintf(out, " | data:");
    for (int d = 0; d < C.ndata; d++) fprintf(out, " %d", (int)mem[d]);
    fprintf(out, " | runs:");
    for (int i = 0; i < C.ntasks; i++) fprintf(out, " %d", (int)runs[i]);
    fprintf(out, " | conflicts=%d null=%d\n", (int)conflicts, (int)nulls);
    fflush(out);
    {   int mw = 0, mrw = 0, mr = 0;
        for (int d = 0; d < C.ndata; d++) { if (max_w[d] > mw) mw = max_w[d]; if (max_rw[d] > mrw) mrw = max_rw[d]; if (max_r[d] > mr) mr = max_r[d]; }
        fprintf(stderr, "#stat maxw=%d maxrw=%d maxr=%d\n", mw, mrw, mr);
    }
    rc = parsec_context_wait(ctx);
    parsec_taskpool_free(g_tp);
    parsec_dtd_data_collection_fini(g_A);
    parsec_data_free(m->mat); m->mat = NULL;
    parsec_tiled_matrix_destroy((parsec_tiled_matrix_t *)m);
    free(m);
    parsec_dtd_free_arena_datatype(ctx, g_region);
}

/* ---- parent: groups, workers, time-outs ---- */
static char **lines; static char **result; static int ncases;

/* run cases idx[0..n) (same configuration) in one worker; returns the number of cases
 * consumed (finished or lost) */
static int nhangs;
static int run_group(const int *idx, int n, int tmo_ms) {
    int pfd[2];
    /* after a few hangs every further one is given less time, and after many the remaining
     * cases are not run: a broken runtime must not stretch the run to (cases) x (time-out) */
    if (nhangs >= 12) { result[idx[0]] = strdup("<not run: 12 cases hung before>"); return 1; }
    if (nhangs >= 3) tmo_ms = tmo_ms < 2500 ? tmo_ms : 2500;
    if (pipe(pfd)) { result[idx[0]] = strdup("<pipe failed>"); return 1; }
    fflush(stdout); fflush(stderr);
    pid_t pid = fork();
    if (pid == 0) {
        close(pfd[0]);
        FILE *out = fdopen(pfd[1], "w");
        parse_case(lines[idx[0]], &C);
        if (!worker_init(&C)) { fprintf(out, "<parsec_init failed>\n"); fflush(out); _exit(3); }
        fprintf(out, "#ready\n"); fflush(out);             /* start-up is not charged to the first case */
        for (int k = 0; k < n; k++) {
            parse_case(lines[idx[k]], &C);
            run_case(out);
            fflush(out);
        }
        worker_fini();
        _exit(0);
    }
    close(pfd[1]);
    static char buf[1 << 20]; size_t len = 0; int done = 0, timed_out = 0, ready = 0;
    struct timespec t0; clock_gettime(CLOCK_MONOTONIC, &t0);
    while (done < n) {
        long el = usec_since(&t0) / 1000;
        long lim = ready ? tmo_ms : (tmo_ms > 90000 ? tmo_ms : 90000);   /* MPI_Init + parsec_init can be slow */
        if (el >= lim) { timed_out = 1; break; }
        struct pollfd pf = { pfd[0], POLLIN, 0 };
        int pr = poll(&pf, 1, (int)(lim - el));
        if (pr == 0) { timed_out = 1; break; }
        if (pr < 0) continue;
        ssize_t k = read(pfd[0], buf + len, sizeof(buf) - 1 - len);
        if (k <= 0) break;
        len += (size_t)k; buf[len] = 0;
        char *nl;
        while (done < n && (nl = memchr(buf, '\n', len))) {
            *nl = 0;
            if (buf[0] == '#') ready = 1; else result[idx[done++]] = strdup(buf);
            size_t used = (size_t)(nl - buf) + 1;
            memmove(buf, nl + 1, len - used); len -= used; buf[len] = 0;
            clock_gettime(CLOCK_MONOTONIC, &t0);            /* the time-out is per case */
        }
    }
    close(pfd[0]);
    int st = 0;
    if (done < n) {
        char msg[128];
        if (timed_out) { nhangs++; kill(pid, SIGKILL); waitpid(pid, &st, 0); snprintf(msg, sizeof msg, "<hang: no completion within %d ms>", tmo_ms); }
        else { waitpid(pid, &st, 0);
               if (WIFSIGNALED(st)) snprintf(msg, sizeof msg, "<crash: signal %d>", WTERMSIG(st));
               else snprintf(msg, sizeof msg, "<no observation: exit %d>", WEXITSTATUS(st)); }
        result[idx[done++]] = strdup(msg);
    } else {
        /* all lines received: give the worker a moment to finalize, do not wait for it forever */
        for (int w = 0; w < 300; w++) { if (waitpid(pid, &st, WNOHANG) == pid) { pid = 0; break; } usleep(10000); }
        if (pid) { kill(pid, SIGKILL); waitpid(pid, &st, 0); }
    }
    return done;
}

int main(int argc, char **argv) {
    FILE *f = hc_open(argc, argv); char *l;
    int tmo_ms = getenv("H_DTD_TIMEOUT_MS") ? atoi(getenv("H_DTD_TIMEOUT_MS")) : 60000;
    int cap = 1024;
    lines = malloc(cap * sizeof(char *));
    while ((l = hc_next(f))) {
        if (ncases == cap) { cap *= 2; lines = realloc(lines, cap * sizeof(char *)); }
        lines[ncases++] = strdup(l);
    }
    result = calloc(ncases + 1, sizeof(char *));
    cfg_t *cfg = calloc(ncases + 1, sizeof(cfg_t));
    char *taken = calloc(ncases + 1, 1);
    static case_t tmp;
    for (int i = 0; i < ncases; i++) {
        if (!strncmp(lines[i], "dtd ", 4) && parse_case(lines[i], &tmp)) cfg_of(&tmp, &cfg[i]);
        else { result[i] = strdup("<bad case>"); taken[i] = 1; }
    }
    int *idx = malloc((ncases + 1) * sizeof(int));
    for (int i = 0; i < ncases; i++) {
        if (taken[i]) continue;
        int n = 0;
        for (int j = i; j < ncases; j++) if (!taken[j] && !memcmp(&cfg[i], &cfg[j], sizeof(cfg_t))) { idx[n++] = j; taken[j] = 1; }
        for (int from = 0; from < n; ) from += run_group(idx + from, n - from, tmo_ms);
    }
    for (int i = 0; i < ncases; i++) printf("%s\n", result[i] ? result[i] : "<no result>");
    return 0;
}
