/* C43 harness ("mockgpu"): runs sequences of DTD tasks with a device incarnation through the
 * REAL generic accelerator layer of PaRSEC (parsec/mca/device/device_gpu.c + transfer_gpu.c,
 * #included below because the CMake build only compiles them when a GPU toolkit is present)
 * on top of mock devices that live in host memory.
 *
 * How the mock plugs in, with no change to /repo:
 *   - the harness links a private build of libparsec (same sources, one more -D:
 *     PARSEC_HAVE_DEV_LEVEL_ZERO_SUPPORT, which only enables the body of the static
 *     parsec_dtd_gpu_task_submit in interfaces/dtd/insert_function.c; no toolkit header is pulled);
 *   - the executable defines parsec_mca_device_registration_complete: parsec_init calls it through the
 *     PLT, so this definition runs first, adds the mock modules with parsec_mca_device_add (the device
 *     registry is still open at that point), then calls the library's function (dlsym RTLD_NEXT);
 *   - a mock module = parsec_device_gpu_module_t whose 8 function pointers (set_device, memcpy_async,
 *     event_record, event_query, memory_info, memory_allocate, memory_free, find_incarnation) work on
 *     host memory; its super.kernel_scheduler is the real parsec_device_kernel_scheduler, attach /
 *     taskpool_register / data_advise / memory_release are the real parsec_device_* functions, the
 *     device memory is a real zone_malloc zone of <cap> tiles reserved by parsec_device_memory_reserve;
 *   - a stream is a FIFO of deferred operations (copies and kernels): nothing is executed when it is
 *     enqueued; event_record marks a position; event_query counts down a per-event delay and, when it
 *     reaches 0, executes every operation up to the mark.  So a value is moved / computed only when the
 *     runtime has seen the event of the stage complete, as with an asynchronous device.
 *
 *   - memory that the zone allocator hands out again is poisoned by the mock (value P): the harness
 *     notices a new (copy, datum) pair on a slot at the next call into the mock and overwrites the tile,
 *     as a device is free to do with unallocated memory; a task that reads a copy nobody filled reads P.
 *
 * Two mock devices are always registered (device indices 1 and 2, peers of each other); one worker process
 * (one parsec_init) runs all the cases, the device memory is released and reserved again (cap tiles) for
 * every case; a hang or a crash costs one line and the worker is replaced.
 *
 * case line:
 *   gpu <mode> <ngpu> <cap> <ndata> <delay> <batch> <cpu_direct> | <task> ; <task> ; ...
 *     mode   seq : parsec_taskpool_wait after every insertion (one task in flight); the observation
 *                  carries the copies made by the device and the state of every copy after every task
 *            par : <batch> tasks are inserted between two waits; only schedule-independent
 *                  observations are printed
 *            ptg : like seq, but no DTD: the harness builds the task and the device task itself and calls the real
 *                  parsec_device_kernel_scheduler; data_in of a flow = output copy of the last writer of the tile
 *                  (as PTG-generated code forwards it), so device copies are inputs (device tasks only)
 *     ngpu   devices the tasks may name (1..2), cap = device memory in tiles,
 *     delay  max number of extra polls an event needs, cpu_direct = 1: CPU tasks are inserted with
 *            parsec_dtd_insert_task (the body is the hook), 0: through a task class + add_chore
 *     task   <place> <acc> ... ; place = c (CPU) | g<k> (mock device k)
 *            acc = <datum><r|w|x>[p][@<ranks>]   (x = read-write, p = PARSEC_PUSHOUT on that flow; ptg mode only:
 *            @<ranks> = one digit per successor of the flow, its rank, in the order iterate_successors enumerates
 *            them, 0 = this rank: parsec_gpu_task_update_pushout must push out a written flow with a remote successor)
 *
 * observation line:
 *   seq:  T<k>@<dev> <copies> <state> ; ... | in: ... | data: ... | runs: ...
 *         <copies> = c<datum>:<srcdev>><dstdev> for every copy the device executed for the task, in order
 *         <state>  = per datum  d[o<owner_device> <cpu copy> <dev1 copy> <dev2 copy>], a copy is
 *                    <I|O|E|S><version|X>.<xfer 0|1|2>.<readers (device copies)>=<value|P> or "-";
 *                    then the clean and the dirty list of each device (L<g>: W<g>:, datum ids, head first)
 *   both: in: per task the values read through r/x flows (P = poison, "!n" = bad pointer class), final data,
 *         number of executions of every task
 */
#define PARSEC_HAVE_DEV_LEVEL_ZERO_SUPPORT 1
#include "parsec/parsec_config.h"
#include "parsec/runtime.h"
#include "parsec/parsec_internal.h"
#include "parsec/data_internal.h"
#include "parsec/utils/zone_malloc.h"
#include "parsec/data_dist/matrix/two_dim_rectangle_cyclic.h"
#include "parsec/interfaces/dtd/insert_function.h"
#include "parsec/interfaces/dtd/insert_function_internal.h"
#include "parsec/sys/atomic.h"
/* the code under test */
#include "parsec/mca/device/device_gpu.c"
#include "parsec/mca/device/transfer_gpu.c"

#include "hcommon.h"
#include <mpi.h>
#include <dlfcn.h>
#include <unistd.h>
#include <poll.h>
#include <signal.h>
#include <sys/wait.h>
#include <time.h>

#define MAXT 256
#define MAXD 32
#define MAXF 6
#define MAXG 2
#define PMOD 1000003u
#define TILE_UNIT 64

#define MAXS 4
typedef struct { int place; int nacc; int d[MAXF]; char m[MAXF]; int po[MAXF]; int ns[MAXF]; int sr[MAXF][MAXS]; int wait_before; } task_t;
typedef struct { int seq, ptg, ngpu, cap, ndata, delay, batch, cpu_direct, ntasks; task_t t[MAXT]; } case_t;
static case_t C;

static uint32_t Fval(int tid, const int32_t *in, int n) {
    uint64_t a = (uint64_t)tid + 1;
    for (int i = 0; i < n; i++) a = (a * 31 + (uint64_t)(uint32_t)in[i] + 7) % PMOD;
    return (uint32_t)((a * 17 + 3) % PMOD);
}
static uint64_t mix(uint64_t z) {
    z += 0x9E3779B97F4A7C15ull; z = (z ^ (z >> 30)) * 0xBF58476D1CE4E5B9ull;
    z = (z ^ (z >> 27)) * 0x94D049BB133111EBull; return z ^ (z >> 31);
}

/* ------------------------------------------------------------------ mock device */
typedef struct { int kind;            /* 0 copy, 1 kernel */
                 void *dst, *src; size_t n; int dir;          /* copy */
                 int tid; void *p[MAXF]; int dev; } mop_t;     /* kernel */
#define QCAP 4096
typedef struct {
    parsec_gpu_exec_stream_t super;
    mop_t q[QCAP]; int qh, qt;          /* pending operations [qh, qt) */
    int ev_mark[PARSEC_MAX_EVENTS_PER_STREAM];
    int ev_left[PARSEC_MAX_EVENTS_PER_STREAM];
} mstream_t;
typedef struct {
    parsec_device_gpu_module_t super;
    int id; char *base; size_t bytes;
    mstream_t streams[4];
} mock_t;
static mock_t *mock[MAXG];
static int n_mock, mock_cap = 4, mock_delay = 0;
static uint64_t ev_seq;
/* livelock detection, independent of the load of the machine: the manager polls events for ever without
   any operation being enqueued or executed (a legitimate wait is at most <delay> polls per event) */
#define IDLE_POLL_LIMIT 200000
static long idle_polls; static int cur_task = -1; static FILE *g_out;
static void report_livelock(void) {
    if (g_out) { fprintf(g_out, "HANG@%d\n#bye\n", cur_task); fflush(g_out); }
    _exit(0);
}

/* observations */
static int32_t obs_in[MAXT][MAXF]; static int obs_dev[MAXT]; static volatile int32_t runs[MAXT];
static int obs_bad[MAXT];            /* bit0: CPU body got device memory, bit1: NULL pointer, bit2: device body got foreign memory */
static char evlog[1 << 16]; static size_t evlen;
static void ev(const char *fmt, ...) {
    va_list ap; va_start(ap, fmt);
    if (evlen < sizeof(evlog) - 128) evlen += (size_t)vsnprintf(evlog + evlen, sizeof(evlog) - evlen, fmt, ap);
    va_end(ap);
}
static int dev_of_ptr(const void *p) {       /* 0 = host, k+1 = mock device k */
    for (int g = 0; g < n_mock; g++)
        if ((const char *)p >= mock[g]->base && (const char *)p < mock[g]->base + mock[g]->bytes) return g + 1;
    return 0;
}

#define POISON ((int32_t)-11111)
/* ---- who owns which tile of the device memory (to poison memory that is handed out again) ---- */
static parsec_dtd_tile_t *g_tile[MAXD];
static parsec_data_t *g_data[MAXD];            /* the parsec_data_t of every tile of the case */
static int case_active;
static struct { void *copy; int datum; } slot_owner[MAXG][64];
static parsec_data_copy_t *cur_copy[MAXD]; static int cur_dev[MAXD];      /* ptg mode: output copy of the last writer */
static int devidx(int g) { return mock[g]->super.super.device_index; }
static void scan_slots(void) {
    if (!case_active) return;
    for (int g = 0; g < n_mock; g++) {
        void *nowc[64] = {0}; int nowd[64];
        for (int d = 0; d < C.ndata; d++) {
            if (!g_data[d]) continue;
            parsec_data_copy_t *c = g_data[d]->device_copies[devidx(g)];
            if (!c || !c->device_private) continue;
            long sl = ((char *)c->device_private - mock[g]->base) / TILE_UNIT;
            if (sl < 0 || sl >= 64) continue;
            nowc[sl] = c; nowd[sl] = d;
        }
        for (int sl = 0; sl < mock_cap && sl < 64; sl++) {
            if (nowc[sl] && (nowc[sl] != slot_owner[g][sl].copy || nowd[sl] != slot_owner[g][sl].datum))
                *(volatile int32_t *)(mock[g]->base + (size_t)sl * TILE_UNIT) = POISON;
            /* ptg mode: the copy that was the current output of its tile left this slot (evicted): consumers
               will read the tile from the collection */
            if (C.ptg && slot_owner[g][sl].copy && (nowc[sl] != slot_owner[g][sl].copy || nowd[sl] != slot_owner[g][sl].datum)) {
                int od = slot_owner[g][sl].datum;
                if (od >= 0 && cur_dev[od] == g + 1 && cur_copy[od] == slot_owner[g][sl].copy) { cur_dev[od] = 0; cur_copy[od] = g_data[od] ? g_data[od]->device_copies[0] : NULL; }
            }
            slot_owner[g][sl].copy = nowc[sl]; slot_owner[g][sl].datum = nowc[sl] ? nowd[sl] : -1;
        }
    }
}
static int datum_of_ptr(const void *p, int *dev) {
    *dev = dev_of_ptr(p);
    for (int d = 0; d < C.ndata; d++) {
        if (!g_data[d]) continue;
        parsec_data_copy_t *c = g_data[d]->device_copies[*dev ? devidx(*dev - 1) : 0];
        if (c && c->device_private == p) return d;
    }
    return -1;
}

static void dbg_state(void);
/* placement in par mode: parsec_select_best_device follows data->preferred_device at the time a task is selected,
 * i.e. after its predecessors completed; so the body of a task sets, for each of its tiles, the device of the next
 * task of the sequence that names the tile (insert_one only advises tiles without an earlier user since the last wait) */
static int batch_start;
static void advise_tile(int d, int place) {
    if (place > 0 && g_data[d])
        parsec_advise_data_on_device(g_data[d], mock[place - 1]->super.super.device_index,
                                     PARSEC_DEV_DATA_ADVICE_PREFERRED_DEVICE);
}
static void after_run(int tid) {
    if (C.seq) return;
    const task_t *t = &C.t[tid];
    for (int j = 0; j < t->nacc; j++)
        for (int k = tid + 1; k < C.ntasks; k++) {
            int hit = 0;
            for (int q = 0; q < C.t[k].nacc; q++) if (C.t[k].d[q] == t->d[j]) hit = 1;
            if (hit) { advise_tile(t->d[j], C.t[k].place); break; }
        }
}
static void run_kernel(mop_t *o) {
    const task_t *t = &C.t[o->tid];
    int32_t in[MAXF]; int nin = 0;
    for (int j = 0; j < t->nacc; j++) {
        if (NULL == o->p[j]) { obs_bad[o->tid] |= 2; if (t->m[j] != 'w') { in[nin] = -1; obs_in[o->tid][nin] = -1; nin++; } continue; }
        if (dev_of_ptr(o->p[j]) != o->dev + 1) obs_bad[o->tid] |= 4;
        if (t->m[j] != 'w') { in[nin] = *(volatile int32_t *)o->p[j]; obs_in[o->tid][nin] = in[nin]; nin++; }
    }
    uint32_t v = Fval(o->tid, in, nin);
    for (int j = 0; j < t->nacc; j++)
        if (t->m[j] != 'r' && o->p[j]) *(volatile int32_t *)o->p[j] = (int32_t)v;
    obs_dev[o->tid] = o->dev + 1;
    parsec_atomic_fetch_inc_int32(&runs[o->tid]);
    if (getenv("H_GPU_DEBUG")) { fprintf(stderr, "[dbg] kernel T%d on dev %d:", o->tid, o->dev + 1); dbg_state(); }
    after_run(o->tid);
}
static void stream_drain(mstream_t *s, int upto) {
    while (s->qh != upto) {
        mop_t *o = &s->q[s->qh % QCAP];
        idle_polls = 0;
        if (0 == o->kind) { memcpy(o->dst, o->src, o->n); ev(" c%d:%d>%d", o->tid, dev_of_ptr(o->src), dev_of_ptr(o->dst)); }
        else run_kernel(o);
        s->qh++;
    }
}
static mop_t *stream_push(mstream_t *s) {
    idle_polls = 0;
    if (s->qt - s->qh >= QCAP) { fprintf(stderr, "mock stream overflow\n"); abort(); }
    mop_t *o = &s->q[s->qt % QCAP]; s->qt++; memset(o, 0, sizeof *o); return o;
}
static void scan_slots(void);
static int mock_set_device(parsec_device_gpu_module_t *g) { (void)g; scan_slots(); return PARSEC_SUCCESS; }
static int mock_memcpy_async(parsec_device_gpu_module_t *g, parsec_gpu_exec_stream_t *gs, void *dst, void *src,
                             size_t n, parsec_device_transfer_direction_t dir) {
    scan_slots();
    mop_t *o = stream_push((mstream_t *)gs);
    o->kind = 0; o->dst = dst; o->src = src; o->n = n; o->dir = (int)dir;
    { int dv; o->tid = datum_of_ptr(dst, &dv); if (o->tid < 0) o->tid = datum_of_ptr(src, &dv); }   /* for a copy, tid = the datum moved */
    (void)g;
    return PARSEC_SUCCESS;
}
static int mock_event_record(parsec_device_gpu_module_t *g, parsec_gpu_exec_stream_t *gs, int32_t idx) {
    mstream_t *s = (mstream_t *)gs; (void)g;
    scan_slots();
    s->ev_mark[idx] = s->qt;
    s->ev_left[idx] = mock_delay ? (int)(mix(++ev_seq * 7919u + (uint64_t)mock_delay) % (uint64_t)(mock_delay + 1)) : 0;
    return PARSEC_SUCCESS;
}
static int mock_event_query(parsec_device_gpu_module_t *g, parsec_gpu_exec_stream_t *gs, int32_t idx) {
    mstream_t *s = (mstream_t *)gs; (void)g;
    scan_slots();
    if (++idle_polls > IDLE_POLL_LIMIT) report_livelock();
    if (s->ev_left[idx] > 0) { s->ev_left[idx]--; return 0; }
    stream_drain(s, s->ev_mark[idx]);
    return 1;
}
static int mock_memory_info(parsec_device_gpu_module_t *g, size_t *fr, size_t *tot) { (void)g; *fr = *tot = (size_t)1 << 30; return PARSEC_SUCCESS; }
static int mock_memory_allocate(parsec_device_gpu_module_t *g, size_t bytes, void **addr) {
    mock_t *m = (mock_t *)g;
    if (posix_memalign(addr, 4096, bytes)) return PARSEC_ERROR;
    memset(*addr, 0xEE, bytes);
    m->base = *addr; m->bytes = bytes;
    return PARSEC_SUCCESS;
}
static int mock_memory_free(parsec_device_gpu_module_t *g, void *addr) { (void)g; free(addr); return PARSEC_SUCCESS; }
static void *mock_find_incarnation(parsec_device_gpu_module_t *g, const char *n) { (void)g; (void)n; return NULL; }
static int mock_all_attached(parsec_device_module_t *d) {
    parsec_device_gpu_module_t *g = (parsec_device_gpu_module_t *)d;
    g->peer_access_mask = 0;
    for (int k = 0; k < n_mock; k++) g->peer_access_mask |= (int16_t)(1 << mock[k]->super.super.device_index);
    return PARSEC_SUCCESS;
}
static int mock_memreg(parsec_device_module_t *d, parsec_data_collection_t *dc, void *p, size_t l) { (void)d; (void)dc; (void)p; (void)l; return PARSEC_SUCCESS; }
static int mock_memunreg(parsec_device_module_t *d, parsec_data_collection_t *dc, void *p) { (void)d; (void)dc; (void)p; return PARSEC_SUCCESS; }

static mock_t *mock_create(int id) {
    mock_t *m = calloc(1, sizeof *m);
    parsec_device_gpu_module_t *g = &m->super; parsec_device_module_t *d = &g->super;
    PARSEC_OBJ_CONSTRUCT(d, parsec_device_module_t);
    m->id = id;
    asprintf(&d->name, "mock(%d)", id);
    g->max_exec_streams = 4; g->num_exec_streams = 0;
    g->exec_stream = malloc(4 * sizeof(parsec_gpu_exec_stream_t *));
    for (int j = 0; j < 4; j++) {
        parsec_gpu_exec_stream_t *s = &m->streams[j].super;
        g->exec_stream[j] = s; g->num_exec_streams++;
        s->workspace = NULL;
        PARSEC_OBJ_CONSTRUCT(&s->infos, parsec_info_object_array_t);
        parsec_info_object_array_init(&s->infos, &parsec_per_stream_infos, s);
        s->max_events = PARSEC_MAX_EVENTS_PER_STREAM; s->executed = 0; s->start = 0; s->end = 0;
        asprintf(&s->name, "mock%d.%d", id, j);
        s->fifo_pending = (parsec_list_t *)PARSEC_OBJ_NEW(parsec_list_t);
        s->tasks = calloc((size_t)s->max_events, sizeof(parsec_gpu_task_t *));
    }
    d->type = PARSEC_DEV_CUDA;
    d->attach = parsec_device_attach; d->detach = parsec_device_detach;
    d->taskpool_register = parsec_device_taskpool_register; d->taskpool_unregister = parsec_device_taskpool_unregister;
    d->data_advise = parsec_device_data_advise; d->memory_release = parsec_device_flush_lru;
    d->kernel_scheduler = parsec_device_kernel_scheduler;
    d->memory_register = mock_memreg; d->memory_unregister = mock_memunreg;
    d->all_devices_attached = mock_all_attached;
    d->gflops_fp16 = d->gflops_tf32 = d->gflops_fp32 = d->gflops_fp64 = 1000;
    PARSEC_OBJ_CONSTRUCT(&g->gpu_mem_lru, parsec_list_t);
    PARSEC_OBJ_CONSTRUCT(&g->gpu_mem_owned_lru, parsec_list_t);
    PARSEC_OBJ_CONSTRUCT(&g->pending, parsec_fifo_t);
    g->sort_starting_p = NULL; g->peer_access_mask = 0;
    g->set_device = mock_set_device; g->memcpy_async = mock_memcpy_async;
    g->event_record = mock_event_record; g->event_query = mock_event_query;
    g->memory_info = mock_memory_info; g->memory_allocate = mock_memory_allocate; g->memory_free = mock_memory_free;
    g->find_incarnation = mock_find_incarnation;
    return m;
}

/* called by parsec_init (through the PLT) between parsec_mca_device_attach and parsec_data_init */
int parsec_mca_device_registration_complete(parsec_context_t *context) {
    int (*real)(parsec_context_t *) = (int (*)(parsec_context_t *))dlsym(RTLD_NEXT, "parsec_mca_device_registration_complete");
    /* what the CUDA component does besides creating its modules (device_cuda_component.c) */
    parsec_gpu_d2h_max_flows = MAX_PARAM_COUNT;      /* mca device_cuda_max_number_of_ejected_data, default */
    parsec_device_enable_debug();
    for (int g = 0; g < n_mock; g++) {
        mock[g] = mock_create(g);
        int rc = parsec_mca_device_add(context, &mock[g]->super.super);
        if (rc < 0) { fprintf(stderr, "mock: parsec_mca_device_add rc=%d\n", rc); exit(3); }
    }
    for (uint32_t i = 0; i < parsec_nb_devices; i++) {       /* what parsec_mca_device_attach does for its own modules */
        parsec_device_module_t *d = parsec_mca_device_get(i);
        free(d->data_in_from_device);
        d->data_in_array_size = (uint8_t)parsec_nb_devices;
        d->data_in_from_device = calloc(parsec_nb_devices, sizeof(uint64_t));
    }
    return real(context);
}

/* ------------------------------------------------------------------ DTD side */
static parsec_context_t *ctx;
static parsec_taskpool_t *g_tp;
static parsec_data_collection_t *g_A;
static int g_region;

static int cpu_body(parsec_execution_stream_t *es, parsec_task_t *this_task) {
    int tid = -1; int32_t *p[MAXF] = {0};
    (void)es;
    parsec_dtd_unpack_args(this_task, &tid, &p[0], &p[1], &p[2], &p[3], &p[4], &p[5]);
    const task_t *t = &C.t[tid];
    int32_t in[MAXF]; int nin = 0;
    idle_polls = 0;
    for (int j = 0; j < t->nacc; j++) {
        if (NULL == p[j]) { obs_bad[tid] |= 2; continue; }
        if (dev_of_ptr(p[j])) obs_bad[tid] |= 1;
        if (t->m[j] != 'w') { in[nin] = *(volatile int32_t *)p[j]; obs_in[tid][nin] = in[nin]; nin++; }
    }
    uint32_t v = Fval(tid, in, nin);
    for (int j = 0; j < t->nacc; j++)
        if (t->m[j] != 'r' && p[j]) *(volatile int32_t *)p[j] = (int32_t)v;
    obs_dev[tid] = 0;
    parsec_atomic_fetch_inc_int32(&runs[tid]);
    after_run(tid);
    return PARSEC_HOOK_RETURN_DONE;
}
/* the "kernel launch" of a device task: captures the device pointers, enqueues the kernel on the stream */
static int gpu_body(parsec_device_gpu_module_t *gd, parsec_gpu_task_t *gt, parsec_gpu_exec_stream_t *gs) {
    parsec_task_t *this_task = gt->ec;
    int tid = -1; int32_t *hp[MAXF] = {0};
    parsec_dtd_unpack_args(this_task, &tid, &hp[0], &hp[1], &hp[2], &hp[3], &hp[4], &hp[5]);
    scan_slots();
    mop_t *o = stream_push((mstream_t *)gs);
    o->kind = 1; o->tid = tid; o->dev = ((mock_t *)gd)->id;
    for (int j = 0; j < C.t[tid].nacc; j++) o->p[j] = parsec_dtd_get_dev_ptr(this_task, j);
    return PARSEC_HOOK_RETURN_DONE;
}

static int opf(char m) { return m == 'r' ? PARSEC_INPUT : m == 'w' ? PARSEC_OUTPUT : PARSEC_INOUT; }
/* one DTD task class per access signature (modes + pushout bits, in flow order), with a CPU and a device chore:
 * the flow flags the device layer reads (tc->in[i]->flow_flags) are those of the class */
typedef struct { char sig[2 * MAXF + 2]; parsec_task_class_t *tc; } tcent_t;
static tcent_t tctab[512]; static int ntc;
#define PSPEC(j) PASSED_BY_REF, (opf(t->m[j]) | g_region | ((j) == 0 ? PARSEC_AFFINITY : 0) | (t->po[j] ? PARSEC_PUSHOUT : 0))
static parsec_task_class_t *class_of(const task_t *t) {
    char sig[2 * MAXF + 2]; int k = 0;
    for (int j = 0; j < t->nacc; j++) { sig[k++] = t->m[j]; sig[k++] = t->po[j] ? 'p' : '.'; }
    sig[k] = 0;
    for (int i = 0; i < ntc; i++) if (!strcmp(tctab[i].sig, sig)) return tctab[i].tc;
    parsec_task_class_t *tc = NULL;
    char name[32]; snprintf(name, sizeof name, "K%s", sig);
#define CHEAD g_tp, name, sizeof(int), PARSEC_VALUE
    switch (t->nacc) {
    case 0: tc = parsec_dtd_create_task_class(CHEAD, PARSEC_DTD_ARG_END); break;
    case 1: tc = parsec_dtd_create_task_class(CHEAD, PSPEC(0), PARSEC_DTD_ARG_END); break;
    case 2: tc = parsec_dtd_create_task_class(CHEAD, PSPEC(0), PSPEC(1), PARSEC_DTD_ARG_END); break;
    case 3: tc = parsec_dtd_create_task_class(CHEAD, PSPEC(0), PSPEC(1), PSPEC(2), PARSEC_DTD_ARG_END); break;
    case 4: tc = parsec_dtd_create_task_class(CHEAD, PSPEC(0), PSPEC(1), PSPEC(2), PSPEC(3), PARSEC_DTD_ARG_END); break;
    case 5: tc = parsec_dtd_create_task_class(CHEAD, PSPEC(0), PSPEC(1), PSPEC(2), PSPEC(3), PSPEC(4), PARSEC_DTD_ARG_END); break;
    default: tc = parsec_dtd_create_task_class(CHEAD, PSPEC(0), PSPEC(1), PSPEC(2), PSPEC(3), PSPEC(4), PSPEC(5), PARSEC_DTD_ARG_END); break;
    }
    parsec_dtd_task_class_add_chore(g_tp, tc, PARSEC_DEV_CPU, cpu_body);
    parsec_dtd_task_class_add_chore(g_tp, tc, PARSEC_DEV_CUDA, gpu_body);
    strcpy(tctab[ntc].sig, sig); tctab[ntc].tc = tc; ntc++;
    return tc;
}
#define ARG(j) PASSED_BY_REF, g_tile[t->d[j]], (opf(t->m[j]) | g_region | ((j) == 0 ? PARSEC_AFFINITY : 0) | (t->po[j] ? PARSEC_PUSHOUT : 0))
#define TARG(j) PARSEC_DTD_EMPTY_FLAG, g_tile[t->d[j]]
static void insert_one(int tid) {
    const task_t *t = &C.t[tid];
    int devt = t->place ? PARSEC_DEV_CUDA : PARSEC_DEV_CPU;
    if (t->place)
        for (int j = 0; j < t->nacc; j++) {
            int earlier = 0;
            if (!C.seq)
                for (int k = batch_start; k < tid && !earlier; k++)
                    for (int q = 0; q < C.t[k].nacc; q++) if (C.t[k].d[q] == t->d[j]) earlier = 1;
            if (!earlier) advise_tile(t->d[j], t->place);
        }
    if (0 == t->place && C.cpu_direct) {
        /* CPU task through parsec_dtd_insert_task (the body is the hook, no parsec_dtd_cpu_task_submit) */
#define HEAD g_tp, cpu_body, 0, devt, "T", sizeof(int), &tid, PARSEC_VALUE
        switch (t->nacc) {
        case 0: parsec_dtd_insert_task(HEAD, PARSEC_DTD_ARG_END); break;
        case 1: parsec_dtd_insert_task(HEAD, ARG(0), PARSEC_DTD_ARG_END); break;
        case 2: parsec_dtd_insert_task(HEAD, ARG(0), ARG(1), PARSEC_DTD_ARG_END); break;
        case 3: parsec_dtd_insert_task(HEAD, ARG(0), ARG(1), ARG(2), PARSEC_DTD_ARG_END); break;
        case 4: parsec_dtd_insert_task(HEAD, ARG(0), ARG(1), ARG(2), ARG(3), PARSEC_DTD_ARG_END); break;
        case 5: parsec_dtd_insert_task(HEAD, ARG(0), ARG(1), ARG(2), ARG(3), ARG(4), PARSEC_DTD_ARG_END); break;
        default: parsec_dtd_insert_task(HEAD, ARG(0), ARG(1), ARG(2), ARG(3), ARG(4), ARG(5), PARSEC_DTD_ARG_END); break;
        }
        return;
    }
    parsec_task_class_t *tc = class_of(t);
#define THEAD g_tp, tc, 0, devt, PARSEC_DTD_EMPTY_FLAG, &tid
    switch (t->nacc) {
    case 0: parsec_dtd_insert_task_with_task_class(THEAD, PARSEC_DTD_ARG_END); break;
    case 1: parsec_dtd_insert_task_with_task_class(THEAD, TARG(0), PARSEC_DTD_ARG_END); break;
    case 2: parsec_dtd_insert_task_with_task_class(THEAD, TARG(0), TARG(1), PARSEC_DTD_ARG_END); break;
    case 3: parsec_dtd_insert_task_with_task_class(THEAD, TARG(0), TARG(1), TARG(2), PARSEC_DTD_ARG_END); break;
    case 4: parsec_dtd_insert_task_with_task_class(THEAD, TARG(0), TARG(1), TARG(2), TARG(3), PARSEC_DTD_ARG_END); break;
    case 5: parsec_dtd_insert_task_with_task_class(THEAD, TARG(0), TARG(1), TARG(2), TARG(3), TARG(4), PARSEC_DTD_ARG_END); break;
    default: parsec_dtd_insert_task_with_task_class(THEAD, TARG(0), TARG(1), TARG(2), TARG(3), TARG(4), TARG(5), PARSEC_DTD_ARG_END); break;
    }
}

static int parse_case(const char *line, case_t *c) {
    static char l[HC_MAXLINE]; char mode[16];
    strncpy(l, line, HC_MAXLINE - 1); l[HC_MAXLINE - 1] = 0;
    char *bar = strchr(l, '|');
    if (!bar) return 0;
    *bar = 0;
    memset(c, 0, sizeof(*c));
    if (sscanf(l, "gpu %15s %d %d %d %d %d %d", mode, &c->ngpu, &c->cap, &c->ndata, &c->delay, &c->batch, &c->cpu_direct) != 7) return 0;
    c->ptg = !strcmp(mode, "ptg");
    c->seq = !strcmp(mode, "seq") || c->ptg;
    if (c->ngpu < 1 || c->ngpu > MAXG || c->cap < 1 || c->cap > 64 || c->ndata < 1 || c->ndata > MAXD || c->delay < 0 || c->batch < 1) return 0;
    char *s = bar + 1;
    for (;;) {
        while (*s == ' ') s++;
        if (*s == 0) break;
        if (c->ntasks >= MAXT) return 0;
        task_t *t = &c->t[c->ntasks];
        if (*s == 'c') { t->place = 0; s++; }
        else if (*s == 'g') { char *e; long g = strtol(s + 1, &e, 10); if (e == s + 1 || g < 0 || g >= c->ngpu) return 0; t->place = (int)g + 1; s = e; }
        else return 0;
        while (*s && *s != ';') {
            if (*s == ' ') { s++; continue; }
            char *e; long d = strtol(s, &e, 10);
            if (e == s || d < 0 || d >= c->ndata || t->nacc >= MAXF) return 0;
            if (*e != 'r' && *e != 'w' && *e != 'x') return 0;
            t->d[t->nacc] = (int)d; t->m[t->nacc] = *e; s = e + 1;
            if (*s == 'p') { t->po[t->nacc] = 1; s++; }
            if (*s == '@') {                       /* ranks of the successors of the flow, in enumeration order (0 = this rank) */
                s++;
                while (*s >= '0' && *s <= '9') { if (t->ns[t->nacc] >= MAXS) return 0; t->sr[t->nacc][t->ns[t->nacc]++] = *s - '0'; s++; }
            }
            t->nacc++;
        }
        c->ntasks++;
        if (*s == ';') s++;
    }
    return 1;
}

/* ---- state dump (seq mode): every copy of every datum, and the two lists of every device */
static char stch(int s) { return s == PARSEC_DATA_COHERENCY_INVALID ? 'I' : s == PARSEC_DATA_COHERENCY_OWNED ? 'O' :
                                 s == PARSEC_DATA_COHERENCY_EXCLUSIVE ? 'E' : s == PARSEC_DATA_COHERENCY_SHARED ? 'S' : '?'; }
static int datum_of(parsec_data_t *o) {
    for (int d = 0; d < C.ndata; d++) if (g_data[d] == o) return d;
    return -1;
}
static void pval(FILE *out, int32_t v) { if (v == POISON) fprintf(out, "P"); else fprintf(out, "%d", (int)v); }
static void dump_state(FILE *out) {
    for (int d = 0; d < C.ndata; d++) {
        parsec_data_t *o = g_data[d];
        fprintf(out, " %d[o%d", d, (int)o->owner_device);
        for (uint32_t i = 0; i < parsec_nb_devices; i++) {
            parsec_data_copy_t *c = o->device_copies[i];
            if (!c) { fprintf(out, " -"); continue; }
            fprintf(out, " %c", stch(c->coherency_state));
            if (c->version == UINT_MAX) fprintf(out, "X"); else fprintf(out, "%u", (unsigned)c->version);
            fprintf(out, ".%d", (int)c->data_transfer_status);
            if (i) fprintf(out, ".%d", (int)c->readers);
            fprintf(out, "="); pval(out, c->device_private ? *(int32_t *)c->device_private : -2);
        }
        fprintf(out, "]");
    }
    for (int g = 0; g < n_mock; g++) {
        fprintf(out, " L%d:", g + 1);
        PARSEC_LIST_ITERATOR(&mock[g]->super.gpu_mem_lru, it, { parsec_data_copy_t *c = (parsec_data_copy_t *)it; fprintf(out, "%d,", c->original ? datum_of(c->original) : -1); });
        fprintf(out, " W%d:", g + 1);
        PARSEC_LIST_ITERATOR(&mock[g]->super.gpu_mem_owned_lru, it, { parsec_data_copy_t *c = (parsec_data_copy_t *)it; fprintf(out, "%d,", c->original ? datum_of(c->original) : -1); });
    }
}


/* ---- "ptg" mode: the harness is the DSL.  A task is a hand-made parsec_task_t + parsec_gpu_dsl_task_t handed to the
 * real parsec_device_kernel_scheduler; as in PTG-generated code the input copy of a flow (data_in) is the output copy of
 * the last writer of the tile (the device copy when it did not push out, the host copy otherwise or when that device
 * copy is not attached any more: the consumer then reads the tile from the collection).  Device tasks only. ---- */
static parsec_taskpool_t ptg_tp;
static parsec_hook_return_t ptg_release_task(parsec_execution_stream_t *es, parsec_task_t *t) { (void)es; (void)t; return PARSEC_HOOK_RETURN_DONE; }
static int ptg_submit(parsec_device_gpu_module_t *gd, parsec_gpu_task_t *gt, parsec_gpu_exec_stream_t *gs) {
    parsec_task_t *this_task = gt->ec;
    int tid = this_task->locals[0].value;
    scan_slots();
    mop_t *o = stream_push((mstream_t *)gs);
    o->kind = 1; o->tid = tid; o->dev = ((mock_t *)gd)->id;
    for (int j = 0; j < C.t[tid].nacc; j++) o->p[j] = this_task->data[j].data_out ? this_task->data[j].data_out->device_private : NULL;
    return PARSEC_HOOK_RETURN_DONE;
}
/* iterate_successors of the hand-made task class, as PTG-generated code does it: for every flow selected by the action
 * mask (bit = dep_index of its output dependency), one call of the visitor per successor, with the rank the case gives
 * it; the walk stops when the visitor says so.  Used by parsec_gpu_task_update_pushout (DISTRIBUTED build, MPI cannot
 * send from device memory) to find the written flows a successor on another rank needs on the host. */
static parsec_flow_t ptg_flows[MAXF]; static parsec_dep_t ptg_deps[MAXF];
static void ptg_iterate_successors(parsec_execution_stream_t *es, const parsec_task_t *this_task, uint32_t action_mask,
                                   parsec_ontask_function_t *ontask, void *arg) {
    const task_t *t = &C.t[this_task->locals[0].value];
    for (int j = 0; j < t->nacc; j++) {
        if (!(action_mask & (1U << ptg_deps[j].dep_index))) continue;
        for (int k = 0; k < t->ns[j]; k++)
            if (PARSEC_ITERATE_STOP == ontask(es, this_task, this_task, &ptg_deps[j], NULL, 0, t->sr[j][k], 0, NULL, 0, arg)) return;
    }
}
static int ptg_run_task(int tid) {
    const task_t *t = &C.t[tid];
    parsec_flow_t *flows = ptg_flows; static parsec_task_class_t tc; static __parsec_chore_t chores[2];
    if (t->place <= 0) return -1;
    memset(&tc, 0, sizeof tc); memset(ptg_flows, 0, sizeof ptg_flows); memset(ptg_deps, 0, sizeof ptg_deps); memset(chores, 0, sizeof chores);
    tc.name = "P"; tc.nb_flows = (uint8_t)t->nacc; tc.release_task = ptg_release_task;
    tc.iterate_successors = ptg_iterate_successors;
    chores[0].type = PARSEC_DEV_CUDA; chores[0].hook = (parsec_hook_t *)ptg_release_task; chores[1].type = PARSEC_DEV_NONE;
    tc.incarnations = chores;
    parsec_task_t *task = calloc(1, sizeof(parsec_task_t));
    PARSEC_OBJ_CONSTRUCT(task, parsec_task_t);
    task->task_class = &tc; task->taskpool = &ptg_tp; task->locals[0].value = tid;
    task->selected_device = &mock[t->place - 1]->super.super; task->selected_chore = 0; task->load = 0;
    parsec_gpu_task_t *gt = (parsec_gpu_task_t *)PARSEC_OBJ_NEW(parsec_gpu_dsl_task_t);
    gt->ec = task; gt->submit = ptg_submit; gt->task_type = PARSEC_GPU_TASK_TYPE_KERNEL; gt->pushout = 0;
    gt->nb_flows = (uint32_t)t->nacc; gt->stage_in = parsec_default_gpu_stage_in; gt->stage_out = parsec_default_gpu_stage_out;
    for (int j = 0; j < t->nacc; j++) {
        int d = t->d[j];
        flows[j].name = "F"; flows[j].flow_index = (uint8_t)j;
        flows[j].flow_flags = t->m[j] == 'r' ? PARSEC_FLOW_ACCESS_READ : t->m[j] == 'w' ? PARSEC_FLOW_ACCESS_WRITE : PARSEC_FLOW_ACCESS_RW;
        tc.in[j] = &flows[j]; tc.out[j] = &flows[j];
        ptg_deps[j].dep_index = (uint8_t)j; ptg_deps[j].belongs_to = &flows[j]; ptg_deps[j].flow = &flows[j];
        flows[j].dep_out[0] = &ptg_deps[j];
        if (t->po[j]) gt->pushout |= (uint16_t)(1 << j);
        /* the input copy: the last writer's output if it is still attached, else the host copy of the collection */
        if (cur_dev[d] > 0 && g_data[d]->device_copies[devidx(cur_dev[d] - 1)] != cur_copy[d]) { cur_dev[d] = 0; cur_copy[d] = g_data[d]->device_copies[0]; }
        task->data[j].data_in = cur_copy[d]; task->data[j].data_out = NULL;
        task->data[j].source_repo = NULL; task->data[j].source_repo_entry = NULL;
        gt->flow_info[j].flow = &flows[j]; gt->flow_info[j].flow_span = g_data[d]->span;
    }
    /* the consumer holds a reference on its inputs while it runs (PTG: through the repository entry) */
    parsec_data_copy_t *held[MAXF]; int nheld = 0;
    for (int j = 0; j < t->nacc; j++)
        if (cur_dev[t->d[j]] > 0) { held[nheld] = task->data[j].data_in; PARSEC_OBJ_RETAIN(held[nheld]); nheld++; }
    scan_slots();
    parsec_execution_stream_t *es = ctx->virtual_processes[0]->execution_streams[0];
    parsec_hook_return_t rc = parsec_device_kernel_scheduler(&mock[t->place - 1]->super.super, es, gt);
    (void)rc;
    scan_slots();
    for (int k = 0; k < nheld; k++) { parsec_data_copy_t *c = held[k]; PARSEC_OBJ_RELEASE(c); }
    for (int j = 0; j < t->nacc; j++)
        if (t->m[j] != 'r' && task->data[j].data_out) {
            int d = t->d[j]; parsec_data_copy_t *o = task->data[j].data_out;
            cur_copy[d] = o; cur_dev[d] = (o == g_data[d]->device_copies[0]) ? 0 : t->place;
        }
    free(task);
    return 0;
}
static void dbg_state(void) { dump_state(stderr); fprintf(stderr, "\n"); }
static void run_case(FILE *out) {
    int rc;
    g_out = out; cur_task = -1; idle_polls = 0; batch_start = 0;
    memset(obs_in, 0, sizeof obs_in); memset(obs_dev, 0, sizeof obs_dev); memset((void *)runs, 0, sizeof runs);
    memset(obs_bad, 0, sizeof obs_bad); evlen = 0; evlog[0] = 0; ev_seq = 0;
    memset(slot_owner, 0, sizeof slot_owner);
    mock_delay = C.delay; mock_cap = C.cap;
    for (int g = 0; g < n_mock; g++) {
        if (PARSEC_SUCCESS != parsec_device_memory_reserve(&mock[g]->super, 0, mock_cap, TILE_UNIT)) { fprintf(out, "<memory_reserve failed>\n"); return; }
        for (int sl = 0; sl < mock_cap; sl++) *(int32_t *)(mock[g]->base + (size_t)sl * TILE_UNIT) = POISON;
    }

    parsec_matrix_block_cyclic_t *m = calloc(1, sizeof(*m));
    parsec_matrix_block_cyclic_init(m, PARSEC_MATRIX_INTEGER, PARSEC_MATRIX_TILE, 0,
                                    1, 1, C.ndata, 1, 0, 0, C.ndata, 1, 1, 1, 1, 1, 0, 0);
    m->mat = parsec_data_allocate((size_t)m->super.nb_local_tiles * (size_t)m->super.bsiz *
                                  (size_t)parsec_datadist_getsizeoftype(m->super.mtype));
    int32_t *mem = (int32_t *)m->mat;
    for (int d = 0; d < C.ndata; d++) mem[d] = 100 + d;
    g_A = (parsec_data_collection_t *)m;
    parsec_data_collection_set_key(g_A, "A");

    if (!C.ptg) {
        g_tp = parsec_dtd_taskpool_new();
        parsec_arena_datatype_t *adt = parsec_matrix_adt_new_rect(parsec_datatype_int32_t, 1, 1, 1);
        parsec_dtd_attach_arena_datatype(ctx, adt, &g_region);
        parsec_dtd_data_collection_init(g_A);
        rc = parsec_context_add_taskpool(ctx, g_tp);
        if (rc < 0) { fprintf(out, "<add_taskpool rc=%d>\n", rc); return; }
        rc = parsec_context_start(ctx);
        if (rc < 0) { fprintf(out, "<context_start rc=%d>\n", rc); return; }
        for (int d = 0; d < C.ndata; d++) { g_tile[d] = PARSEC_DTD_TILE_OF_KEY(g_A, g_A->data_key(g_A, d, 0)); g_data[d] = g_tile[d]->data_copy->original; }
    } else {
        /* what the communication engine sets when it starts with an MPI that is not GPU-aware (the DTD modes get it
           from parsec_context_start): the epilog then reports the host copy as the output of a pushed-out flow */
        parsec_mpi_allow_gpu_memory_communications = 0;
        for (int d = 0; d < C.ndata; d++) {
            g_data[d] = g_A->data_of_key(g_A, g_A->data_key(g_A, d, 0));
            cur_copy[d] = g_data[d]->device_copies[0]; cur_dev[d] = 0;
        }
    }
    case_active = 1;

    for (int i = 0; i < C.ntasks; i++) {
        if (C.seq) { fprintf(out, "#p %d\n", i); fflush(out); }            /* progress mark: the parent knows where a hang happened */
        cur_task = C.seq ? i : -1; idle_polls = 0;
        if (C.ptg) { if (ptg_run_task(i) < 0) { fprintf(out, "<ptg mode: device tasks only>\n"); return; } }
        else insert_one(i);
        if (C.seq || (i + 1) % C.batch == 0) {
            batch_start = i + 1;
            if (!C.ptg) {
                rc = parsec_taskpool_wait(g_tp);
                if (rc < 0) { fprintf(out, "<taskpool_wait rc=%d>\n", rc); return; }
            }
            if (C.seq) {
                static char buf[1 << 15]; FILE *mf = fmemopen(buf, sizeof buf, "w");
                fprintf(mf, "T%d@%d%s", i, obs_dev[i], evlog); evlen = 0; evlog[0] = 0;
                dump_state(mf); fprintf(mf, " ;"); fclose(mf);
                fprintf(out, "#s %s\n", buf); fflush(out);
            }
        }
    }
    if (!C.ptg) {
        parsec_dtd_data_flush_all(g_tp, g_A);
        rc = parsec_taskpool_wait(g_tp);
        if (rc < 0) { fprintf(out, "<taskpool_wait rc=%d>\n", rc); return; }
    }
    case_active = 0;

    fprintf(out, "| in:");
    for (int i = 0; i < C.ntasks; i++) {
        fprintf(out, " %d=", i);
        int k = 0;
        for (int j = 0; j < C.t[i].nacc; j++)
            if (C.t[i].m[j] != 'w') { if (k) fprintf(out, ","); if (!runs[i]) fprintf(out, "?"); else pval(out, obs_in[i][k]); k++; }
        if (!k) fprintf(out, "-");
        if (obs_bad[i]) fprintf(out, "!%d", obs_bad[i]);
    }
    fprintf(out, " | data:");
    for (int d = 0; d < C.ndata; d++) { fprintf(out, " "); pval(out, mem[d]); }
    fprintf(out, " | runs:");
    for (int i = 0; i < C.ntasks; i++) fprintf(out, " %d", (int)runs[i]);
    fprintf(out, "\n");
    fflush(out);

    if (!C.ptg) {
        rc = parsec_context_wait(ctx);
        for (int i = 0; i < ntc; i++) parsec_dtd_task_class_release(g_tp, tctab[i].tc);
        ntc = 0;
        parsec_taskpool_free(g_tp);
        parsec_dtd_data_collection_fini(g_A);
    }
    parsec_data_free(m->mat); m->mat = NULL;
    parsec_tiled_matrix_destroy((parsec_tiled_matrix_t *)m);
    free(m);
    if (!C.ptg) parsec_dtd_free_arena_datatype(ctx, g_region);
    for (int d = 0; d < MAXD; d++) { g_tile[d] = NULL; g_data[d] = NULL; }
    for (int g = 0; g < n_mock; g++) parsec_device_memory_release(&mock[g]->super);
}

/* ---- parent: one worker process for the whole file, replaced after a hang or a crash ---- */
static char **lines; static char **result; static int ncases;
static long usec_since(const struct timespec *t0) {
    struct timespec t1; clock_gettime(CLOCK_MONOTONIC, &t1);
    return (t1.tv_sec - t0->tv_sec) * 1000000L + (t1.tv_nsec - t0->tv_nsec) / 1000;
}
static int nhangs;
static int run_group(int from, int tmo_ms) {
    int pfd[2];
    /* wall-clock back-stop for hangs the mock does not see (no event polled): shortened once the runtime is known to hang */
    if (nhangs >= 2) tmo_ms = tmo_ms / 4 > 5000 ? tmo_ms / 4 : 5000;
    if (pipe(pfd)) { result[from] = strdup("<pipe failed>"); return 1; }
    fflush(stdout); fflush(stderr);
    pid_t pid = fork();
    if (pid == 0) {
        close(pfd[0]);
        FILE *out = fdopen(pfd[1], "w");
        int prov; n_mock = 2;
        MPI_Init_thread(NULL, NULL, MPI_THREAD_SERIALIZED, &prov);
        int pc = 0; char *pv[1] = { NULL }; char **ppv = pv;
        ctx = parsec_init(1, &pc, &ppv);
        if (!ctx) { fprintf(out, "<parsec_init failed>\n"); fflush(out); _exit(3); }
        fprintf(out, "#ready\n"); fflush(out);
        for (int k = from; k < ncases; k++) {
            if (result[k]) continue;
            if (!parse_case(lines[k], &C)) { fprintf(out, "<bad case>\n"); fflush(out); continue; }
            run_case(out);
            fflush(out);
        }
        fflush(out);
        _exit(0);          /* no parsec_fini: the mock modules belong to no component */
    }
    close(pfd[1]);
    static char buf[1 << 20]; static char acc[1 << 20]; size_t len = 0, alen = 0; int done = 0, timed_out = 0, ready = 0, n = 0, prog = -1, bye = 0;
    for (int k = from; k < ncases; k++) if (!result[k]) n++;
    struct timespec t0; clock_gettime(CLOCK_MONOTONIC, &t0);
    int cur = from; while (cur < ncases && result[cur]) cur++;
    acc[0] = 0;
    while (done < n) {
        long el = usec_since(&t0) / 1000;
        long lim = ready ? tmo_ms : 120000;
        if (el >= lim) { timed_out = 1; break; }
        struct pollfd pf = { pfd[0], POLLIN, 0 };
        int pr = poll(&pf, 1, (int)(lim - el));
        if (pr == 0) { timed_out = 1; break; }
        if (pr < 0) continue;
        ssize_t k = read(pfd[0], buf + len, sizeof(buf) - 1 - len);
        if (k <= 0) break;
        len += (size_t)k; buf[len] = 0;
        char *nl;
        while (done < n && (nl = memchr(buf, '\n', len))) {
            *nl = 0;
            if (!strncmp(buf, "#ready", 6)) ready = 1;
            else if (!strncmp(buf, "#bye", 4)) bye = 1;
            else if (!strncmp(buf, "#p ", 3)) prog = atoi(buf + 3);
            else if (!strncmp(buf, "#s ", 3)) { size_t l = strlen(buf + 3); if (alen + l + 2 < sizeof acc) { memcpy(acc + alen, buf + 3, l); alen += l; acc[alen] = 0; } }
            else {
                size_t l = strlen(buf); char *r = malloc(alen + l + 2);
                memcpy(r, acc, alen); memcpy(r + alen, buf, l + 1);
                result[cur] = r; done++; alen = 0; acc[0] = 0; prog = -1;
                cur++; while (cur < ncases && result[cur]) cur++;
            }
            size_t used = (size_t)(nl - buf) + 1;
            memmove(buf, nl + 1, len - used); len -= used; buf[len] = 0;
            clock_gettime(CLOCK_MONOTONIC, &t0);
        }
    }
    close(pfd[0]);
    int st = 0;
    if (bye) { waitpid(pid, &st, 0); return done; }
    if (done < n) {
        char msg[160];
        if (timed_out) { nhangs++; kill(pid, SIGKILL); waitpid(pid, &st, 0); snprintf(msg, sizeof msg, "HANG@%d", prog); }
        else { waitpid(pid, &st, 0);
               if (WIFSIGNALED(st)) snprintf(msg, sizeof msg, "CRASH@%d signal %d", prog, WTERMSIG(st));
               else snprintf(msg, sizeof msg, "<no observation: exit %d>", WEXITSTATUS(st)); }
        size_t l = strlen(msg); char *r = malloc(alen + l + 2);
        memcpy(r, acc, alen); memcpy(r + alen, msg, l + 1);
        result[cur] = r; done++;
    } else {
        for (int w = 0; w < 300; w++) { if (waitpid(pid, &st, WNOHANG) == pid) { pid = 0; break; } usleep(10000); }
        if (pid) { kill(pid, SIGKILL); waitpid(pid, &st, 0); }
    }
    return done;
}

int main(int argc, char **argv) {
    FILE *f = hc_open(argc, argv); char *l;
    int tmo_ms = getenv("H_GPU_TIMEOUT_MS") ? atoi(getenv("H_GPU_TIMEOUT_MS")) : 20000;
    int cap = 1024;
    lines = malloc(cap * sizeof(char *));
    while ((l = hc_next(f))) {
        if (ncases == cap) { cap *= 2; lines = realloc(lines, cap * sizeof(char *)); }
        lines[ncases++] = strdup(l);
    }
    result = calloc(ncases + 1, sizeof(char *));
    static case_t tmp;
    for (int i = 0; i < ncases; i++)
        if (strncmp(lines[i], "gpu ", 4) || !parse_case(lines[i], &tmp)) result[i] = strdup("<bad case>");
    for (;;) {
        int from = 0; while (from < ncases && result[from]) from++;
        if (from >= ncases) break;
        run_group(from, tmo_ms);
    }
    for (int i = 0; i < ncases; i++) printf("%s\n", result[i] ? result[i] : "<no result>");
    return 0;
}
