/* C07 harness (T-sched): the real parsec_update_deps_with_counter/_mask (and the
 * goal computations parsec_check_IN_dependencies_*) of parsec/parsec.c, each
 * release in its own coroutine, interleaved by the schedule of the case.
 * parsec.c is included after interpose.h so that its atomic operations yield.
 *
 * case:  ctr  DYN SG  | NF {ctl idx hasin nd {cond local gather}*}* | NTHREADS   | sched...
 *        mask HII GOAL| NF ...                                       | idx idx .. | sched...
 * out :  ready: r0 r1 .. | deps=D | steps: s0 s1 .. | goal=G (ctr) / in=M (mask)       */
#if defined(VERIF_RACE)
/* race-exploration build: compiled by clang -fsanitize=thread and linked with tsanrt.c, every access
 * (plain or atomic) to the registered shared bytes yields; no macro interposition */
extern void race_share(const void *p, unsigned long len); extern void race_reset(void);
#else
#include "interpose.h"
#endif
#include "cosched.h"
#include "parsec/parsec.c"
#include "hcommon.h"

static int32_t ret0(const struct parsec_taskpool_s *tp, const parsec_assignment_t *a) { (void)tp; (void)a; return 0; }
static int32_t ret1(const struct parsec_taskpool_s *tp, const parsec_assignment_t *a) { (void)tp; (void)a; return 1; }
#define G(k) static int32_t retg##k(const struct parsec_taskpool_s *tp, const parsec_assignment_t *a) { (void)tp; (void)a; return k; }
G(0) G(1) G(2) G(3) G(4) G(5) G(6) G(7)
static parsec_expr_op_int32_inline_func_t gfn[8] = { retg0, retg1, retg2, retg3, retg4, retg5, retg6, retg7 };

#define MAXF 20
static parsec_flow_t flows[MAXF];
static parsec_dep_t deps_[MAXF][MAX_DEP_IN_COUNT];
static parsec_expr_t conds[MAXF][MAX_DEP_IN_COUNT], gathers[MAXF][MAX_DEP_IN_COUNT];
static parsec_flow_t dflow[COS_MAX];
static parsec_task_class_t tc;
static parsec_task_t task;
static parsec_taskpool_t tp;
static parsec_dependency_t word;
static int result[COS_MAX], mode_mask;

static void release(void *arg) {
    int t = (int)(intptr_t)arg;
    if (mode_mask) result[t] = parsec_update_deps_with_mask(&tp, &task, &word, &task, &dflow[t], &dflow[t]);
    else           result[t] = parsec_update_deps_with_counter(&tp, &task, &word, &task, NULL, NULL);
}

int main(int argc, char **argv) {
    FILE *f = hc_open(argc, argv); char *l;
    static long v[4096], sched[8192];
    while ((l = hc_next(f))) {
        char *p = l; int k;
        mode_mask = !strncmp(l, "mask", 4); p += mode_mask ? 4 : 3;
        k = hc_ints(&p, v, 2);
        long a0 = v[0], a1 = v[1];
        memset(&tc, 0, sizeof(tc)); memset(flows, 0, sizeof(flows)); memset(deps_, 0, sizeof(deps_));
        k = hc_ints(&p, v, 4096);
        int nf = k > 0 ? (int)v[0] : 0, q = 1;
        if (nf > MAXF) { printf("<bad case>\n"); continue; }
        for (int i = 0; i < nf; i++) {
            int ctl = v[q++], idx = v[q++], hasin = v[q++], nd = v[q++];
            flows[i].flow_index = idx;
            flows[i].flow_flags = (ctl ? PARSEC_FLOW_ACCESS_NONE : PARSEC_FLOW_ACCESS_READ) | (hasin ? PARSEC_FLOW_HAS_IN_DEPS : 0);
            for (int j = 0; j < nd && j < MAX_DEP_IN_COUNT; j++) {
                int cond = v[q++], local = v[q++], gather = v[q++];
                memset(&conds[i][j], 0, sizeof(parsec_expr_t)); memset(&gathers[i][j], 0, sizeof(parsec_expr_t));
                if (cond >= 0) { conds[i][j].op = PARSEC_EXPR_OP_INLINE; conds[i][j].inline_func32 = cond ? ret1 : ret0; deps_[i][j].cond = &conds[i][j]; }
                if (gather >= 0) { gathers[i][j].op = PARSEC_EXPR_OP_INLINE; gathers[i][j].inline_func32 = gfn[gather & 7]; deps_[i][j].ctl_gather_nb = &gathers[i][j]; }
                deps_[i][j].task_class_id = local ? PARSEC_LOCAL_DATA_TASK_CLASS_ID : 3;
                flows[i].dep_in[j] = &deps_[i][j];
            }
            tc.in[i] = &flows[i];
        }
        memset(&task, 0, sizeof(task)); task.task_class = &tc; word = 0;
        int nt;
        k = hc_ints(&p, v, COS_MAX);
        if (mode_mask) {
            tc.flags = a0 ? PARSEC_HAS_IN_IN_DEPENDENCIES : 0; tc.dependencies_goal = (parsec_dependency_t)a1;
            nt = k; for (int t = 0; t < nt; t++) { memset(&dflow[t], 0, sizeof(parsec_flow_t)); dflow[t].flow_index = v[t]; dflow[t].name = "f"; }
        } else {
            tc.flags = a0 ? (PARSEC_HAS_IN_IN_DEPENDENCIES | PARSEC_HAS_CTL_GATHER) : 0; tc.dependencies_goal = (parsec_dependency_t)a1;
            nt = k > 0 ? (int)v[0] : 0;
        }
        if (nt > COS_MAX) { printf("<bad case>\n"); continue; }
        int ns = hc_ints(&p, sched, 8192);
#if defined(VERIF_RACE)
        race_reset(); race_share(&word, sizeof(word));
#endif
        cos_reset();
        for (int t = 0; t < nt; t++) { result[t] = -1; cos_spawn(release, (void *)(intptr_t)t); }
        int dl = cos_run(sched, ns, 1000);
        printf("ready:"); for (int t = 0; t < nt; t++) printf(" %d", result[t]);
        printf(" | deps=%d | steps:", (int)word); for (int t = 0; t < nt; t++) printf(" %d", cos_steps[t]);
        if (mode_mask) printf(" | in=%d", (int)parsec_check_IN_dependencies_with_mask(&tp, &task));
        else           printf(" | goal=%d", (int)parsec_check_IN_dependencies_with_counter(&tp, &task));
        printf("%s\n", dl ? " <deadlock>" : "");
    }
    return 0;
}
