/* compound_rt.h — shared by harness/h_compound.c (C15) and harness/h_ctxwait.c (C06).
 *
 *  - one global atomic stamp counter (every observation point takes a stamp);
 *  - a one-element data collection for the placement expression of compound_pool.jdf;
 *  - the process structure: cases are grouped by configuration (threads, scheduler);
 *    each group runs in a forked worker (MPI_Init_thread + parsec_init once, PaRSEC cannot
 *    be initialised twice in a process), one observation line per case; a hang or a
 *    crash costs one line ("<hang…>" / "<crash…>"), the worker is replaced.
 *
 * The including file defines:
 *    static int  crt_config(const char *line, char *key, int keylen, int *threads, char *sched);
 *                       -> 0 when the line is not a valid case
 *    static void crt_run_case(const char *line, FILE *out);      prints exactly one line
 * and calls crt_main(argc, argv) from main.
 */
#ifndef VERIF_COMPOUND_RT_H
#define VERIF_COMPOUND_RT_H
#ifndef _GNU_SOURCE
#define _GNU_SOURCE
#endif
#include <stdio.h>
#include <stdlib.h>
#include <string.h>
#include <stdarg.h>
#include <stdint.h>
#include <unistd.h>
#include <poll.h>
#include <signal.h>
#include <sched.h>
#include <time.h>
#include <sys/wait.h>
#include <mpi.h>
#include "parsec.h"
#include "parsec/parsec_internal.h"
#include "parsec/execution_stream.h"
#include "parsec/data_distribution.h"
#include "parsec/sys/atomic.h"
#include "hcommon.h"

/* the taskpool generated from harness/compound_pool.jdf */
#include "compound_pool.h"

/* ------------------------------------------------------------------ stamps */
static volatile int64_t crt_clock = 0;
static inline int64_t crt_stamp(void) { return parsec_atomic_fetch_inc_int64(&crt_clock) + 1; }   /* 1, 2, 3 … ; 0 = never */

static long crt_usec_since(const struct timespec *t0) {
    struct timespec t1; clock_gettime(CLOCK_MONOTONIC, &t1);
    return (t1.tv_sec - t0->tv_sec) * 1000000L + (t1.tv_nsec - t0->tv_nsec) / 1000;
}
static uint64_t crt_mix(uint64_t z) {
    z += 0x9E3779B97F4A7C15ull; z = (z ^ (z >> 30)) * 0xBF58476D1CE4E5B9ull;
    z = (z ^ (z >> 27)) * 0x94D049BB133111EBull; return z ^ (z >> 31);
}
/* seeded busy wait: mostly a few microseconds, sometimes a few hundred */
static void crt_spin(int seed, int a, int b) {
    if (!seed) return;
    uint64_t h = crt_mix((uint64_t)seed * 1000003ull + (uint64_t)a * 7919ull + (uint64_t)b);
    long us = (h % 8 == 0) ? 100 + (long)((h >> 8) % 300) : (long)((h >> 8) % 30);
    struct timespec t0; clock_gettime(CLOCK_MONOTONIC, &t0);
    while (crt_usec_since(&t0) < us) { }
}

/* ------------------------------------------------- one-element collection */
static uint32_t crt_rank_of(parsec_data_collection_t *d, ...) { (void)d; return 0; }
static int32_t  crt_vpid_of(parsec_data_collection_t *d, ...) { (void)d; return 0; }
static parsec_data_key_t crt_data_key(parsec_data_collection_t *d, ...) { (void)d; return 0; }
static uint32_t crt_rank_of_key(parsec_data_collection_t *d, parsec_data_key_t k) { (void)d; (void)k; return 0; }
static int32_t  crt_vpid_of_key(parsec_data_collection_t *d, parsec_data_key_t k) { (void)d; (void)k; return 0; }
static parsec_data_t *crt_data_of_key(parsec_data_collection_t *d, parsec_data_key_t k) { (void)d; (void)k; return NULL; }
static parsec_data_t *crt_data_of(parsec_data_collection_t *d, ...) { (void)d; return NULL; }
static parsec_data_collection_t crt_dc;
static void crt_dc_init(void) {
    parsec_data_collection_init(&crt_dc, 1, 0);
    crt_dc.rank_of = crt_rank_of;         crt_dc.rank_of_key = crt_rank_of_key;
    crt_dc.vpid_of = crt_vpid_of;         crt_dc.vpid_of_key = crt_vpid_of_key;
    crt_dc.data_of = crt_data_of;         crt_dc.data_of_key = crt_data_of_key;
    crt_dc.data_key = crt_data_key;
}

/* -------------------------------------------------------- worker process */
static parsec_context_t *crt_ctx;
/* 1: run one empty epoch (start; context_wait) right after parsec_init.  In a single-process run the
 * communication engine's tables are allocated by the first parsec_context_wait; a parsec_taskpool_wait on a
 * PTG taskpool before that dereferences a NULL table (notes/findings/C06-taskpool-wait-first-epoch.md).
 * C15 is not about that: its harness warms the context up; C06's does not. */
static int crt_warmup = 0;
static int crt_worker_init(int threads, const char *sched) {
    int prov;
    static char *pv[8]; int pc = 0; static char sbuf[32];
    MPI_Init_thread(NULL, NULL, MPI_THREAD_SERIALIZED, &prov);
    strncpy(sbuf, sched, sizeof sbuf - 1);
    if (strcmp(sched, "default")) { pv[pc++] = "--mca"; pv[pc++] = "mca_sched"; pv[pc++] = sbuf; }
    pv[pc] = NULL;
    char **ppv = pv;
    crt_ctx = parsec_init(threads, &pc, &ppv);
    if (crt_ctx) crt_dc_init();
    if (crt_ctx && crt_warmup) { parsec_context_start(crt_ctx); parsec_context_wait(crt_ctx); }
    return crt_ctx != NULL;
}

static int  crt_config(const char *line, char *key, int keylen, int *threads, char *sched);
static void crt_run_case(const char *line, FILE *out);

static char **crt_lines; static char **crt_result; static int crt_ncases;
static int crt_nhangs;

static int crt_run_group(const int *idx, int n, int tmo_ms) {
    int pfd[2];
    if (crt_nhangs >= 3) tmo_ms = tmo_ms / 4 > 3000 ? tmo_ms / 4 : (tmo_ms < 3000 ? tmo_ms : 3000);
    if (pipe(pfd)) { crt_result[idx[0]] = strdup("<pipe failed>"); return 1; }
    fflush(stdout); fflush(stderr);
    pid_t pid = fork();
    if (pid == 0) {
        close(pfd[0]);
        FILE *out = fdopen(pfd[1], "w");
        char key[64], sched[32]; int threads = 1;
        crt_config(crt_lines[idx[0]], key, sizeof key, &threads, sched);
        if (!crt_worker_init(threads, sched)) { fprintf(out, "<parsec_init failed>\n"); fflush(out); _exit(3); }
        fprintf(out, "#ready\n"); fflush(out);
        for (int k = 0; k < n; k++) { crt_run_case(crt_lines[idx[k]], out); fflush(out); }
        parsec_fini(&crt_ctx);
        MPI_Finalize();
        _exit(0);
    }
    close(pfd[1]);
    static char buf[1 << 20]; size_t len = 0; int done = 0, timed_out = 0, ready = 0;
    struct timespec t0; clock_gettime(CLOCK_MONOTONIC, &t0);
    while (done < n) {
        long el = crt_usec_since(&t0) / 1000;
        long lim = ready ? tmo_ms : (tmo_ms > 90000 ? tmo_ms : 90000);
        if (el >= lim) { timed_out = 1; break; }
        struct pollfd pf = { pfd[0], POLLIN, 0 };
        int pr = poll(&pf, 1, (int)(lim - el));
        if (pr == 0) { timed_out = 1; break; }
        if (pr < 0) continue;
        ssize_t k = read(pfd[0], buf + len, sizeof(buf) - 1 - len);
        if (k <= 0) break;
        len += (size_t)k; buf[len] = 0;
        char *nl;
        while (done < n && (nl = memchr(buf, '\n', len))) {
            *nl = 0;
            if (buf[0] == '#') ready = 1; else crt_result[idx[done++]] = strdup(buf);
            size_t used = (size_t)(nl - buf) + 1;
            memmove(buf, nl + 1, len - used); len -= used; buf[len] = 0;
            clock_gettime(CLOCK_MONOTONIC, &t0);
        }
    }
    close(pfd[0]);
    int st = 0;
    if (done < n) {
        char msg[128];
        if (timed_out) { crt_nhangs++; kill(pid, SIGKILL); waitpid(pid, &st, 0); snprintf(msg, sizeof msg, "<hang: no completion within %d ms>", tmo_ms); }
        else { waitpid(pid, &st, 0);
               if (WIFSIGNALED(st)) snprintf(msg, sizeof msg, "<crash: signal %d>", WTERMSIG(st));
               else snprintf(msg, sizeof msg, "<no observation: exit %d>", WEXITSTATUS(st)); }
        crt_result[idx[done++]] = strdup(msg);
    } else {
        for (int w = 0; w < 300; w++) { if (waitpid(pid, &st, WNOHANG) == pid) { pid = 0; break; } usleep(10000); }
        if (pid) { kill(pid, SIGKILL); waitpid(pid, &st, 0); }
    }
    return done;
}

static int crt_main(int argc, char **argv, const char *tmo_env) {
    FILE *f = hc_open(argc, argv); char *l;
    int tmo_ms = getenv(tmo_env) ? atoi(getenv(tmo_env)) : 30000;
    int cap = 1024;
    crt_lines = malloc(cap * sizeof(char *));
    while ((l = hc_next(f))) {
        if (crt_ncases == cap) { cap *= 2; crt_lines = realloc(crt_lines, cap * sizeof(char *)); }
        crt_lines[crt_ncases++] = strdup(l);
    }
    crt_result = calloc(crt_ncases + 1, sizeof(char *));
    char (*key)[64] = calloc(crt_ncases + 1, 64);
    char *taken = calloc(crt_ncases + 1, 1);
    for (int i = 0; i < crt_ncases; i++) {
        int th; char sc[32];
        if (!crt_config(crt_lines[i], key[i], 64, &th, sc)) { crt_result[i] = strdup("<bad case>"); taken[i] = 1; }
    }
    int *idx = malloc((crt_ncases + 1) * sizeof(int));
    for (int i = 0; i < crt_ncases; i++) {
        if (taken[i]) continue;
        int n = 0;
        for (int j = i; j < crt_ncases; j++) if (!taken[j] && !strcmp(key[i], key[j])) { idx[n++] = j; taken[j] = 1; }
        for (int from = 0; from < n; ) from += crt_run_group(idx + from, n - from, tmo_ms);
    }
    for (int i = 0; i < crt_ncases; i++) printf("%s\n", crt_result[i] ? crt_result[i] : "<no result>");
    return 0;
}
#endif
