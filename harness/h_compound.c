/* C15 harness: compositions of 1..20 PTG taskpools built with parsec_compose, run on a
 * real context; every task body, every enqueue of a member and the completion callback
 * of the compound take a stamp from one global counter.
 *
 * case line:
 *   cmp <threads> <sched> <mode> <spin> <seed> | <nt> <w> ; <nt> <w> ; ...
 *     mode 0: add(compound); start; context_wait
 *          1: start; add(compound); taskpool_wait(compound); context_wait
 *          2: add(compound); start; taskpool_wait(compound); context_wait
 *     spin: seed of the busy wait inside the bodies (0 = none); seed: schedule seed of the model side (unused here)
 *     member j has <nt> tasks in <w> chains (compound_pool.jdf); a member written "b" is a bare
 *     taskpool (PARSEC_OBJ_NEW(parsec_taskpool_t): no detector, no startup hook, nothing to do): it
 *     terminates inside parsec_context_add_taskpool, its on_enqueue runs after that; its enqueue stamp
 *     is counted (enq) but takes no part in seq / clast / tpw
 *     NESTED compositions: an element "( m ; m ; ... )" is itself a compound, built first and then given to
 *     parsec_compose as ONE element: [ A ; ( B ; C ) ; D ] = parsec_compose(parsec_compose(A, parsec_compose(B, C)), D).
 *     (parsec_compose appends to a compound given as its first argument: the first element of a group is a leaf.)
 *     Members are numbered in order of their leaves; every observation is about that flattened sequence.
 *   one member: parsec_compose(tp, NULL) returns tp itself; its own completion callback
 *   plays the role of the compound's.
 *
 * observation line:
 *   n=<n> ran=c,c,.. begun=c,c,.. enq=c,c,.. ccb=<count> seq=<0|1> clast=<0|1> tpw=<0|1|-> late=<k> act=<v>
 *     ran/begun  completed / started body executions per member
 *     enq        on_enqueue calls per member (= times it was handed to the context)
 *     ccb        completion callbacks of the compound
 *     seq        1 iff for every member j: (max end stamp of any earlier member) < enq stamp of j
 *                <= every begin stamp of j, i.e. members are enabled and run strictly one after another
 *     clast      1 iff the (first) compound callback stamp is later than every enqueue/begin/end stamp
 *     tpw        modes 1,2: 1 iff parsec_taskpool_wait(compound) returned after every enqueue and end stamp
 *                (the first body executed waits up to GATE_MS for that return so that an early return is seen
 *                independently of the machine's speed)
 *     late       stamps (body, enqueue, callback) taken after parsec_context_wait returned
 *     act        context->active_taskpools after parsec_context_wait
 */
#include "compound_rt.h"

#define MAXP 32
#define MAXT 512
#define GATE_MS 400

#define MAXTOK 128
typedef struct { int n, threads, mode, spin; char sched[32]; int nt[MAXP], w[MAXP], bare[MAXP]; int ntok, tok[MAXTOK]; } case_t;
static case_t C;

static volatile int64_t t_begin[MAXP][MAXT], t_end[MAXP][MAXT];
static volatile int32_t n_begin[MAXP], n_end[MAXP], n_enq[MAXP], n_ccb, over;
static volatile int64_t s_enq[MAXP], s_ccb, s_tpw, s_wait;
static volatile int32_t gate_open, gate_used;

void vt_body(int pid, int k, parsec_execution_stream_t *es, parsec_task_t *t) {
    (void)es; (void)t;
    int64_t b = crt_stamp();
    if (pid < 0 || pid >= MAXP || k < 0 || k >= MAXT) { parsec_atomic_fetch_inc_int32(&over); return; }
    int32_t c = parsec_atomic_fetch_inc_int32(&n_begin[pid]);
    if (c < MAXT && 0 == t_begin[pid][k]) t_begin[pid][k] = b; else if (c < MAXT) parsec_atomic_fetch_inc_int32(&over);
    if (C.mode != 0 && 0 == parsec_atomic_fetch_inc_int32(&gate_used)) {
        struct timespec t0; clock_gettime(CLOCK_MONOTONIC, &t0);
        while (!gate_open && crt_usec_since(&t0) < GATE_MS * 1000L) sched_yield();
    }
    crt_spin(C.spin, pid, k);
    t_end[pid][k] = crt_stamp();
    parsec_atomic_fetch_inc_int32(&n_end[pid]);
}
static int cb_enq(parsec_taskpool_t *tp, void *d) {
    int j = (int)(intptr_t)d; (void)tp;
    int64_t s = crt_stamp();
    if (0 == parsec_atomic_fetch_inc_int32(&n_enq[j])) s_enq[j] = s;
    return 0;
}
static int cb_compound(parsec_taskpool_t *tp, void *d) {
    (void)tp; (void)d;
    int64_t s = crt_stamp();
    if (0 == parsec_atomic_fetch_inc_int32(&n_ccb)) s_ccb = s;
    return 0;
}

/* the compounds parsec_compose created (to free them) */
static parsec_taskpool_t *comps[MAXTOK]; static int ncomp;
static void note_compound(parsec_taskpool_t *x) {
    if (!x || x->taskpool_type != PARSEC_TASKPOOL_TYPE_COMPOUND) return;
    for (int i = 0; i < ncomp; i++) if (comps[i] == x) return;
    if (ncomp < MAXTOK) comps[ncomp++] = x;
}
/* builds the group that starts at token *pos (up to the matching -2 or the end) through parsec_compose, left to right */
static parsec_taskpool_t *build_group(parsec_taskpool_t **tp, int *pos, int depth) {
    parsec_taskpool_t *acc = NULL;
    while (*pos < C.ntok) {
        int t = C.tok[(*pos)++];
        parsec_taskpool_t *e;
        if (t == -2) { if (depth > 0) return acc; continue; }
        if (t == -1) e = build_group(tp, pos, depth + 1); else e = tp[t];
        acc = parsec_compose(acc, e);
        note_compound(acc);
    }
    return acc;
}

static int parse_case(const char *line, case_t *c) {
    static char l[HC_MAXLINE];
    strncpy(l, line, HC_MAXLINE - 1); l[HC_MAXLINE - 1] = 0;
    char *bar = strchr(l, '|');
    if (!bar) return 0;
    *bar = 0;
    memset(c, 0, sizeof *c);
    int seed;
    if (sscanf(l, "cmp %d %31s %d %d %d", &c->threads, c->sched, &c->mode, &c->spin, &seed) != 5) return 0;
    if (c->threads < 1 || c->threads > 64 || c->mode < 0 || c->mode > 2) return 0;
    /* members in leaf order; the bracket structure is kept as a token list for the builder */
    char *s = bar + 1; int depth = 0;
    c->ntok = 0;
    for (;;) {
        while (*s == ' ' || *s == ';') s++;
        if (!*s) break;
        if (c->ntok >= MAXTOK) return 0;
        if (*s == '(') { c->tok[c->ntok++] = -1; depth++; s++; continue; }
        if (*s == ')') { if (depth <= 0) return 0; c->tok[c->ntok++] = -2; depth--; s++; continue; }
        int nt, w, used = 0;
        if (*s == 'b') { if (c->n >= MAXP) return 0; c->bare[c->n] = 1; c->nt[c->n] = 0; c->w[c->n] = 1; c->tok[c->ntok++] = c->n; c->n++; s++; continue; }
        if (sscanf(s, "%d %d%n", &nt, &w, &used) != 2) return 0;
        if (c->n >= MAXP || nt < 0 || nt > MAXT || w < 1) return 0;
        c->nt[c->n] = nt; c->w[c->n] = w; c->tok[c->ntok++] = c->n; c->n++;
        s += used;
    }
    if (depth != 0) return 0;
    return c->n >= 1;
}
static int crt_config(const char *line, char *key, int keylen, int *threads, char *sched) {
    static case_t t;
    if (strncmp(line, "cmp ", 4) || !parse_case(line, &t)) return 0;
    snprintf(key, keylen, "%d:%s", t.threads, t.sched);
    *threads = t.threads; strcpy(sched, t.sched);
    return 1;
}

static void crt_run_case(const char *line, FILE *out) {
    int rc;
    if (!parse_case(line, &C)) { fprintf(out, "<bad case>\n"); return; }
    memset((void *)t_begin, 0, sizeof t_begin); memset((void *)t_end, 0, sizeof t_end);
    memset((void *)n_begin, 0, sizeof n_begin); memset((void *)n_end, 0, sizeof n_end); memset((void *)n_enq, 0, sizeof n_enq);
    memset((void *)s_enq, 0, sizeof s_enq);
    n_ccb = 0; over = 0; s_ccb = s_tpw = s_wait = 0; gate_open = 0; gate_used = 0; crt_clock = 0;

    parsec_taskpool_t *tp[MAXP], *c = NULL;
    for (int j = 0; j < C.n; j++) {
        if (C.bare[j]) { tp[j] = PARSEC_OBJ_NEW(parsec_taskpool_t); tp[j]->taskpool_name = strdup("bare"); }
        else tp[j] = (parsec_taskpool_t *)parsec_compound_pool_new(&crt_dc, j, C.nt[j], C.w[j]);
        parsec_taskpool_set_enqueue_callback(tp[j], cb_enq, (void *)(intptr_t)j);
    }
    ncomp = 0;
    { int pos = 0; c = build_group(tp, &pos, 0); }
    parsec_taskpool_set_complete_callback(c, cb_compound, NULL);

    if (C.mode == 1) { rc = parsec_context_start(crt_ctx); if (rc < 0) { fprintf(out, "<start rc=%d>\n", rc); return; } }
    rc = parsec_context_add_taskpool(crt_ctx, c);
    if (rc < 0) { fprintf(out, "<add rc=%d>\n", rc); return; }
    if (C.mode != 1) { rc = parsec_context_start(crt_ctx); if (rc < 0) { fprintf(out, "<start rc=%d>\n", rc); return; } }
    if (C.mode != 0) {
        rc = parsec_taskpool_wait(c);
        s_tpw = crt_stamp();
        parsec_mfence();
        gate_open = 1;
        if (rc < 0) { fprintf(out, "<taskpool_wait rc=%d>\n", rc); return; }
    }
    rc = parsec_context_wait(crt_ctx);
    s_wait = crt_stamp();
    if (rc < 0) { fprintf(out, "<context_wait rc=%d>\n", rc); return; }
    int act = crt_ctx->active_taskpools;
    /* give a straggler (a body or callback still running after the wait returned) a chance to show up */
    usleep(200);
    int64_t fin = crt_clock;

    /* ---- derive the observation */
    int seq = 1, clast = 1, tpw = 1, late = (int)(fin - s_wait);
    int64_t maxend_prev = 0;           /* max end stamp over members < j */
    for (int j = 0; j < C.n; j++) {
        int64_t e = s_enq[j];
        if (C.bare[j]) continue;
        if (n_enq[j] >= 1) { if (e <= maxend_prev) seq = 0; }
        int64_t mx = 0;
        for (int k = 0; k < MAXT; k++) {
            if (t_begin[j][k]) { if (n_enq[j] < 1 || t_begin[j][k] < e || t_begin[j][k] <= maxend_prev) seq = 0; }
            if (t_end[j][k] > mx) mx = t_end[j][k];
        }
        if (e > mx) mx = e;
        if (mx > maxend_prev) maxend_prev = mx;
    }
    /* maxend_prev is now the latest enqueue/end stamp of all members */
    if (n_ccb < 1 || s_ccb <= maxend_prev) clast = 0;
    for (int j = 0; j < C.n; j++) for (int k = 0; k < MAXT; k++) if (t_begin[j][k] && s_ccb && t_begin[j][k] > s_ccb) clast = 0;
    if (C.mode != 0 && s_tpw <= maxend_prev) tpw = 0;

    fprintf(out, "n=%d ran=", C.n);
    for (int j = 0; j < C.n; j++) fprintf(out, "%s%d", j ? "," : "", (int)n_end[j]);
    fprintf(out, " begun=");
    for (int j = 0; j < C.n; j++) fprintf(out, "%s%d", j ? "," : "", (int)n_begin[j]);
    fprintf(out, " enq=");
    for (int j = 0; j < C.n; j++) fprintf(out, "%s%d", j ? "," : "", (int)n_enq[j]);
    fprintf(out, " ccb=%d seq=%d clast=%d tpw=", (int)n_ccb, seq, clast);
    if (C.mode == 0) fprintf(out, "-"); else fprintf(out, "%d", tpw);
    fprintf(out, " late=%d act=%d%s\n", late, act, over ? " over" : "");
    fflush(out);

    for (int j = 0; j < C.n; j++) parsec_taskpool_free(tp[j]);
    for (int i = 0; i < ncomp; i++) parsec_taskpool_free(comps[i]);
}

int main(int argc, char **argv) { crt_warmup = 1; return crt_main(argc, argv, "H_COMPOUND_TIMEOUT_MS"); }
