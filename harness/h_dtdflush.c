/* C17 harness: insertion sequences with task placement, data flushes and waits on 1..4 MPI
 * ranks, through the real DTD interface (parsec_dtd_insert_task, parsec_dtd_data_flush,
 * parsec_dtd_data_flush_all, parsec_taskpool_wait); one tile of <bytes> bytes per datum (3..16, sizes that
 * are not multiples of 4 included), owned by the rank the case says.  A tile of value v (< 2^20) holds
 * enc(v, j) = (uint8)((v >> 8 (j mod 3)) + 37 (j / 3)) in byte j.  Two arena datatypes of bytes are attached:
 * the whole tile and its leading part (NH = 3 bytes: the value); writers use the whole tile, a
 * reader the whole tile (r) or the leading part (h), as the DTD API allows per parameter.  Derived from harness/h_dtd.c (C03/C04, single rank).
 *
 *   [mpiexec -n R] h_dtdflush <casefile> <outfile>
 *
 * Every case of the file must have the same (ranks, threads, sched, window, threshold): the
 * plugin groups the cases, one MPI job per group (checks/C17.py).  Every rank parses the same
 * cases and inserts the same sequence (DTD requires it); after each case the ranks' observations
 * are merged with MPI_Reduce and rank 0 appends ONE line per case to <outfile> (after a line "#ready"
 * written when MPI and PaRSEC are initialised).
 *
 * case line:
 *   dtdflush <ranks> <ndata> <threads> <sched> <window> <threshold> <spin> <owners> [<bytes>] | <item> ; <item> ; ...
 *   bytes   size of a tile (default 16)
 *   owners  comma separated owner rank of every datum (0 <= owner < ranks)
 *   item    task:   [@<rank>] <datum><r|h|w|x>[^] ...   ("." = no data; h = read through the leading-part datatype)
 *                   @<rank>: placed by a PARSEC_VALUE | PARSEC_AFFINITY parameter;
 *                   ^ after an access: PARSEC_AFFINITY on that flow (the task runs on the owner
 *                   of that tile); exactly one of the two per task
 *           F<d>    parsec_dtd_data_flush of tile d
 *           F*      parsec_dtd_data_flush_all
 *           !       parsec_taskpool_wait, then every rank records the content of the tiles it owns
 *           ~       timing only ("late flush"): the inserting thread of every rank polls (bounded, 400 ms) until
 *                   the bodies of all tasks inserted so far that run on its rank have returned, then sleeps 2 ms:
 *                   the next flush finds the tile's last user already completed (last_user.alive ==
 *                   TASK_IS_NOT_ALIVE branch of parsec_insert_dtd_flush_task) instead of still pending
 *           %<r>    timing only ("the others run ahead"): the inserting thread of rank r sleeps 30 ms here, so that
 *                   activations sent by the other ranks arrive before rank r has inserted the tasks they target
 *                   (deferred activations: the message is saved and replayed at insertion)
 *   The harness ends every case with F* ; ! (section "data:").
 *
 * observation line:
 *   in: <t>=<v>,<v> ... | snap: <v>,<v>,... <v>,... | data: v ... | runs: c ... | null=<k> torn=<n>
 *   in    per task (numbered in insertion order) the values read through its r/x flows by the
 *         rank that ran it; snap: one group per "!" (owner's copy of every datum, in datum order);
 *   data  owner's copy of every datum after the final flush_all + wait; runs: executions per task
 *         summed over the ranks; null: flows for which a body got a NULL pointer; torn: elements a body
 *         could see (the whole tile for r/x, NH bytes for h) that did not belong to the value in bytes 0..2.
 *   A tile is printed as its value v when every byte j holds enc(v, j), else as b0/b1/../b(bytes-1). */
#include "parsec/runtime.h"
#include "parsec/data_dist/matrix/two_dim_rectangle_cyclic.h"
#include "parsec/interfaces/dtd/insert_function.h"
#include "parsec/interfaces/dtd/insert_function_internal.h"
#include "parsec/sys/atomic.h"
#include "hcommon.h"
#include <mpi.h>
#include <unistd.h>
#include <time.h>
#include <sched.h>

#define MAXT 512
#define MAXD 16
#define MAXF 8
#define MAXI 1024          /* items of a case */
#define MAXS 48            /* wait points of a case */
#define MAXR 8
#define PMOD 1000003u
#define MAXB 16             /* bytes per tile at most */
#define NH 3               /* leading part seen through the second datatype: the bytes that hold the value */
#define NB (C.tb)
static inline uint8_t enc(uint32_t v, int j) { return (uint8_t)((v >> (8 * (j % 3))) + 37u * (uint32_t)(j / 3)); }
static inline int32_t dec(const volatile uint8_t *p) { return (int32_t)((uint32_t)p[0] | ((uint32_t)p[1] << 8) | ((uint32_t)p[2] << 16)); }

typedef struct { int nacc; int d[MAXF]; char m[MAXF]; int rank; int aff; } task_t;   /* aff: flow carrying PARSEC_AFFINITY or -1 */
typedef struct { char kind; int arg; } item_t;     /* 'T' task index, 'F' datum (-1 = all), '!' */
typedef struct {
    int ranks, ndata, threads, window, threshold, spin, ntasks, nitems, tb;
    char sched[32];
    int owner[MAXD];
    task_t t[MAXT];
    item_t it[MAXI];
} case_t;
static case_t C;
static int my_rank, world, dbg;

static int32_t obs_in[MAXT][MAXF];
static int32_t obs_null[MAXT][MAXF];
static int32_t runs[MAXT];
static int32_t snaps[MAXS + 1][MAXD][MAXB];
static int32_t nulls, torn;
static parsec_taskpool_t *g_tp;
static parsec_data_collection_t *g_A;
static int g_region, g_head;
static uint8_t *home[MAXD];          /* owner's storage of tile d (NULL on the other ranks) */

static uint32_t Fval(int tid, const int32_t *in, int n) {
    uint64_t a = (uint64_t)tid + 1;
    for (int i = 0; i < n; i++) a = (a * 31 + (uint64_t)(uint32_t)in[i] + 7) % PMOD;
    return (uint32_t)((a * 17 + 3) % PMOD);
}
static uint64_t mix(uint64_t z) {
    z += 0x9E3779B97F4A7C15ull; z = (z ^ (z >> 30)) * 0xBF58476D1CE4E5B9ull;
    z = (z ^ (z >> 27)) * 0x94D049BB133111EBull; return z ^ (z >> 31);
}
static long usec_since(const struct timespec *t0) {
    struct timespec t1; clock_gettime(CLOCK_MONOTONIC, &t1);
    return (t1.tv_sec - t0->tv_sec) * 1000000L + (t1.tv_nsec - t0->tv_nsec) / 1000;
}
static void spin_for(int tid) {
    if (!C.spin) return;
    uint64_t h = mix((uint64_t)C.spin * 1000003ull + (uint64_t)tid);
    long us = (h % 8 == 0) ? 150 + (long)((h >> 8) % 350) : (long)((h >> 8) % 50);
    struct timespec t0; clock_gettime(CLOCK_MONOTONIC, &t0);
    while (usec_since(&t0) < us) { }
}

static int body(parsec_execution_stream_t *es, parsec_task_t *this_task) {
    int tid = -1, rk = -1; uint8_t *p[MAXF] = {0};
    (void)es;
    parsec_dtd_unpack_args(this_task, &tid, &rk, &p[0], &p[1], &p[2], &p[3], &p[4], &p[5], &p[6], &p[7]);
    const task_t *t = &C.t[tid];
    int32_t in[MAXF]; int nin = 0;
    for (int j = 0; j < t->nacc; j++) {
        if (NULL == p[j]) { obs_null[tid][j] = 1; parsec_atomic_fetch_inc_int32(&nulls); }
        if (t->m[j] != 'w') {
            in[nin] = p[j] ? dec(p[j]) : -1; obs_in[tid][nin] = in[nin]; nin++;
            if (p[j]) for (int i = NH; i < (t->m[j] == 'h' ? NH : NB); i++)
                if (((volatile uint8_t *)p[j])[i] != enc((uint32_t)in[nin - 1], i)) {
                    parsec_atomic_fetch_inc_int32(&torn);
                    if (dbg) fprintf(stderr, "[%d] task %d flow %d byte %d is %d, the value is %d\n", my_rank, tid, j, i,
                                     (int)((volatile uint8_t *)p[j])[i], (int)in[nin - 1]);
                }
        }
    }
    spin_for(tid);
    uint32_t v = Fval(tid, in, nin);
    for (int j = 0; j < t->nacc; j++)
        if (t->m[j] != 'r' && t->m[j] != 'h' && p[j])
            for (int i = 0; i < NB; i++) ((volatile uint8_t *)p[j])[i] = enc(v, i);
    parsec_atomic_fetch_inc_int32(&runs[tid]);
    if (dbg) fprintf(stderr, "[%d] ran task %d\n", my_rank, tid);
    return PARSEC_HOOK_RETURN_DONE;
}

/* tile d is tile (owner[d] + ranks * d, 0) of a (ranks x 1) block-cyclic matrix of (ranks * ndata) x 1
 * tiles of <bytes> bytes: any ownership map is a choice of rows */
static parsec_data_key_t key_of(int d) { return g_A->data_key(g_A, C.owner[d] + C.ranks * d, 0); }
static parsec_dtd_tile_t *tile_of(int d) { return PARSEC_DTD_TILE_OF_KEY(g_A, key_of(d)); }

static int opf(char m) { return (m == 'r' || m == 'h') ? PARSEC_INPUT : m == 'w' ? PARSEC_OUTPUT : PARSEC_INOUT; }
#define ARG(j) PASSED_BY_REF, tile_of(t->d[j]), (opf(t->m[j]) | (t->m[j] == 'h' ? g_head : g_region) | ((j) == t->aff ? PARSEC_AFFINITY : 0))
static void insert_one(int tid) {
    const task_t *t = &C.t[tid];
    int rk = t->rank;
    int rkflag = PARSEC_VALUE | (t->aff < 0 ? PARSEC_AFFINITY : 0);
#define HEAD g_tp, body, 0, PARSEC_DEV_CPU, "T", sizeof(int), &tid, PARSEC_VALUE, sizeof(int), &rk, rkflag
    switch (t->nacc) {
    case 0: parsec_dtd_insert_task(HEAD, PARSEC_DTD_ARG_END); break;
    case 1: parsec_dtd_insert_task(HEAD, ARG(0), PARSEC_DTD_ARG_END); break;
    case 2: parsec_dtd_insert_task(HEAD, ARG(0), ARG(1), PARSEC_DTD_ARG_END); break;
    case 3: parsec_dtd_insert_task(HEAD, ARG(0), ARG(1), ARG(2), PARSEC_DTD_ARG_END); break;
    case 4: parsec_dtd_insert_task(HEAD, ARG(0), ARG(1), ARG(2), ARG(3), PARSEC_DTD_ARG_END); break;
    case 5: parsec_dtd_insert_task(HEAD, ARG(0), ARG(1), ARG(2), ARG(3), ARG(4), PARSEC_DTD_ARG_END); break;
    case 6: parsec_dtd_insert_task(HEAD, ARG(0), ARG(1), ARG(2), ARG(3), ARG(4), ARG(5), PARSEC_DTD_ARG_END); break;
    case 7: parsec_dtd_insert_task(HEAD, ARG(0), ARG(1), ARG(2), ARG(3), ARG(4), ARG(5), ARG(6), PARSEC_DTD_ARG_END); break;
    default: parsec_dtd_insert_task(HEAD, ARG(0), ARG(1), ARG(2), ARG(3), ARG(4), ARG(5), ARG(6), ARG(7), PARSEC_DTD_ARG_END); break;
    }
}

/* ---- case parsing ---- */
static int parse_case(const char *line, case_t *c) {
    static char l[HC_MAXLINE];
    char owners[256];
    strncpy(l, line, HC_MAXLINE - 1); l[HC_MAXLINE - 1] = 0;
    char *bar = strchr(l, '|');
    if (!bar) return 0;
    *bar = 0;
    memset(c, 0, sizeof(*c));
    c->tb = 16;
    if (sscanf(l, "dtdflush %d %d %d %31s %d %d %d %255s %d", &c->ranks, &c->ndata, &c->threads, c->sched, &c->window,
               &c->threshold, &c->spin, owners, &c->tb) < 8) return 0;
    if (c->tb < NH || c->tb > MAXB) return 0;
    if (c->ranks < 1 || c->ranks > MAXR || c->ndata < 1 || c->ndata > MAXD || c->threads < 1 || c->threads > 64 ||
        c->window < 0 || c->threshold < 0) return 0;
    {   char *s = owners; int d = 0;
        while (*s && d < c->ndata) {
            char *e; long o = strtol(s, &e, 10);
            if (e == s || o < 0 || o >= c->ranks) return 0;
            c->owner[d++] = (int)o; s = e; if (*s == ',') s++;
        }
        if (d != c->ndata || *s) return 0;
    }
    char *s = bar + 1; int nwait = 0;
    for (;;) {
        while (*s == ' ') s++;
        if (*s == 0) break;
        if (c->nitems >= MAXI) return 0;
        item_t *it = &c->it[c->nitems];
        if (*s == '!') {
            s++; it->kind = '!'; if (++nwait > MAXS) return 0;
        } else if (*s == '%') {
            char *e; long r = strtol(s + 1, &e, 10); if (e == s + 1 || r < 0 || r >= c->ranks) return 0;
            it->kind = '%'; it->arg = (int)r; s = e;
        } else if (*s == '~') {
            s++; it->kind = '~'; it->arg = c->ntasks;
        } else if (*s == 'F') {
            s++; it->kind = 'F';
            if (*s == '*') { it->arg = -1; s++; }
            else { char *e; long d = strtol(s, &e, 10); if (e == s || d < 0 || d >= c->ndata) return 0; it->arg = (int)d; s = e; }
        } else {
            if (c->ntasks >= MAXT) return 0;
            task_t *t = &c->t[c->ntasks];
            t->rank = -1; t->aff = -1;
            it->kind = 'T'; it->arg = c->ntasks;
            while (*s && *s != ';') {
                if (*s == ' ' || *s == '.') { s++; continue; }
                if (*s == '@') { char *e; long r = strtol(s + 1, &e, 10); if (e == s + 1 || r < 0 || r >= c->ranks) return 0; t->rank = (int)r; s = e; continue; }
                char *e; long d = strtol(s, &e, 10);
                if (e == s || d < 0 || d >= c->ndata || t->nacc >= MAXF) return 0;
                if (*e != 'r' && *e != 'w' && *e != 'x' && *e != 'h') return 0;
                t->d[t->nacc] = (int)d; t->m[t->nacc] = *e; e++;
                if (*e == '^') { if (t->aff >= 0) return 0; t->aff = t->nacc; e++; }
                t->nacc++;
                s = e;
            }
            if ((t->rank >= 0) == (t->aff >= 0)) return 0;            /* exactly one placement */
            if (t->aff >= 0) t->rank = c->owner[t->d[t->aff]];
            c->ntasks++;
        }
        c->nitems++;
        while (*s == ' ') s++;
        if (*s == ';') s++; else if (*s) return 0;
    }
    return 1;
}

static parsec_context_t *ctx;
static int ctx_init(const case_t *c) {
    static char *pv[16]; int pc = 0; static char wbuf[16], hbuf[16], sbuf[32];
    strcpy(sbuf, c->sched);
    if (strcmp(c->sched, "default")) { pv[pc++] = "--mca"; pv[pc++] = "mca_sched"; pv[pc++] = sbuf; }
    if (c->window > 0) {
        snprintf(wbuf, sizeof wbuf, "%d", c->window); pv[pc++] = "--mca"; pv[pc++] = "dtd_window_size"; pv[pc++] = wbuf;
        snprintf(hbuf, sizeof hbuf, "%d", c->threshold); pv[pc++] = "--mca"; pv[pc++] = "dtd_threshold_size"; pv[pc++] = hbuf;
    }
    pv[pc] = NULL;
    char **ppv = pv;
    ctx = parsec_init(c->threads, &pc, &ppv);
    return ctx != NULL;
}

static void snapshot(int k) {
    for (int d = 0; d < C.ndata; d++)
        for (int i = 0; i < NB; i++) snaps[k][d][i] = home[d] ? ((volatile uint8_t *)home[d])[i] : 0;
}

/* returns NULL or a static error text */
static const char *run_case(int *nsnap_out) {
    int rc, nsnap = 0;
    memset(obs_in, 0, sizeof obs_in); memset(obs_null, 0, sizeof obs_null);
    memset(runs, 0, sizeof runs); memset(snaps, 0, sizeof snaps); nulls = 0; torn = 0;

    parsec_matrix_block_cyclic_t *m = calloc(1, sizeof(*m));
    int mt = C.ranks * C.ndata;
    parsec_matrix_block_cyclic_init(m, PARSEC_MATRIX_BYTE, PARSEC_MATRIX_TILE, my_rank,
                                    NB, 1, mt * NB, 1, 0, 0, mt * NB, 1, C.ranks, 1, 1, 1, 0, 0);
    m->mat = parsec_data_allocate((size_t)m->super.nb_local_tiles * (size_t)m->super.bsiz *
                                  (size_t)parsec_datadist_getsizeoftype(m->super.mtype));
    memset(m->mat, 0, (size_t)m->super.nb_local_tiles * (size_t)m->super.bsiz);
    g_A = (parsec_data_collection_t *)m;
    parsec_data_collection_set_key(g_A, "A");
    for (int d = 0; d < C.ndata; d++) {
        home[d] = NULL;
        if (C.owner[d] == my_rank) {
            parsec_data_t *dt = g_A->data_of(g_A, C.owner[d] + C.ranks * d, 0);
            home[d] = (uint8_t *)PARSEC_DATA_COPY_GET_PTR(dt->device_copies[0]);
            for (int i = 0; i < NB; i++) home[d][i] = enc(100u + (uint32_t)d, i);
        }
    }

    g_tp = parsec_dtd_taskpool_new();
    parsec_arena_datatype_t *adt = parsec_matrix_adt_new_rect(parsec_datatype_int8_t, NB, 1, NB);
    parsec_dtd_attach_arena_datatype(ctx, adt, &g_region);
    parsec_arena_datatype_t *adth = parsec_matrix_adt_new_rect(parsec_datatype_int8_t, NH, 1, NH);
    parsec_dtd_attach_arena_datatype(ctx, adth, &g_head);
    parsec_dtd_data_collection_init(g_A);
    rc = parsec_context_add_taskpool(ctx, g_tp);
    if (rc < 0) return "<add_taskpool failed>";
    rc = parsec_context_start(ctx);
    if (rc < 0) return "<context_start failed>";

    for (int i = 0; i < C.nitems; i++) {
        const item_t *it = &C.it[i];
        if (dbg) fprintf(stderr, "[%d] item %d kind %c arg %d\n", my_rank, i, it->kind, it->arg);
        if (it->kind == 'T') insert_one(it->arg);
        else if (it->kind == 'F') {
            if (it->arg < 0) parsec_dtd_data_flush_all(g_tp, g_A);
            else parsec_dtd_data_flush(g_tp, tile_of(it->arg));
        } else if (it->kind == '%') {
            if (it->arg == my_rank) usleep(30000);
        } else if (it->kind == '~') {
            struct timespec t0; clock_gettime(CLOCK_MONOTONIC, &t0);
            for (;;) {
                int pending = 0;
                for (int k = 0; k < it->arg; k++) if (C.t[k].rank == my_rank && !*(volatile int32_t *)&runs[k]) pending = 1;
                if (!pending || usec_since(&t0) > 400000) break;
                usleep(200);
            }
            usleep(2000);
        } else {
            rc = parsec_taskpool_wait(g_tp);
            if (rc < 0) return "<taskpool_wait failed>";
            snapshot(nsnap++);
        }
    }
    if (dbg) fprintf(stderr, "[%d] final flush_all\n", my_rank);
    parsec_dtd_data_flush_all(g_tp, g_A);
    if (dbg) fprintf(stderr, "[%d] final wait\n", my_rank);
    rc = parsec_taskpool_wait(g_tp);
    if (rc < 0) return "<taskpool_wait failed>";
    if (dbg) fprintf(stderr, "[%d] final wait done\n", my_rank);
    snapshot(nsnap);
    *nsnap_out = nsnap;

    rc = parsec_context_wait(ctx);
    if (rc < 0) return "<context_wait failed>";
    parsec_taskpool_free(g_tp);
    parsec_dtd_data_collection_fini(g_A);
    parsec_data_free(m->mat); m->mat = NULL;
    parsec_tiled_matrix_destroy((parsec_tiled_matrix_t *)m);
    free(m);
    parsec_dtd_free_arena_datatype(ctx, g_region);
    parsec_dtd_free_arena_datatype(ctx, g_head);
    return NULL;
}

static void print_tile(FILE *out, const int32_t *e) {
    int ok = 1;
    uint8_t b[3] = { (uint8_t)e[0], (uint8_t)e[1], (uint8_t)e[2] };
    int32_t v = dec(b);
    for (int i = 0; i < NB; i++) if (e[i] != (int32_t)enc((uint32_t)v, i)) ok = 0;
    if (ok) { fprintf(out, "%d", (int)v); return; }
    for (int i = 0; i < NB; i++) fprintf(out, "%s%d", i ? "/" : "", (int)e[i]);
}

int main(int argc, char **argv) {
    int prov;
    if (argc < 3) { fprintf(stderr, "usage: [mpiexec -n R] %s casefile outfile\n", argv[0]); return 2; }
    MPI_Init_thread(NULL, NULL, MPI_THREAD_SERIALIZED, &prov);
    MPI_Comm_size(MPI_COMM_WORLD, &world);
    MPI_Comm_rank(MPI_COMM_WORLD, &my_rank);
    FILE *f = hc_open(argc, argv); char *l;
    FILE *out = NULL;
    dbg = getenv("H_DTDFLUSH_DEBUG") != NULL;
    if (my_rank == 0) { out = fopen(argv[2], "a"); if (!out) { perror(argv[2]); MPI_Abort(MPI_COMM_WORLD, 2); } }
    int started = 0;
    static int32_t r_in[MAXT][MAXF], r_null[MAXT][MAXF], r_runs[MAXT], r_snaps[MAXS + 1][MAXD][MAXB];
    while ((l = hc_next(f))) {
        if (strncmp(l, "dtdflush ", 9) || !parse_case(l, &C) || C.ranks != world) {
            if (out) { fprintf(out, "<bad case>\n"); fflush(out); }
            continue;
        }
        if (!started) {
            if (!ctx_init(&C)) { if (out) { fprintf(out, "<parsec_init failed>\n"); fflush(out); } MPI_Abort(MPI_COMM_WORLD, 3); }
            started = 1;
            if (out) { fprintf(out, "#ready\n"); fflush(out); }     /* start-up is not charged to the first case */
        }
        int nsnap = 0;
        const char *err = run_case(&nsnap);
        int bad = err != NULL, anybad = 0;
        MPI_Allreduce(&bad, &anybad, 1, MPI_INT, MPI_MAX, MPI_COMM_WORLD);
        if (anybad) { if (out) { fprintf(out, "%s\n", err ? err : "<failure on another rank>"); fflush(out); } continue; }
        int32_t r_nulls = 0, r_torn = 0;
        MPI_Reduce(obs_in, r_in, MAXT * MAXF, MPI_INT32_T, MPI_SUM, 0, MPI_COMM_WORLD);
        MPI_Reduce(obs_null, r_null, MAXT * MAXF, MPI_INT32_T, MPI_SUM, 0, MPI_COMM_WORLD);
        MPI_Reduce(runs, r_runs, MAXT, MPI_INT32_T, MPI_SUM, 0, MPI_COMM_WORLD);
        MPI_Reduce(snaps, r_snaps, (MAXS + 1) * MAXD * MAXB, MPI_INT32_T, MPI_SUM, 0, MPI_COMM_WORLD);
        MPI_Reduce(&nulls, &r_nulls, 1, MPI_INT32_T, MPI_SUM, 0, MPI_COMM_WORLD);
        MPI_Reduce(&torn, &r_torn, 1, MPI_INT32_T, MPI_SUM, 0, MPI_COMM_WORLD);
        if (!out) continue;
        fprintf(out, "in:");
        for (int i = 0; i < C.ntasks; i++) {
            fprintf(out, " %d=", i);
            int k = 0;
            for (int j = 0; j < C.t[i].nacc; j++)
                if (C.t[i].m[j] != 'w') {
                    if (k) fprintf(out, ",");
                    if (!r_runs[i]) fprintf(out, "?"); else if (r_null[i][j]) fprintf(out, "N"); else fprintf(out, "%d", (int)r_in[i][k]);
                    k++;
                }
            if (!k) fprintf(out, "-");
        }
        fprintf(out, " | snap:");
        for (int s = 0; s < nsnap; s++) {
            fprintf(out, " ");
            for (int d = 0; d < C.ndata; d++) { fprintf(out, "%s", d ? "," : ""); print_tile(out, r_snaps[s][d]); }
        }
        fprintf(out, " | data:");
        for (int d = 0; d < C.ndata; d++) { fprintf(out, " "); print_tile(out, r_snaps[nsnap][d]); }
        fprintf(out, " | runs:");
        for (int i = 0; i < C.ntasks; i++) fprintf(out, " %d", (int)r_runs[i]);
        fprintf(out, " | null=%d torn=%d\n", (int)r_nulls, (int)r_torn);
        fflush(out);
    }
    if (started) parsec_fini(&ctx);
    if (out) fclose(out);
    MPI_Finalize();
    return 0;
}
