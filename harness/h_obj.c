/* C34 harness (T-sched): the real object system of parsec/class/parsec_object.{h,c}.
 * Real classes of depth 1..6 below parsec_object_t are instantiated per case with
 * PARSEC_OBJ_CLASS_INSTANCE (constructor / destructor NULL or a logging function), an
 * object is created with PARSEC_OBJ_NEW, the distributed references are taken with
 * PARSEC_OBJ_RETAIN, and every model thread (a coroutine) runs its list of
 * PARSEC_OBJ_RETAIN / PARSEC_OBJ_RELEASE under the schedule of the case.
 * parsec_object.h is parsed after interpose.h (-DBUILDING_PARSEC), so the inline
 * parsec_obj_update yields in front of its atomic fetch-add; the fetch-add itself
 * is additionally hooked here to log (thread, resulting count) and to notice an
 * update performed on a destroyed object.  parsec_object.c is included with
 * free() hooked: free(object) is logged and the block is quarantined until the
 * end of the case, so nothing here ever touches freed memory.
 *
 * case: D c1 d1 .. cD dD | NT {held nops op*}* | sched.. | flag      (op: 1 retain, 0 release)
 *       level 1 derives from parsec_object_t, level D is the object's class
 * out : depth=K | ctor: ids | ev: t:v .. dN .. F | destroys=N late=N rc=R | steps: .. | static: cN .. dN ..
 *
 * first-use cases: the class of the case is NOT initialised by the main thread; NT threads each
 * PARSEC_OBJ_NEW an object of that same fresh class (racing through parsec_class_initialize: plain
 * test, class_lock, re-test, array construction, unlock), then run their own retain/release list on
 * their own object.  Scheduling points: lock attempt (a failed one is a stutter step), unlock, fetch-add.
 * case: fu D c1 d1 .. cD dD | NT {nops op*}* | sched.. | 1
 * out : fu depth=K inits=N | t0: cN .. :v .. dN .. F | t1: ... | steps: ..     (per-thread logs)
 */
#if defined(VERIF_RACE)
/* race-exploration build (clang -fsanitize=thread + tsanrt.c): every plain or atomic access to the
 * registered shared bytes (the reference-count word of the object of the case) yields; no macro
 * interposition.  The value returned by parsec_obj_update is logged by a wrapper around the call
 * (see h_update below), the free() quarantine is the same. */
#include "parsec/parsec_config.h"
extern void race_share(const void *p, unsigned long len); extern void race_reset(void);
#else
#include "interpose.h"
#endif
#include "cosched.h"
#include "hcommon.h"

#define MAXEV 8192
enum { EV_UPD, EV_CTOR, EV_DTOR, EV_FREE };
typedef struct { int kind, a, v, t; } hev_t;
static hev_t evs[MAXEV];
static int nev, log_upd;
static void *g_obj; static size_t g_objsize;
static int g_destroys, g_late;
/* arguments are plain locals of the caller: nothing shared is evaluated while logging */
static void hlog(int kind, int a, int v) { if (nev < MAXEV) { evs[nev].kind = kind; evs[nev].a = a; evs[nev].v = v; evs[nev].t = cos_self(); nev++; } }
/* first-use cases: one object per thread */
static int g_fu; static void *g_objs[COS_MAX];
static int obj_index(const volatile void *l) {
    for (int i = 0; i < COS_MAX; i++)
        if (g_objs[i] && (char *)l >= (char *)g_objs[i] && (char *)l < (char *)g_objs[i] + g_objsize) return i;
    return -1;
}

#if !defined(VERIF_RACE)
/* the atomic update: yield (scheduling point), then the real inline fetch-add, logged */
#undef parsec_atomic_fetch_add_int32
static inline int32_t h_fetch_add(volatile int32_t *l, int32_t v) {
    int on_obj = g_fu ? obj_index(l) >= 0
                      : (g_obj && (char *)l >= (char *)g_obj && (char *)l < (char *)g_obj + g_objsize);
    if (on_obj && !g_fu && g_destroys > 0) g_late++;
    int32_t old = parsec_atomic_fetch_add_int32(l, v);
    if (on_obj && log_upd) hlog(EV_UPD, cos_self(), (int32_t)(old + v));
    return old;
}
#define parsec_atomic_fetch_add_int32(l,v) (cos_yield(), h_fetch_add((l),(v)))
#endif

/* free(): the object's block is quarantined (logged, released at the end of the case) */
static void h_free(void *p) {
    if (p && p == g_obj) { g_destroys++; hlog(EV_FREE, 0, 0); return; }
    if (p && g_fu) for (int i = 0; i < COS_MAX; i++) if (p == g_objs[i]) { hlog(EV_FREE, 0, 0); return; }
    free(p);
}
#define free(p) h_free(p)
#if defined(VERIF_RACE)
/* race build, first-use cases: every block allocated by the code under test (the constructor /
 * destructor arrays, the objects) is shared, i.e. every access to it is a scheduling point; the
 * fresh block reads as zeros (one legal content of malloc'ed memory; a NULL entry ends a table walk) */
static void *h_malloc(size_t n) {
    if (!g_fu) return malloc(n);
    void *p = calloc(1, n ? n : 1);
    if (p) race_share(p, n);
    return p;
}
#define malloc(n) h_malloc(n)
#endif

#include "parsec/class/parsec_object.h"
#include "parsec/class/parsec_object.c"

#if defined(VERIF_RACE)
/* PARSEC_OBJ_RETAIN / PARSEC_OBJ_RELEASE expanded below call this wrapper, which calls the real
 * inline parsec_obj_update and logs (thread, value it RETURNED): that value is what the release tests */
static inline int h_update(parsec_object_t *o, int inc) {
    int on_obj = g_fu ? obj_index(o) >= 0 : ((void *)o == g_obj);
    int late = on_obj && !g_fu && g_destroys > 0;
    int r = parsec_obj_update(o, inc);
    if (late) g_late++;
    if (on_obj && log_upd) hlog(EV_UPD, cos_self(), r);
    return r;
}
#define parsec_obj_update(o, inc) h_update((o), (inc))
#endif

/* ---- class hierarchy: k1_t <- k2_t <- ... <- k6_t, each level adds a field ---- */
typedef struct { parsec_object_t super; int f1; } k1_t;
typedef struct { k1_t super; int f2; } k2_t;
typedef struct { k2_t super; int f3; } k3_t;
typedef struct { k3_t super; int f4; } k4_t;
typedef struct { k4_t super; int f5; } k5_t;
typedef struct { k5_t super; int f6; } k6_t;
#define MAXD 6
#define LEVEL(n) \
    static void ctor##n(k##n##_t *o) { o->f##n = 100 + n; hlog(EV_CTOR, n, 0); } \
    static void dtor##n(k##n##_t *o) { (void)o; hlog(EV_DTOR, n, 0); }
LEVEL(1) LEVEL(2) LEVEL(3) LEVEL(4) LEVEL(5) LEVEL(6)
static parsec_construct_t ctors[MAXD] = { (parsec_construct_t)ctor1, (parsec_construct_t)ctor2, (parsec_construct_t)ctor3,
                                          (parsec_construct_t)ctor4, (parsec_construct_t)ctor5, (parsec_construct_t)ctor6 };
static parsec_destruct_t dtors[MAXD] = { (parsec_destruct_t)dtor1, (parsec_destruct_t)dtor2, (parsec_destruct_t)dtor3,
                                         (parsec_destruct_t)dtor4, (parsec_destruct_t)dtor5, (parsec_destruct_t)dtor6 };

#define MAXOPS 256
static int nops[COS_MAX], ops[COS_MAX][MAXOPS];

static void thread_fn(void *arg) {
    int t = (int)(intptr_t)arg;
    for (int i = 0; i < nops[t]; i++) {
        parsec_object_t *o = (parsec_object_t *)g_obj;   /* this thread's copy of the pointer */
        if (ops[t][i]) { PARSEC_OBJ_RETAIN(o); }
        else           { PARSEC_OBJ_RELEASE(o); }
    }
}

/* first use: PARSEC_OBJ_NEW(kfu_t) expands to parsec_obj_new(&kfu_t_class) = parsec_obj_new(g_cls) */
static parsec_class_t *g_cls;
typedef k6_t kfu_t;
#define kfu_t_class (*g_cls)
static void fu_thread(void *arg) {
    int t = (int)(intptr_t)arg;
    parsec_object_t *mine = (parsec_object_t *)PARSEC_OBJ_NEW(kfu_t);
    g_objs[t] = mine;
    for (int i = 0; i < nops[t]; i++) {
        parsec_object_t *o = mine;
        if (ops[t][i]) { PARSEC_OBJ_RETAIN(o); }
        else           { PARSEC_OBJ_RELEASE(o); }
    }
}

static void print_events(int from, int to) {
    for (int i = from; i < to; i++) {
        switch (evs[i].kind) {
        case EV_UPD:  printf(" %d:%d", evs[i].a, evs[i].v); break;
        case EV_CTOR: printf(" c%d", evs[i].a); break;
        case EV_DTOR: printf(" d%d", evs[i].a); break;
        default:      printf(" F");
        }
    }
}

#define NEW_OF(T)    do { obj = (parsec_object_t *)PARSEC_OBJ_NEW(T); } while (0)
#define STATIC_OF(T) do { T s; PARSEC_OBJ_CONSTRUCT(&s, T); PARSEC_OBJ_DESTRUCT(&s); } while (0)

int main(int argc, char **argv) {
    FILE *f = hc_open(argc, argv); char *l;
    static long v[COS_MAX * (MAXOPS + 2) + 8], sched[16384];
    while ((l = hc_next(f))) {
        char *p = l;
        g_fu = !strncmp(l, "fu", 2);
        int k = hc_ints(&p, v, 2 * MAXD + 1);
        int D = k > 0 ? (int)v[0] : 0;
        if (D < 1 || D > MAXD || k < 1 + 2 * D) { printf("<bad case>\n"); continue; }
        parsec_construct_t c[MAXD] = { 0 }; parsec_destruct_t d[MAXD] = { 0 };
        for (int i = 0; i < D; i++) { c[i] = v[1 + 2 * i] ? ctors[i] : NULL; d[i] = v[2 + 2 * i] ? dtors[i] : NULL; }
        k = hc_ints(&p, v, COS_MAX * (MAXOPS + 2) + 8);
        int nt = k > 0 ? (int)v[0] : -1, q = 1, bad = 0; long total = 0; long held[COS_MAX];
        if (nt < 0 || nt > COS_MAX) { printf("<bad case>\n"); continue; }
        for (int t = 0; t < nt && !bad; t++) {
            if (q + (g_fu ? 1 : 2) > k) { bad = 1; break; }
            held[t] = g_fu ? 1 : v[q++]; nops[t] = (int)v[q++]; total += held[t];
            if (nops[t] < 0 || nops[t] > MAXOPS || q + nops[t] > k || held[t] < 0) { bad = 1; break; }
            for (int i = 0; i < nops[t]; i++) ops[t][i] = v[q++] ? 1 : 0;
        }
        int ns = hc_ints(&p, sched, 16384);
        if (bad || total < 1) { printf("<bad case>\n"); continue; }

        /* the classes of this case, written with the repository's macro */
        PARSEC_OBJ_CLASS_INSTANCE(k1_t, parsec_object_t, c[0], d[0]);
        PARSEC_OBJ_CLASS_INSTANCE(k2_t, k1_t, c[1], d[1]);
        PARSEC_OBJ_CLASS_INSTANCE(k3_t, k2_t, c[2], d[2]);
        PARSEC_OBJ_CLASS_INSTANCE(k4_t, k3_t, c[3], d[3]);
        PARSEC_OBJ_CLASS_INSTANCE(k5_t, k4_t, c[4], d[4]);
        PARSEC_OBJ_CLASS_INSTANCE(k6_t, k5_t, c[5], d[5]);
        parsec_class_t *cls[MAXD] = { &k1_t_class, &k2_t_class, &k3_t_class, &k4_t_class, &k5_t_class, &k6_t_class };

        nev = 0; log_upd = 0; g_obj = NULL; g_destroys = 0; g_late = 0;
        memset(g_objs, 0, sizeof(g_objs));
        if (g_fu) {
            if (nt < 1) { printf("<bad case>\n"); continue; }
            g_cls = cls[D - 1]; g_objsize = g_cls->cls_sizeof; log_upd = 1;
#if defined(VERIF_RACE)
            race_reset(); race_share(&class_lock, sizeof(class_lock));
            for (int i = 0; i < D; i++) race_share(cls[i], sizeof(parsec_class_t));
#endif
            cos_reset();
            for (int t = 0; t < nt; t++) cos_spawn(fu_thread, (void *)(intptr_t)t);
            int dl = cos_run(sched, ns, 20000);
            log_upd = 0;
            printf("fu depth=%d inits=%d", g_cls->cls_depth, num_classes);
            for (int t = 0; t < nt; t++) {
                printf(" | t%d:", t);
                for (int i = 0; i < nev; i++) if (evs[i].t == t) switch (evs[i].kind) {
                    case EV_UPD:  printf(" :%d", evs[i].v); break;
                    case EV_CTOR: printf(" c%d", evs[i].a); break;
                    case EV_DTOR: printf(" d%d", evs[i].a); break;
                    default:      printf(" F");
                }
            }
            printf(" | steps:");
            for (int t = 0; t < nt; t++) printf(" %d", cos_steps[t]);
            printf("%s\n", dl ? " <deadlock>" : "");
            for (int t = 0; t < nt; t++) { void *o = g_objs[t]; g_objs[t] = NULL; if (o) (free)(o); }
            g_fu = 0;
            parsec_class_finalize();
            continue;
        }
        parsec_object_t *obj = NULL;
        switch (D) {
        case 1: NEW_OF(k1_t); break; case 2: NEW_OF(k2_t); break; case 3: NEW_OF(k3_t); break;
        case 4: NEW_OF(k4_t); break; case 5: NEW_OF(k5_t); break; default: NEW_OF(k6_t);
        }
        if (!obj) { printf("<out of memory>\n"); continue; }
        g_obj = obj; g_objsize = cls[D - 1]->cls_sizeof;
        printf("depth=%d | ctor:", cls[D - 1]->cls_depth);
        for (int i = 0; i < nev; i++) printf(" %d", evs[i].a);
        int ev0 = nev;
        /* the creator holds one reference and takes one more for each further reference it hands out */
        for (long i = 1; i < total; i++) { PARSEC_OBJ_RETAIN(obj); }

        log_upd = 1;
#if defined(VERIF_RACE)
        race_reset(); race_share((const void *)&obj->obj_reference_count, sizeof(obj->obj_reference_count));
#endif
        cos_reset();
        for (int t = 0; t < nt; t++) cos_spawn(thread_fn, (void *)(intptr_t)t);
        int dl = cos_run(sched, ns, 100000);
        log_upd = 0;
        printf(" | ev:"); print_events(ev0, nev);
        printf(" | destroys=%d late=%d rc=%d | steps:", g_destroys, g_late, (int)obj->obj_reference_count);
        for (int t = 0; t < nt; t++) printf(" %d", cos_steps[t]);
        g_obj = NULL;
        (free)(obj);                               /* end of quarantine (or of a leaked object) */

        /* PARSEC_OBJ_CONSTRUCT / PARSEC_OBJ_DESTRUCT on a stack object of the same class */
        int ev1 = nev;
        switch (D) {
        case 1: STATIC_OF(k1_t); break; case 2: STATIC_OF(k2_t); break; case 3: STATIC_OF(k3_t); break;
        case 4: STATIC_OF(k4_t); break; case 5: STATIC_OF(k5_t); break; default: STATIC_OF(k6_t);
        }
        printf(" | static:"); print_events(ev1, nev);
        printf("%s\n", dl ? " <deadlock>" : "");
        parsec_class_finalize();                   /* releases the arrays of this case's classes */
    }
    return 0;
}
