/* C35 harness: drives the real parsec/hbbuffer.c and parsec/maxheap.c (both
 * included, so that the code compiled here is the working tree's).
 *
 * case "B s0 s1 .. | op | op .."   chain of hbbuffers of sizes s0 (level 0) .. ;
 *        level k's parent_push_fct is the schedulers' wrapper around
 *        parsec_hbbuffer_push_all on level k+1; the last level's parent is a
 *        recorder (the "system queue").
 *        ops:  a d p1 p2 ..   parsec_hbbuffer_push_all(level0, ring(p1 p2 ..), d)
 *              p d p1 p2 ..   parsec_hbbuffer_push_all_by_priority(level0, ring, d)
 *              o k            parsec_hbbuffer_pop_best(level k, task priority offset)
 *        Tasks get ids 0,1,2.. in order of appearance.
 *        per op:  r=<id:prio|-> q=(id,id@dist).. b=<slot,slot/..> e=<is_empty bits> n=<occupancy,..>
 * case "H | op | op .."            table of heap pointers
 *        ops:  c        tab[n++] = heap_create()
 *              i k p    heap_insert(tab[k], new task of priority p)  (tab[k]==NULL: re-created first)
 *              r k      heap_remove(&tab[k])
 *              s k      heap_split_and_steal(&tab[k], &tab[n++])
 *        per op:  r=<id:prio|-> then the touched table entries  k=<size>,<priority>,<preorder tree>
 *        at the end: END and the whole table.
 * One output line per case; the cases run in a forked child (a crash or a
 * hang of the code under test is an observation: "<crash ..>").               */
#include "parsec/hbbuffer.c"
#include "parsec/maxheap.c"
#include "parsec/class/dequeue.h"
#include "parsec/mca/sched/sched_local_queues_utils.h"
#include "hcommon.h"
#include <unistd.h>
#include <signal.h>
#include <sys/wait.h>

#define MAXT 4096
#define MAXL 8
#define MAXH 512
#define CASE_SECONDS 3   /* a case takes well under a millisecond */
#define MAXCRASH 40
static parsec_task_t *pool[MAXT];
static int npool;
static FILE *out;

static parsec_task_t *new_task(long prio) {
    parsec_task_t *t = calloc(1, sizeof(parsec_task_t));
    t->priority = (int32_t)prio;
    PARSEC_LIST_ITEM_SINGLETON(t);
    if (npool < MAXT) pool[npool++] = t;
    return t;
}
static int id_of(const void *p) {
    for (int i = 0; i < npool; i++) if ((const void *)pool[i] == p) return i;
    return -1;
}
static void pr_task(const void *p) {
    int id = id_of(p);
    if (id < 0) fprintf(out, "?"); else fprintf(out, "%d:%d", id, (int)pool[id]->priority);
}

#if !defined(PARSEC_HAVE_HWLOC)
static void parsec_mca_sched_push_in_buffer_wrapper(void *store, parsec_list_item_t *elt, int32_t distance)
{ parsec_hbbuffer_push_all((parsec_hbbuffer_t *)store, elt, distance); }
#endif

/* the top-most parent store: records every call */
static int rec_store;
static void recorder(void *store, parsec_list_item_t *elt, int32_t distance) {
    (void)store;
    fprintf(out, "(");
    if (NULL != elt) {
        parsec_list_item_t *it = elt; int n = 0;
        do {
            if (n) fprintf(out, ",");
            int id = id_of(it);
            if (id < 0) { fprintf(out, "?"); break; }
            fprintf(out, "%d", id);
            it = (parsec_list_item_t *)it->list_next;
        } while (it != elt && ++n < MAXT);
    }
    fprintf(out, "@%d)", (int)distance);
}

static parsec_list_item_t *make_ring(long *prios, int n) {
    parsec_list_item_t *ring = NULL;
    for (int i = 0; i < n; i++) {
        parsec_list_item_t *t = (parsec_list_item_t *)new_task(prios[i]);
        if (NULL == ring) ring = t; else parsec_list_item_ring_push(ring, t);
    }
    return ring;
}

static void run_buffers(char *p) {
    long v[256]; parsec_hbbuffer_t *lv[MAXL]; int nl;
    nl = hc_ints(&p, v, MAXL);
    if (nl < 1) { fprintf(out, "<bad case>"); return; }
    for (int k = nl - 1; k >= 0; k--) {
        if (v[k] < 1 || v[k] > 4096) { fprintf(out, "<bad case>"); return; }
        lv[k] = (k == nl - 1)
            ? parsec_hbbuffer_new((size_t)v[k], (size_t)v[k], recorder, &rec_store)
            : parsec_hbbuffer_new((size_t)v[k], (size_t)v[k], parsec_mca_sched_push_in_buffer_wrapper, lv[k + 1]);
    }
    int first = 1;
    while (*p) {
        while (*p == ' ') p++;
        char op = *p; if (!op) break; p++;
        int k = hc_ints(&p, v, 256);
        if (!first) fprintf(out, " ; "); first = 0;
        parsec_list_item_t *ret = NULL;
        if (op == 'o' && k == 1 && v[0] >= 0 && v[0] < nl) {
            ret = parsec_hbbuffer_pop_best(lv[v[0]], parsec_execution_context_priority_comparator);
            fprintf(out, "r="); if (ret) pr_task(ret); else fprintf(out, "-");
            fprintf(out, " q=");
        } else if ((op == 'a' || op == 'p') && k >= 1) {
            parsec_list_item_t *ring = make_ring(v + 1, k - 1);
            fprintf(out, "r=- q=");
            if (op == 'a') parsec_hbbuffer_push_all(lv[0], ring, (int32_t)v[0]);
            else if (NULL != ring) parsec_hbbuffer_push_all_by_priority(lv[0], ring, (int32_t)v[0]);
        } else { fprintf(out, "<bad op>"); continue; }
        fprintf(out, " b=");
        for (int l = 0; l < nl; l++) {
            if (l) fprintf(out, "/");
            for (size_t i = 0; i < lv[l]->size; i++) {
                if (i) fprintf(out, ",");
                if (lv[l]->items[i]) pr_task((void *)lv[l]->items[i]); else fprintf(out, "_");
            }
        }
        fprintf(out, " e=");
        for (int l = 0; l < nl; l++) fprintf(out, "%d", parsec_hbbuffer_is_empty(lv[l]));
        fprintf(out, " n=");
        for (int l = 0; l < nl; l++) fprintf(out, "%s%lld", l ? "," : "", parsec_hbbuffer_approx_occupency(lv[l]));
    }
}

static int budget;
static void pr_tree(parsec_task_t *t) {
    if (NULL == t) { fprintf(out, "."); return; }
    if (--budget < 0) { fprintf(out, "<cycle>"); return; }
    fprintf(out, "("); pr_task(t);
    pr_tree((parsec_task_t *)t->super.list_prev);
    pr_tree((parsec_task_t *)t->super.list_next);
    fprintf(out, ")");
}
static void pr_heap(int k, parsec_heap_t *h) {
    fprintf(out, " %d=", k);
    if (NULL == h) { fprintf(out, "#"); return; }
    fprintf(out, "%u,%d,", h->size, (int)h->priority);
    budget = MAXT; pr_tree(h->top);
}

static void run_heaps(char *p) {
    static parsec_heap_t *tab[MAXH]; int n = 0; long v[8];
    hc_ints(&p, v, 8);
    int first = 1;
    while (*p) {
        while (*p == ' ') p++;
        char op = *p; if (!op) break; p++;
        int k = hc_ints(&p, v, 8);
        if (!first) fprintf(out, " ; "); first = 0;
        if (op == 'c' && n < MAXH) {
            tab[n] = heap_create();
            fprintf(out, "r=-"); pr_heap(n, tab[n]); n++;
        } else if (op == 'i' && k == 2) {
            fprintf(out, "r=-");
            parsec_task_t *t = new_task(v[1]);
            if (v[0] >= 0 && v[0] < n) {
                if (NULL == tab[v[0]]) tab[v[0]] = heap_create();
                heap_insert(tab[v[0]], t);
                pr_heap(v[0], tab[v[0]]);
            }
        } else if (op == 'r' && k == 1) {
            parsec_task_t *t = NULL;
            /* heap_remove asserts heap->top != NULL: an empty heap object is not a legal argument */
            if (v[0] >= 0 && v[0] < n && !(tab[v[0]] && NULL == tab[v[0]]->top)) t = heap_remove(&tab[v[0]]);
            fprintf(out, "r="); if (t) pr_task(t); else fprintf(out, "-");
            if (v[0] >= 0 && v[0] < n) pr_heap(v[0], tab[v[0]]);
        } else if (op == 's' && k == 1 && n < MAXH) {
            parsec_task_t *t = NULL; int did = 0;
            if (v[0] >= 0 && v[0] < n) {
                did = 1; tab[n] = NULL;
                if (!(tab[v[0]] && NULL == tab[v[0]]->top)) t = heap_split_and_steal(&tab[v[0]], &tab[n]);
            }
            fprintf(out, "r="); if (t) pr_task(t); else fprintf(out, "-");
            if (did) { pr_heap(v[0], tab[v[0]]); pr_heap(n, tab[n]); n++; }
        } else fprintf(out, "<bad op>");
    }
    fprintf(out, " ; END");
    for (int k = 0; k < n; k++) pr_heap(k, tab[k]);
}

/* All cases run in one forked child, which reports its progress in shared
 * memory; when it dies (signal, alarm) the parent prints the crash record of
 * the case it was running and forks a new child for the remaining cases. */
#include <sys/mman.h>
int main(int argc, char **argv) {
    FILE *f = hc_open(argc, argv); char *l;
    char **cases = NULL; long ncases = 0, cap = 0;
    while ((l = hc_next(f))) {
        if (ncases == cap) { cap = cap ? 2 * cap : 1024; cases = realloc(cases, cap * sizeof(char *)); }
        cases[ncases++] = strdup(l);
    }
    volatile long *done = mmap(NULL, sizeof(long), PROT_READ | PROT_WRITE, MAP_SHARED | MAP_ANONYMOUS, -1, 0);
    if (done == MAP_FAILED) { perror("mmap"); return 2; }
    long start = 0; int crashes = 0;
    while (start < ncases) {
        if (crashes >= MAXCRASH) {      /* the code under test is badly broken: do not spend the timeouts */
            for (long j = start; j < ncases; j++) printf("<skipped after %d crashes>\n", crashes);
            break;
        }
        *done = start;
        fflush(stdout);
        pid_t pid = fork();
        if (0 == pid) {
            for (long j = start; j < ncases; j++) {
                char *buf = NULL; size_t len = 0;
                hc_alarm(CASE_SECONDS);
                npool = 0;
                out = open_memstream(&buf, &len);
                l = cases[j];
                if (l[0] == 'B' && l[1] == ' ') run_buffers(l + 2);
                else if (l[0] == 'H' && l[1] == ' ') run_heaps(l + 2);
                else fprintf(out, "<bad case>");
                fclose(out);
                fwrite(buf, 1, len, stdout); fputc('\n', stdout); fflush(stdout);
                free(buf);
                *done = j + 1;
            }
            _exit(0);
        }
        int st = 0;
        if (pid < 0 || waitpid(pid, &st, 0) < 0) { printf("<fork failed>\n"); return 2; }
        if (WIFEXITED(st) && WEXITSTATUS(st) == 0 && *done == ncases) break;
        if (WIFSIGNALED(st)) printf("<crash signal=%d>\n", WTERMSIG(st));
        else printf("<crash exit=%d>\n", WIFEXITED(st) ? WEXITSTATUS(st) : -1);
        crashes++;
        start = *done + 1;
    }
    return 0;
}
