/* C42 harness: writes a binary profile with the real writer of
 * parsec/profiling.c (from libparsec of a -DPARSEC_PROF_TRACE=ON build of the
 * working tree) and reads it back with the real reader tools/profiling/dbpreader.c
 * (included here, so the code compiled is the working tree's).
 *
 * case  "pages mode nstreams | nlen:alen:clen:ilen .. | ninfo_0 ninfo_1 .. | sid key uflags tpid eid info ; .."
 *    pages     profile_buffer_pages MCA parameter (buffer = pages * page size)
 *    mode      0: one thread issues every trace call in the order of the case
 *              1: one pthread per stream, each issues its own events (concurrently)
 *    dictionary entry j (base key j+1; base key 0 is the reserved "N/A"):
 *              name/attributes/convertor are gstr('k'|'a'|'c', j, len), info length ilen
 *              an optional fifth field ":b" makes the three strings derive from index b instead of j (entries of
 *              several ranks, or two entries of one rank, then share them); names longer than 63 characters
 *              depend on j from the 64th character on (kname)
 *    ninfo_i   number of key/value infos attached to stream i (hr_id "s<i>"); a number above 15: one
 *              info "big" whose value has that many characters
 *    event     stream, key (2*base + 0 start / 1 end), user flags, taskpool id,
 *              event id, info: '-' (NULL pointer) or a seed (info byte m = ibyte(seed, m))
 * case  "M <order> || <case of rank 0> || <case of rank 1> .."  several ranks, files opened together (multi_case)
 * Every case writes <casefile>.d/c<index>-0.prof (kept for the model driver,
 * which runs the extracted decoder on the same bytes and deletes it).
 *
 * observation (everything below comes from the reader API of dbpreader.h):
 *   err=<last_error> D name/attr/conv/ilen .. | <hr_id> n=<nb_events> I k=v,.. : key.flags.tpid.eid.infolen.infohash .. | .. | mono=<0|1> rc=<first nonzero writer rc or 0> enc=ok
 * "enc=ok" is a constant: the model driver prints it when the modelled writer
 * reproduces the events buffers of the file byte for byte.
 * Each case runs in a forked child: a crash of the code under test is an observation. */
#include "parsec/parsec_config.h"
#include "parsec/profiling.h"
#include "tools/profiling/dbpreader.c"
#include "hcommon.h"
#include <sys/stat.h>
#include <sys/wait.h>
#include <signal.h>
#include <dirent.h>

#define MAXK 120
#define MAXS 8
#define MAXE 8192
#define CASE_SECONDS 20

typedef struct { int sid, key, uflags, hasinfo, seed; uint32_t tp; uint64_t id; } ev_t;
static int nk, klen[MAXK][5];      /* name, attributes, convertor, info lengths; index the strings derive from */
static int ns, ninfo[MAXS];
static ev_t evs[MAXE]; static int nev;
static int skey[MAXK], ekey[MAXK];
static parsec_profiling_stream_t *str[MAXS];
static int first_rc;

static void gstr(char *out, char tag, int j, int len) {
    char pre[32]; int pl = snprintf(pre, sizeof pre, "%c%d_", tag, j);
    for (int m = 0; m < len; m++) out[m] = (m < pl) ? pre[m] : (char)('a' + ((j * 7 + m * 3) % 26));
    out[len] = 0;
}
/* name of dictionary entry j: derived from index b (several entries, or entries of several ranks, may share b);
 * from the 64th character on it depends on j, so that entries sharing b differ only beyond what the file stores */
static void kname(char *out, int j, int b, int len) {
    gstr(out, 'k', b, len);
    for (int m = 63; m < len; m++) out[m] = (char)('A' + ((j + m) % 26));
}
static unsigned char ibyte(int seed, int m) { return (unsigned char)((seed * 31 + m * 7 + (m >> 8) * 13 + 1) & 0xff); }
static uint32_t fnv(const unsigned char *p, int n) {
    uint32_t h = 2166136261u; for (int i = 0; i < n; i++) { h ^= p[i]; h *= 16777619u; } return h;
}

static void note_rc(int rc) { if (rc != 0 && first_rc == 0) first_rc = rc; }

static void emit(const ev_t *e) {
    static __thread unsigned char buf[1 << 16];
    void *info = NULL;
    if (e->hasinfo) {
        int b = BASE_KEY(e->key), il = (b >= 1 && b <= nk) ? klen[b - 1][3] : 0;
        for (int m = 0; m < il; m++) buf[m] = ibyte(e->seed, m);
        info = buf;
    }
    note_rc(parsec_profiling_trace_flags(str[e->sid], e->key, e->id, e->tp, info, (uint16_t)e->uflags));
}
static void *thr_main(void *a) {
    int sid = (int)(intptr_t)a;
    for (int i = 0; i < nev; i++) if (evs[i].sid == sid) emit(&evs[i]);
    return NULL;
}

static int parse_case(char *l, int *pages, int *mode) {
    char *sec[4]; int k = 0; sec[k++] = l;
    for (char *p = l; *p && k < 4; p++) if (*p == '|') { *p = 0; sec[k++] = p + 1; }
    if (k != 4) return -1;
    if (sscanf(sec[0], "%d %d %d", pages, mode, &ns) != 3 || ns < 1 || ns > MAXS) return -1;
    nk = 0;
    for (char *t = strtok(sec[1], " "); t; t = strtok(NULL, " ")) {
        if (nk >= MAXK) return -1;
        klen[nk][4] = nk;
        if (sscanf(t, "%d:%d:%d:%d:%d", &klen[nk][0], &klen[nk][1], &klen[nk][2], &klen[nk][3], &klen[nk][4]) < 4) return -1;
        nk++;
    }
    int i = 0;
    for (char *t = strtok(sec[2], " "); t; t = strtok(NULL, " ")) { if (i < MAXS) ninfo[i++] = atoi(t); }
    for (; i < MAXS; i++) ninfo[i] = 0;
    nev = 0;
    char *save = NULL;
    for (char *t = strtok_r(sec[3], ";", &save); t; t = strtok_r(NULL, ";", &save)) {
        char inf[32]; ev_t *e = &evs[nev]; unsigned long long id; unsigned long tp;
        if (nev >= MAXE) return -1;
        int r = sscanf(t, "%d %d %d %lu %llu %31s", &e->sid, &e->key, &e->uflags, &tp, &id, inf);
        if (r == EOF || r == 0) continue;
        if (r != 6 || e->sid < 0 || e->sid >= ns) return -1;
        e->tp = (uint32_t)tp; e->id = id;
        e->hasinfo = strcmp(inf, "-") != 0; e->seed = e->hasinfo ? atoi(inf) : 0;
        nev++;
    }
    return 0;
}

static void write_profile(const char *base, int pages, int mode, int rank) {
    char v[32]; snprintf(v, sizeof v, "%d", pages);
    setenv("PARSEC_MCA_profile_buffer_pages", v, 1);
    first_rc = 0;
    note_rc(parsec_profiling_init(rank));
    note_rc(parsec_profiling_dbp_start(base, "C42 harness"));
    for (int j = 0; j < nk; j++) {
        char name[512], attr[512], conv[4096];
        kname(name, j, klen[j][4], klen[j][0]); gstr(attr, 'a', klen[j][4], klen[j][1]); gstr(conv, 'c', klen[j][4], klen[j][2]);
        note_rc(parsec_profiling_add_dictionary_keyword(name, attr, (size_t)klen[j][3],
                                                        klen[j][2] < 0 ? NULL : conv, &skey[j], &ekey[j]));
    }
    for (int i = 0; i < ns; i++) {
        str[i] = parsec_profiling_stream_init(4096, "s%d", i);
        if (!str[i]) { note_rc(-99); continue; }
        if (ninfo[i] > 15) {            /* one info whose value has ninfo[i] characters */
            char *val = malloc((size_t)ninfo[i] + 1); memset(val, 'v', (size_t)ninfo[i]); val[ninfo[i]] = 0;
            parsec_profiling_stream_add_information(str[i], "big", val); free(val);
        } else
        for (int m = 0; m < ninfo[i]; m++) {
            char k[64], val[256]; gstr(k, 'i', i * 16 + m, 4 + (i + m) % 9); gstr(val, 'v', i * 16 + m, 3 + (i * 5 + m * 11) % 40);
            parsec_profiling_stream_add_information(str[i], k, val);
        }
    }
    parsec_profiling_start();
    if (mode == 0) {
        for (int i = 0; i < nev; i++) if (str[evs[i].sid]) emit(&evs[i]);
    } else {
        pthread_t th[MAXS];
        for (int i = 0; i < ns; i++) pthread_create(&th[i], NULL, thr_main, (void *)(intptr_t)i);
        for (int i = 0; i < ns; i++) pthread_join(th[i], NULL);
    }
    note_rc(parsec_profiling_dbp_dump());
    note_rc(parsec_profiling_fini());
}

/* everything the reader API tells about file number fidx of an opened set */
static void read_one(dbp_multifile_reader_t *dbp, int fidx, int err, int rc, FILE *out) {
    int mono = 1;
    fprintf(out, "err=%d", err);
    if (dbp_reader_nb_files(dbp) <= fidx || err != 0) { fprintf(out, " <unreadable>"); goto end; }
    dbp_file_t *file = dbp_reader_get_file(dbp, fidx);
    fprintf(out, " D");
    for (int i = 0; i < dbp_file_nb_dictionary_entries(file); i++) {
        dbp_dictionary_t *d = dbp_file_get_dictionary(file, i);
        fprintf(out, " %.70s/%.130s/%s/%d", dbp_dictionary_name(d), dbp_dictionary_attributes(d),
                dbp_dictionary_convertor(d), dbp_dictionary_keylen(d));
    }
    for (int t = 0; t < dbp_file_nb_threads(file); t++) {
        dbp_thread_t *th = dbp_file_get_thread(file, t);
        fprintf(out, " | %.130s n=%d I", dbp_thread_get_hr_id(th), dbp_thread_nb_events(th));
        for (int i = 0; i < dbp_thread_nb_infos(th); i++) {
            dbp_info_t *nf = dbp_thread_get_info(th, i);
            fprintf(out, "%s%s=%s", i ? "," : " ", dbp_info_get_key(nf), dbp_info_get_value(nf));
        }
        fprintf(out, " :");
        dbp_event_iterator_t *it = dbp_iterator_new_from_thread(th);
        const dbp_event_t *e = dbp_iterator_current(it);
        uint64_t last = 0; long cnt = 0;
        while (e != NULL && cnt < 4 * MAXE) {
            int il = dbp_event_info_len(e, file);
            void *inf = dbp_event_get_info(e);
            fprintf(out, " %d.%d.%u.%llu.%d.%08x", dbp_event_get_key(e), dbp_event_get_flags(e),
                    (unsigned)dbp_event_get_taskpool_id(e), (unsigned long long)dbp_event_get_event_id(e),
                    inf ? il : -1, inf ? fnv((unsigned char *)inf, il) : 0u);
            if (dbp_event_get_timestamp(e) < last) mono = 0;
            last = dbp_event_get_timestamp(e);
            e = dbp_iterator_next(it); cnt++;
        }
        dbp_iterator_delete(it);
    }
end:
    fprintf(out, " | mono=%d rc=%d enc=ok", mono, rc);
}

static void read_profile(char *fname, FILE *out) {
    char *files[1] = { fname };
    dbp_multifile_reader_t *dbp = dbp_reader_open_files(1, files);
    read_one(dbp, 0, dbp_reader_last_error(dbp), first_rc, out);
    fprintf(out, "\n");
}

/* "M <order> || case of rank 0 || case of rank 1 [|| case of rank 2]": every rank writes its own file
 * <base>-<rank>.prof (own dictionary, streams, events); the files are then opened together in the given order
 * (a string of rank digits) and each is read back through the reader's merged dictionary.
 * observation: "M || <observation of the first file opened> || <of the second> .." */
#define MAXR 3
static void multi_case(char *l, const char *base, FILE *out) {
    char *sub[MAXR + 1]; int nsub = 0; char order[16] = "";
    for (char *p = l; p && nsub <= MAXR; ) {
        char *q = strstr(p, "||");
        if (q) { *q = 0; q += 2; }
        sub[nsub++] = p; p = q;
    }
    int nr = nsub - 1, rcs[MAXR];
    if (nr < 1 || nr > MAXR || sscanf(sub[0], "M %15s", order) != 1) { fprintf(out, "<bad case>\n"); return; }
    for (int r = 0; r < nr; r++) {
        int pages, mode;
        if (parse_case(sub[r + 1], &pages, &mode) != 0) { fprintf(out, "<bad case>\n"); return; }
        /* one process per rank, as in a real run (the writer's file backend state is per process) */
        fflush(out);
        pid_t pid = fork();
        if (pid == 0) { write_profile(base, pages, mode, r); _exit((-first_rc) & 0x7f); }
        int st = 0; waitpid(pid, &st, 0);
        if (!WIFEXITED(st)) { fprintf(out, "<rank %d: writer killed by signal %d>\n", r, WTERMSIG(st)); return; }
        rcs[r] = -WEXITSTATUS(st);
    }
    char names[MAXR][4400]; char *files[MAXR]; int ranks[MAXR], nf = 0;
    for (char *o = order; *o && nf < MAXR; o++) {
        int r = *o - '0'; if (r < 0 || r >= nr) continue;
        snprintf(names[nf], sizeof names[nf], "%s-%d.prof", base, r); files[nf] = names[nf]; ranks[nf] = r; nf++;
    }
    dbp_multifile_reader_t *dbp = dbp_reader_open_files(nf, files);
    fprintf(out, "M");
    for (int f = 0; f < nf; f++) {
        fprintf(out, " || ");
        int err = (f < dbp_reader_nb_files(dbp)) ? dbp_file_error(dbp_reader_get_file(dbp, f)) : -1;
        read_one(dbp, f, err, rcs[ranks[f]], out);
    }
    fprintf(out, "\n");
}

int main(int argc, char **argv) {
    FILE *f = hc_open(argc, argv); char *l; int idx = 0;
    char dir[4096]; snprintf(dir, sizeof dir, "%s.d", argv[1]);
    mkdir(dir, 0700);
    { DIR *d = opendir(dir); struct dirent *de; char p[8192];
      while (d && (de = readdir(d))) if (de->d_name[0] == 'c') { snprintf(p, sizeof p, "%s/%s", dir, de->d_name); unlink(p); }
      if (d) closedir(d); }
    while ((l = hc_next(f))) {
        int pages, mode;
        char base[4200], fname[4300];
        snprintf(base, sizeof base, "%s/c%d", dir, idx); snprintf(fname, sizeof fname, "%s-0.prof", base); idx++;
        int multi = (l[0] == 'M');
        if (!multi && parse_case(l, &pages, &mode) != 0) { printf("<bad case>\n"); fflush(stdout); continue; }
        fflush(stdout);
        int pfd[2]; if (pipe(pfd) != 0) { printf("<pipe failed>\n"); continue; }
        pid_t pid = fork();
        if (pid == 0) {
            close(pfd[0]); hc_alarm(CASE_SECONDS);
            FILE *out = fdopen(pfd[1], "w");
            int e2 = dup(2); freopen("/dev/null", "w", stderr);   /* the writer and the reader chat on stderr */
            if (multi) multi_case(l, base, out);
            else { write_profile(base, pages, mode, 0); read_profile(fname, out); }
            fflush(out); (void)e2; _exit(0);
        }
        close(pfd[1]);
        static char obuf[1 << 22]; size_t n = 0; ssize_t r;
        while ((r = read(pfd[0], obuf + n, sizeof obuf - 1 - n)) > 0) n += (size_t)r;
        close(pfd[0]); obuf[n] = 0;
        int st = 0; waitpid(pid, &st, 0);
        if (WIFSIGNALED(st)) printf("<crash signal %d>%s\n", WTERMSIG(st), "");
        else if (n == 0 || obuf[n - 1] != '\n') printf("<no observation, exit %d>\n", WEXITSTATUS(st));
        else fputs(obuf, stdout);
        fflush(stdout);
    }
    return 0;
}
