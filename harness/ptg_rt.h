/* ptg_rt.h — runtime support of the generated PTG test programs (tools/jdfgen.py).
 *
 * A generated JDF #includes this header in its prologue; its BODYs are
 *
 *     PTG_BODY_BEGIN(this_task);           logs the invocation (class, locals), takes the begin stamp,
 *                                          may `return PARSEC_HOOK_RETURN_AGAIN` (seeded, see --again)
 *     PTG_READ(this_task, i, F);           flow number i (position in the class) is read through pointer F
 *     PTG_WRITE(this_task, i, F);          flow number i is written through pointer F
 *     PTG_BODY_END(this_task);             takes the end stamp
 *
 * and its epilogue defines ptg_case_new()/ptg_case_free() with the values of the
 * globals baked in.  The functions are implemented by harness/ptg_driver.c.
 * Stamps come from one global atomic counter, so begin/end stamps of all
 * invocations are totally ordered consistently with real time.
 */
#ifndef VERIF_PTG_RT_H
#define VERIF_PTG_RT_H
#include <stdint.h>
#include "parsec.h"
#include "parsec/parsec_internal.h"
#include "parsec/data_distribution.h"
#include "parsec/arena.h"

#define PTG_RT_MAXFLOWS 8
#define PTG_RT_ELT_BYTES 64          /* size of one datum of the collection / of a NEW tile */

/* returns 1 when the body must return PARSEC_HOOK_RETURN_AGAIN now */
int  ptg_rt_begin(parsec_task_t *t);
void ptg_rt_end(parsec_task_t *t);
void ptg_rt_read(parsec_task_t *t, int flow, const void *ptr);
void ptg_rt_write(parsec_task_t *t, int flow, void *ptr);

#define PTG_BODY_BEGIN(T) do { if (ptg_rt_begin((parsec_task_t *)(T))) return PARSEC_HOOK_RETURN_AGAIN; } while (0)
#define PTG_BODY_END(T)   ptg_rt_end((parsec_task_t *)(T))
#define PTG_READ(T, I, P)  ptg_rt_read((parsec_task_t *)(T), (I), (const void *)(P))
#define PTG_WRITE(T, I, P) ptg_rt_write((parsec_task_t *)(T), (I), (void *)(P))

/* C16: order in which the generated startup functions create the startup tasks.  Compiling the generated
 * file with -DPTG_RT_TRACE_STARTUP wraps the runtime call every created startup task goes through
 * (after its prototype has been seen in parsec_internal.h; a macro is not expanded inside itself). */
void ptg_rt_startup_mark(parsec_task_t *t);
#if defined(PTG_RT_TRACE_STARTUP)
#define parsec_dependencies_mark_task_as_startup(T, ES) \
    (ptg_rt_startup_mark((parsec_task_t *)(T)), parsec_dependencies_mark_task_as_startup((parsec_task_t *)(T), (ES)))
#endif

/* MPI datatype of one element (PTG_RT_ELT_BYTES contiguous bytes), created once by the driver */
parsec_datatype_t ptg_rt_elt_type(void);

/* provided by the generated program (epilogue of the JDF) */
parsec_taskpool_t *ptg_case_new(parsec_data_collection_t *D);
void               ptg_case_free(parsec_taskpool_t *tp);
extern const int   ptg_case_ndata;   /* number of elements the collection must have */

#endif
