/* C30 harness (T-sched): the real lock-free LIFO (parsec/class/lifo.h, 128-bit CAS
 * branch, and parsec_lifo.c) driven by the schedule of the case.  parsec_lifo.c is
 * included after interpose.h, so the code of push / chain / pop / try_pop is compiled
 * here from the repository's current text with a yield before and after every
 * parsec_atomic_cas_ptr / parsec_atomic_cas_int128 and one at parsec_atomic_rmb, which in
 * pop / try_pop separates the plain read of the counter from the plain read of the item
 * pointer.
 *
 * Every model thread is a coroutine running a list of operations on the one LIFO and
 * holds a private bag of items: pops add to its front, push j takes the j-th held item
 * (the most recent one when there is no j-th), chain n takes the first n.
 *
 * case: CH NT NI s0.. | K own1..ownK NOPS op1.. | (NT thread fields) | sched..
 *       CH=1: initial contents by one parsec_lifo_nolock_chain, 0: by nolock_push (bottom first)
 *       op codes: 1 pop, 2 try_pop, 3 is_empty, 100+j push, 200+n chain
 * out : hist: i<t>:<op> r<t>:<res> ... | stack: ids (drained with nolock_pop) | cnt=C |
 *       own: .. ; .. | steps: ..                                                        */
#if defined(VERIF_RACE)
/* race-exploration build (clang -fsanitize=thread + tsanrt.c): every plain or atomic access to the
 * LIFO head and to the items yields; no macro interposition */
#include "parsec/parsec_config.h"
extern void race_share(const void *p, unsigned long len); extern void race_reset(void);
#else
#include "interpose.h"
/* finer than interpose.h: a CAS is a step of its own (yield before and after), so the plain
 * accesses that precede and follow it belong to different steps */
static inline int cos_after(int r) { cos_yield(); return r; }
#undef parsec_atomic_cas_ptr
#undef parsec_atomic_cas_int128
#define parsec_atomic_cas_ptr(l,o,n)    (cos_yield(), cos_after(parsec_atomic_cas_ptr(l,o,n)))
#define parsec_atomic_cas_int128(l,o,n) (cos_yield(), cos_after(parsec_atomic_cas_int128(l,o,n)))
#define parsec_atomic_rmb()             (cos_yield(), parsec_atomic_rmb())
#endif
#include "cosched.h"
#include "parsec/class/parsec_lifo.c"
#include "hcommon.h"
#include <unistd.h>
#include <sys/wait.h>

#define MAXI 64
#define MAXOPS 64
static parsec_lifo_t lifo;
static parsec_list_item_t items[MAXI] __attribute__((aligned(16)));
typedef struct { int nops; long ops[MAXOPS]; int nown; int own[MAXI + 1]; } thr_t;
static thr_t T_[COS_MAX];
static char out[1 << 16]; static int outn;
/* the text is formatted first (argument evaluation may yield in the race build), then appended in one go */
#define OUT(...) do { char b_[160]; int n_ = snprintf(b_, sizeof b_, __VA_ARGS__); if (n_ > 150) n_ = 150; \
                      if (outn + n_ < (int)sizeof(out) - 8) { memcpy(out + outn, b_, (size_t)n_); outn += n_; out[outn] = 0; } } while (0)

static int id_of(parsec_list_item_t *p) {
    if (p < items || p >= items + MAXI || ((char *)p - (char *)items) % sizeof(items[0])) return -1;
    return (int)(p - items);
}
static void own_front(thr_t *T, int k) {
    if (T->nown >= MAXI) return;
    memmove(T->own + 1, T->own, T->nown * sizeof(int)); T->own[0] = k; T->nown++;
}
static int own_take(thr_t *T, int j) {
    int k = T->own[j];
    memmove(T->own + j, T->own + j + 1, (T->nown - j - 1) * sizeof(int)); T->nown--;
    return k;
}
static parsec_list_item_t *make_ring(const int *xs, int m) {
    parsec_list_item_t *ring = parsec_list_item_singleton(&items[xs[0]]);
    for (int i = 1; i < m; i++) parsec_list_item_ring_push(ring, &items[xs[i]]);
    return ring;
}

static void worker(void *arg) {
    int t = (int)(intptr_t)arg; thr_t *T = &T_[t];
    for (int i = 0; i < T->nops; i++) {
        long o = T->ops[i];
        if (i > 0) cos_yield();                     /* operation boundaries are step boundaries */
        OUT(" i%d:%ld", t, o);
        if (o == 1 || o == 2) {
            parsec_list_item_t *p = (o == 1) ? parsec_lifo_pop(&lifo) : parsec_lifo_try_pop(&lifo);
            if (p) { int k = id_of(p); if (k >= 0) own_front(T, k); OUT(" r%d:%d", t, k); }
            else OUT(" r%d:N", t);
        } else if (o == 3) {
            int e = parsec_lifo_is_empty(&lifo) ? 1 : 0;   /* evaluated before OUT: the call may yield in the race build */
            OUT(" r%d:e%d", t, e);
        } else if (o >= 200) {
            int n = (int)(o - 200), m = n < T->nown ? n : T->nown, xs[MAXI];
            if (m == 0) { OUT(" r%d:p", t); continue; }
            for (int q = 0; q < m; q++) xs[q] = own_take(T, 0);
            parsec_lifo_chain(&lifo, make_ring(xs, m));
            OUT(" r%d:p", t); for (int q = 0; q < m; q++) OUT("%s%d", q ? "." : "", xs[q]);
        } else {
            int j = (int)(o - 100);
            if (T->nown == 0) { OUT(" r%d:p", t); continue; }
            int k = own_take(T, (j >= 0 && j < T->nown) ? j : 0);
            parsec_lifo_push(&lifo, &items[k]);
            OUT(" r%d:p%d", t, k);
        }
    }
}

static void run_case(char *l) {
    static long v[4096], sched[8192];
    char *p = l; outn = 0; out[0] = 0;
    int k = hc_ints(&p, v, 4096);
    if (k < 3) { printf("<bad case>\n"); return; }
    int ch = (int)v[0], nt = (int)v[1], ni = (int)v[2], ns0 = k - 3;
    if (nt < 1 || nt > 16 || ni < 0 || ni > MAXI || ns0 > MAXI) { printf("<bad case>\n"); return; }
    int s0[MAXI];
    for (int i = 0; i < ns0; i++) { s0[i] = (int)v[3 + i]; if (s0[i] < 0 || s0[i] >= MAXI) { printf("<bad case>\n"); return; } }
    /* count the fields: NT thread fields and the schedule */
    { int bars = 0; for (char *q = p; *q; q++) bars += (*q == '|'); if (bars != nt) { printf("<bad case>\n"); return; } }
    for (int t = 0; t < nt; t++) {
        k = hc_ints(&p, v, 4096);
        thr_t *T = &T_[t]; memset(T, 0, sizeof(*T));
        if (k < 1 || v[0] < 0 || v[0] > MAXI || k < 2 + v[0]) { printf("<bad case>\n"); return; }
        T->nown = (int)v[0];
        for (int i = 0; i < T->nown; i++) { T->own[i] = (int)v[1 + i]; if (T->own[i] < 0 || T->own[i] >= MAXI) { printf("<bad case>\n"); return; } }
        T->nops = (int)v[1 + T->nown];
        if (T->nops < 1 || T->nops > MAXOPS || k != 2 + T->nown + T->nops) { printf("<bad case>\n"); return; }
        for (int i = 0; i < T->nops; i++) T->ops[i] = v[2 + T->nown + i];
    }
    int ns = hc_ints(&p, sched, 8192);

    PARSEC_OBJ_CONSTRUCT(&lifo, parsec_lifo_t);
    for (int i = 0; i < MAXI; i++) PARSEC_OBJ_CONSTRUCT(&items[i], parsec_list_item_t);
    if (ns0 > 0) {
        if (ch) parsec_lifo_nolock_chain(&lifo, make_ring(s0, ns0));
        else for (int i = ns0 - 1; i >= 0; i--) parsec_lifo_nolock_push(&lifo, &items[s0[i]]);
    }
#if defined(VERIF_RACE)
    race_reset(); race_share(&lifo.lifo_head, sizeof(lifo.lifo_head)); race_share(items, sizeof(items));
#endif
    cos_reset();
    for (int t = 0; t < nt; t++) cos_spawn(worker, (void *)(intptr_t)t);
    int dl = cos_run(sched, ns, 1000);

    printf("hist:%s | stack:", out);
    {   /* drain with the nolock variants */
        int cnt = 0, ids[MAXI + 2];
        while (!parsec_lifo_nolock_is_empty(&lifo) && cnt <= ni) {
            parsec_list_item_t *q = parsec_lifo_nolock_pop(&lifo);
            ids[cnt++] = id_of(q);
            if (ids[cnt - 1] < 0) break;
        }
        if (cnt > ni) printf(" <cycle>");
        else for (int i = 0; i < cnt; i++) { if (ids[i] < 0) printf(" ?"); else printf(" %d", ids[i]); }
    }
    printf(" | cnt=%ld | own:", (long)lifo.lifo_head.data.guard.counter);
    for (int t = 0; t < nt; t++) { if (t) printf(" ;"); for (int i = 0; i < T_[t].nown; i++) printf(" %d", T_[t].own[i]); }
    printf(" | steps:"); for (int t = 0; t < nt; t++) printf(" %d", cos_steps[t]);
    printf("%s\n", dl ? " <deadlock>" : "");
}

int main(int argc, char **argv) {
    FILE *f = hc_open(argc, argv); char *l;
    /* A broken LIFO may crash or loop, which is an observation of that case only: the cases
     * run in a child process that reports its progress; when it dies the parent prints a
     * <crash> line for the case in progress and a new child continues with the next one. */
    char **lines = NULL; int n = 0, cap = 0;
    while ((l = hc_next(f))) {
        if (n == cap) { cap = cap ? 2 * cap : 1024; lines = realloc(lines, cap * sizeof(char *)); }
        lines[n++] = strdup(l);
    }
    int start = 0;
    while (start < n) {
        int pfd[2];
        if (pipe(pfd)) { perror("pipe"); return 2; }
        fflush(stdout);
        pid_t pid = fork();
        if (pid == 0) {
            close(pfd[0]);
            for (int i = start; i < n; i++) {
                hc_alarm(5);
                run_case(lines[i]); fflush(stdout);
                if (write(pfd[1], "x", 1) != 1) _exit(4);
            }
            _exit(0);
        }
        close(pfd[1]);
        int done = 0; char b[256]; ssize_t r;
        while ((r = read(pfd[0], b, sizeof b)) > 0) done += (int)r;
        close(pfd[0]);
        int st = 0; waitpid(pid, &st, 0);
        start += done;
        if (start < n) {
            if (WIFSIGNALED(st)) printf("<crash sig=%d>\n", WTERMSIG(st));
            else printf("<exit %d>\n", WEXITSTATUS(st));
            start++;
        }
    }
    return 0;
}
