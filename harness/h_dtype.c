/* C19 harness: calls the real datatype constructors of
 * parsec/data_dist/matrix/matrixtypes.c (linked from libparsec, they go through the
 * MPI wrappers of parsec/datatype/datatype_mpi.c), and observes the MPI datatype
 * that comes out: the byte offsets it selects, in type order, are read off by
 * MPI_Pack-ing marker buffers (pass p: byte b holds digit p of b in base 256), then
 * grouped into elements of the base type; lb/extent by MPI_Type_get_extent, size by
 * MPI_Type_size.
 *
 * cases (all fields decimal integers; sz = size in bytes of the base type: 0,1,2,4,8,16)
 *   tri  sz uplo diag m n ld          parsec_matrix_define_triangle
 *   rect sz m n ld resized            parsec_matrix_define_rectangle
 *   cont sz nb resized                parsec_matrix_define_contiguous
 *   dt   sz uplo diag m n ld resized  parsec_matrix_define_datatype (public entry; also prints the returned extent)
 *   adt  kind sz diag m n ld          parsec_matrix_adt_define_{rect,upper,lower,square} (kind 0..3; also prints the arena element size)
 * observation: "rc=R sel=o1 o2 ... lb=L ext=E size=S [ret=X|elem=X]"; an offset that is
 * not a whole aligned base element is printed as b<byteoffset>. */
#include "parsec/parsec_config.h"
#include "parsec/runtime.h"
#include "parsec/constants.h"
#include "parsec/arena.h"
#include "parsec/data_dist/matrix/matrix.h"
#include <mpi.h>
#include "hcommon.h"

/* exported by libparsec, not declared in any header */
extern int parsec_matrix_define_contiguous(parsec_datatype_t oldtype, unsigned int nb_elem, int resized, parsec_datatype_t *newtype);
extern int parsec_matrix_define_rectangle(parsec_datatype_t oldtype, unsigned int mb, unsigned int nb, unsigned int ld, int resized, parsec_datatype_t *newtype);
extern int parsec_matrix_define_triangle(parsec_datatype_t oldtype, int uplo, int diag, unsigned int m, unsigned int n, unsigned int ld, parsec_datatype_t *newtype);

#define MAXBYTES (64L << 20)
#define NPASS 4

static MPI_Datatype empty_type;

static int base_type(long sz, MPI_Datatype *t) {
    switch (sz) {
    case 0:  *t = empty_type; return 1;
    case 1:  *t = parsec_datatype_int8_t; return 1;
    case 2:  *t = parsec_datatype_int16_t; return 1;
    case 4:  *t = parsec_datatype_int_t; return 1;
    case 8:  *t = parsec_datatype_double_t; return 1;
    case 16: *t = parsec_datatype_double_complex_t; return 1;
    }
    return 0;
}

/* print what the committed type T selects */
static void observe(MPI_Datatype T, long sz) {
    MPI_Aint lb, ext, tlb, text; int size, psize;
    MPI_Type_get_extent(T, &lb, &ext);
    MPI_Type_get_true_extent(T, &tlb, &text);
    MPI_Type_size(T, &size);
    printf(" sel=");
    if (size > 0) {
        long shift = tlb < 0 ? -tlb : 0;             /* bytes before the origin */
        long span = shift + (tlb > 0 ? tlb : 0) + text + 64;
        if (span > MAXBYTES || span < 0) { printf("<span %ld too large>", span); goto tail; }
        unsigned char *arena = malloc(span);
        MPI_Pack_size(1, T, MPI_COMM_SELF, &psize);
        unsigned char *out = malloc(psize + 64);
        long *off = calloc(size, sizeof(long));
        int bad = 0;
        for (int p = 0; p < NPASS; p++) {
            int pos = 0;
            for (long b = 0; b < span; b++) arena[b] = (unsigned char)((b >> (8 * p)) & 0xff);
            MPI_Pack(arena + shift, 1, T, out, psize + 64, &pos, MPI_COMM_SELF);
            if (pos != size) { bad = 1; printf("<packed %d bytes, type size %d>", pos, size); break; }
            for (int k = 0; k < size; k++) off[k] |= ((long)out[k]) << (8 * p);
        }
        if (!bad) {
            int first = 1;
            for (int k = 0; k < size; ) {
                long o = off[k] - shift; int whole = 0;
                if (sz > 0 && o % sz == 0 && o >= 0 && k + sz <= size) {
                    whole = 1;
                    for (int q = 1; q < sz; q++) if (off[k + q] - shift != o + q) whole = 0;
                }
                if (!first) putchar(' ');
                first = 0;
                if (whole) { printf("%ld", o / sz); k += sz; }
                else { printf("b%ld", o); k += 1; }
            }
        }
        free(off); free(out); free(arena);
    }
tail:
    printf(" lb=%ld ext=%ld size=%d", (long)lb, (long)ext, size);
}

int main(int argc, char **argv) {
    FILE *f = hc_open(argc, argv); char *l;
    MPI_Init(&argc, &argv);
    /* an MPI error (e.g. a negative block length) comes back as a return code instead of aborting the run */
    MPI_Comm_set_errhandler(MPI_COMM_WORLD, MPI_ERRORS_RETURN);
    MPI_Comm_set_errhandler(MPI_COMM_SELF, MPI_ERRORS_RETURN);
    MPI_Type_contiguous(0, MPI_BYTE, &empty_type);
    MPI_Type_commit(&empty_type);
    while ((l = hc_next(f))) {
        long v[8]; char *p = l; int k;
        while (*p && *p != ' ') p++;
        k = hc_ints(&p, v, 8);
        MPI_Datatype base, T = MPI_DATATYPE_NULL; int rc;
        if (!strncmp(l, "tri ", 4) && k == 6 && base_type(v[0], &base)) {
            rc = parsec_matrix_define_triangle(base, (int)v[1], (int)v[2], (unsigned)v[3], (unsigned)v[4], (unsigned)v[5], &T);
            printf("rc=%d", rc);
            if (rc == PARSEC_SUCCESS) { observe(T, v[0]); MPI_Type_free(&T); }
            printf("\n");
        } else if (!strncmp(l, "rect ", 5) && k == 5 && base_type(v[0], &base)) {
            rc = parsec_matrix_define_rectangle(base, (unsigned)v[1], (unsigned)v[2], (unsigned)v[3], (int)v[4], &T);
            printf("rc=%d", rc);
            if (rc == PARSEC_SUCCESS) { observe(T, v[0]); MPI_Type_free(&T); }
            printf("\n");
        } else if (!strncmp(l, "cont ", 5) && k == 3 && base_type(v[0], &base)) {
            rc = parsec_matrix_define_contiguous(base, (unsigned)v[1], (int)v[2], &T);
            printf("rc=%d", rc);
            if (rc == PARSEC_SUCCESS) { observe(T, v[0]); MPI_Type_free(&T); }
            printf("\n");
        } else if (!strncmp(l, "dt ", 3) && k == 7 && base_type(v[0], &base)) {
            ptrdiff_t ret = -1;
            rc = parsec_matrix_define_datatype(&T, base, (parsec_matrix_uplo_t)v[1], (int)v[2], (unsigned)v[3], (unsigned)v[4], (unsigned)v[5], (int)v[6], &ret);
            printf("rc=%d", rc);
            if (rc == PARSEC_SUCCESS) { observe(T, v[0]); MPI_Type_free(&T); }
            printf(" ret=%ld\n", (long)ret);
        } else if (!strncmp(l, "adt ", 4) && k == 6 && base_type(v[1], &base) && v[0] >= 0 && v[0] <= 3) {
            parsec_arena_datatype_t adt;
            PARSEC_OBJ_CONSTRUCT(&adt, parsec_arena_datatype_t);
            switch (v[0]) {
            case 0:  rc = parsec_matrix_adt_define_rect(&adt, base, (unsigned)v[3], (unsigned)v[4], (unsigned)v[5]); break;
            case 1:  rc = parsec_matrix_adt_define_upper(&adt, base, (int)v[2], (unsigned)v[3]); break;
            case 2:  rc = parsec_matrix_adt_define_lower(&adt, base, (int)v[2], (unsigned)v[3]); break;
            default: rc = parsec_matrix_adt_define_square(&adt, base, (unsigned)v[3]); break;
            }
            printf("rc=%d", rc);
            if (rc == PARSEC_SUCCESS) {
                observe(adt.opaque_dtt, v[1]);
                printf(" elem=%ld", adt.arena ? (long)adt.arena->elem_size : -1L);
                parsec_matrix_arena_datatype_destruct_free_type(&adt);
            }
            printf("\n");
        } else printf("<bad case>\n");
    }
    MPI_Type_free(&empty_type);
    MPI_Finalize();
    return 0;
}
