/* C29 harness (T-sched): the real base / countable / data-copy futures of
 * parsec/class/parsec_future.c and parsec_datacopy_future.c, driven by op lists
 * in ucontext coroutines under the schedule of the case.
 *
 * Scheduling points (= model steps, coq/theories/Future/FutureDefs.v):
 *   - every parsec_atomic_* RMW, lock, unlock (interpose.h);
 *   - parsec_atomic_wmb / parsec_atomic_rmb (interposed below: separates the CAS of
 *     base_future_set from the status write, and the status read of base_future_get
 *     from the data read);
 *   - inside the harness callbacks cb_fulfill (after the counter, before the set) and
 *     cb_nested (before the nested future is created);
 *   - between two operations of a thread;
 *   - the blocking parsec_base_future_get has no interposable call in its wait loop:
 *     the harness polls parsec_future_is_ready (one cos_spin per poll) and calls
 *     parsec_future_get only once the future is ready.
 *
 * case:  base HASCB NT        | op a b  op a b ... | ... (NT lists) | sched
 *        cnt  HASCB COUNT NT  | ...                                 | sched
 *        dc   ROOTSPEC NT cbv1 cbv2 cbv3 cbv4 | ...                 | sched
 *   base/cnt ops: 1 v 0 = set v   2 0 0 = get (blocking)   3 0 0 = is_ready
 *   dc ops:       1 r 0 = get_or_trigger(shape r; 0 = none)   2 s v = set v on the future of shape s
 *                 3 0 0 = is_ready   4 0 0 = get
 * out :  res: r r ; r r ; ... | <final state> | steps: s0 s1 ..                      */
#include "interpose.h"
#define parsec_atomic_wmb() (cos_yield(), parsec_atomic_wmb())
#define parsec_atomic_rmb() (cos_yield(), parsec_atomic_rmb())
#include "cosched.h"
#include "parsec/class/parsec_future.c"
#include "parsec/class/parsec_datacopy_future.c"
#include "hcommon.h"

#define MAXT 16
#define MAXOPS 64
#define MAXSHAPE 8
#define MAXFUT 16

typedef struct { int code; long a, b; } op_t;
static op_t ops[MAXT][MAXOPS];
static int nops[MAXT];
static long res[MAXT][MAXOPS];
static int nres[MAXT];
static long cells[MAXT][MAXOPS];          /* one distinct cell per set operation: *cell = value */
static int mode;                          /* 0 base, 1 cnt, 2 dc */

static long val_of(void *p) { return p ? *(long *)p : 0; }

/* ---------------- base / countable ---------------- */
static parsec_base_future_t *bf;
static int ncb, nseen, ndec, hascb_g;
static int cb_by[MAXT];                    /* callbacks run by each thread (the callback runs inside the winning set) */
static long seen[MAXT * MAXOPS];
static void cb_count(parsec_base_future_t *f, ...) {
    if (nseen < MAXT * MAXOPS) seen[nseen++] = val_of(f->tracked_data);
    ncb++;
    if (cos_self() >= 0 && cos_self() < MAXT) cb_by[cos_self()]++;
}

static void run_base(void *arg) {
    int t = (int)(intptr_t)arg;
    for (int i = 0; i < nops[t]; i++) {
        if (i) cos_yield();
        op_t *o = &ops[t][i];
        long r = 0;
        switch (o->code) {
        case 1: {
            void *p = NULL;
            if (mode == 1 || o->a != 0) { cells[t][i] = o->a; p = &cells[t][i]; }
            int before = cb_by[t];
            parsec_future_set(bf, p);
            if (mode == 1) { ndec++; r = !!parsec_future_is_ready(bf); }
            else if (hascb_g) r = (cb_by[t] != before);      /* the CAS winner runs the callback */
            else r = (bf->tracked_data == p);                /* distinct cell per set: exact for non-NULL values */
            break; }
        case 2:
            while (!parsec_future_is_ready(bf)) cos_spin();
            r = val_of(parsec_future_get(bf));
            break;
        default:
            r = !!parsec_future_is_ready(bf);
        }
        res[t][nres[t]++] = r;
    }
}

/* ---------------- data-copy ---------------- */
typedef struct { parsec_datacopy_future_t *f; int spec; int ncb; int nclean; } reg_t;
static reg_t reg[MAXFUT];
static int nreg, dbad, nclean_order;
static int clean_order[MAXFUT * 2];
static long cbv[MAXSHAPE + 1], cbcell[MAXSHAPE + 1];
static parsec_datacopy_future_t *root;

static void checked_set(parsec_datacopy_future_t *f, void *p) {
    if (f->super.status & PARSEC_DATA_FUTURE_STATUS_COMPLETED) dbad = 1;   /* the assert of parsec_datacopy_future_set */
    parsec_future_set(f, p);
}
static void d_fulfill(parsec_base_future_t *future, ...) {
    parsec_datacopy_future_t *d = (parsec_datacopy_future_t *)future;
    reg_t *g = (reg_t *)d->cb_fulfill_data_in;
    g->ncb++;
    cos_yield();
    if (g->spec >= 0 && g->spec <= MAXSHAPE && cbv[g->spec] != 0) {
        cbcell[g->spec] = cbv[g->spec];
        checked_set(d, &cbcell[g->spec]);
    }
}
static int d_match(parsec_base_future_t *future, ...) {
    va_list ap; va_start(ap, future);
    int *t1 = va_arg(ap, int *); int *t2 = va_arg(ap, int *);
    va_end(ap);
    return *t1 == *t2;
}
static void d_cleanup(parsec_base_future_t *future, ...) {
    parsec_datacopy_future_t *d = (parsec_datacopy_future_t *)future;
    reg_t *g = (reg_t *)d->cb_fulfill_data_in;
    g->nclean++;
    if (nclean_order < MAXFUT * 2) clean_order[nclean_order++] = g->spec;
}
static reg_t *new_reg(int spec) {
    if (nreg >= MAXFUT) { fprintf(stderr, "h_future: too many futures\n"); exit(3); }
    reg_t *g = &reg[nreg++];
    g->spec = spec; g->ncb = 0; g->nclean = 0;
    g->f = PARSEC_OBJ_NEW(parsec_datacopy_future_t);
    parsec_future_init(g->f, d_fulfill, g, d_match, &g->spec, d_cleanup);
    return g;
}
static void d_nested(parsec_base_future_t **future, ...) {
    va_list ap; va_start(ap, future);
    parsec_datacopy_future_t *parent = va_arg(ap, parsec_datacopy_future_t *);
    int *request = va_arg(ap, int *);
    va_end(ap);
    (void)parent;
    cos_yield();
    *future = (parsec_base_future_t *)new_reg(*request)->f;
}

static void run_dc(void *arg) {
    int t = (int)(intptr_t)arg;
    for (int i = 0; i < nops[t]; i++) {
        if (i) cos_yield();
        op_t *o = &ops[t][i];
        long r = 0;
        switch (o->code) {
        case 1: {
            int req = (int)o->a;
            r = val_of(parsec_future_get_or_trigger(root, d_nested, req ? (void *)&req : NULL, NULL, NULL));
            break; }
        case 2: {
            reg_t *g = NULL;
            for (int j = 0; j < nreg; j++) if (reg[j].spec == (int)o->a) { g = &reg[j]; break; }
            if (!g) { r = -1; break; }
            void *p = NULL;
            if (o->b != 0) { cells[t][i] = o->b; p = &cells[t][i]; }
            r = (g->f->super.status & PARSEC_DATA_FUTURE_STATUS_COMPLETED) ? 2 : 1;
            checked_set(g->f, p);
            break; }
        case 3: r = parsec_future_is_ready(root); break;
        default: r = val_of(parsec_future_get(root));
        }
        res[t][nres[t]++] = r;
    }
}

static void print_res(int nt) {
    printf("res:");
    for (int t = 0; t < nt; t++) {
        if (t) printf(" ;");
        for (int i = 0; i < nres[t]; i++) printf(" %ld", res[t][i]);
    }
}
static void print_fut(parsec_datacopy_future_t *d) {
    reg_t *g = NULL;
    for (int j = 0; j < nreg; j++) if (reg[j].f == d) g = &reg[j];
    printf(" %d:%d:%d:%ld:%d:%d", g ? g->spec : -1,
           !!(d->super.status & PARSEC_DATA_FUTURE_STATUS_TRIGGERED),
           !!(d->super.status & PARSEC_DATA_FUTURE_STATUS_COMPLETED),
           val_of(d->super.tracked_data),
           (parsec_atomic_trylock)(&d->super.future_lock) ? ((parsec_atomic_unlock)(&d->super.future_lock), 0) : 1,
           g ? g->ncb : -1);
}

int main(int argc, char **argv) {
    FILE *f = hc_open(argc, argv); char *l;
    static long v[4096], sched[16384];
    parsec_output_set_verbosity(0, -1);        /* silence parsec_warning (already-set futures) */
    while ((l = hc_next(f))) {
        char *p = l; int k, nt, hascb = 0; long count = 0, rootspec = 0;
        if (!strncmp(l, "base", 4)) { mode = 0; p += 4; }
        else if (!strncmp(l, "cnt", 3)) { mode = 1; p += 3; }
        else if (!strncmp(l, "dc", 2)) { mode = 2; p += 2; }
        else { printf("<bad case>\n"); continue; }
        k = hc_ints(&p, v, 16);
        memset(cbv, 0, sizeof(cbv));
        if (mode == 0 && k >= 2) { hascb = (int)v[0]; nt = (int)v[1]; }
        else if (mode == 1 && k >= 3) { hascb = (int)v[0]; count = v[1]; nt = (int)v[2]; }
        else if (mode == 2 && k >= 2) { rootspec = v[0]; nt = (int)v[1]; for (int i = 2; i < k && i - 1 <= MAXSHAPE; i++) cbv[i - 1] = v[i]; }
        else { printf("<bad case>\n"); continue; }
        if (nt < 0 || nt > MAXT) { printf("<bad case>\n"); continue; }
        int bad = 0;
        for (int t = 0; t < nt; t++) {
            k = hc_ints(&p, v, 4096);
            nops[t] = k / 3; nres[t] = 0;
            if (nops[t] > MAXOPS) { bad = 1; nops[t] = 0; }
            for (int i = 0; i < nops[t]; i++) { ops[t][i].code = (int)v[3 * i]; ops[t][i].a = v[3 * i + 1]; ops[t][i].b = v[3 * i + 2]; }
        }
        if (bad) { printf("<bad case>\n"); continue; }
        int ns = hc_ints(&p, sched, 16384);
        cos_reset();
        ncb = nseen = ndec = 0; nreg = 0; dbad = 0; nclean_order = 0; hascb_g = hascb; memset(cb_by, 0, sizeof(cb_by));
        if (mode == 0) {
            bf = PARSEC_OBJ_NEW(parsec_base_future_t);
            parsec_future_init(bf, hascb ? cb_count : NULL);
        } else if (mode == 1) {
            bf = (parsec_base_future_t *)PARSEC_OBJ_NEW(parsec_countable_future_t);
            parsec_future_init(bf, hascb ? cb_count : NULL, (int)count);
        } else {
            root = new_reg((int)rootspec)->f;
        }
        for (int t = 0; t < nt; t++) {
            cos_spawn(mode == 2 ? run_dc : run_base, (void *)(intptr_t)t);
            if (nops[t] == 0) cos_finished[t] = 1;     /* an empty thread takes no step (as in the model) */
        }
        int dl = cos_run(sched, ns, 300);
        print_res(nt);
        if (mode == 0) {
            printf(" | data=%ld stat=%d ncb=%d seen=", val_of(bf->tracked_data), !!parsec_future_is_ready(bf), ncb);
            for (int i = 0; i < nseen; i++) printf("%s%ld", i ? "," : "", seen[i]);
        } else if (mode == 1) {
            printf(" | count=%d stat=%d ncb=%d ndec=%d", (int)((parsec_countable_future_t *)bf)->count,
                   !!parsec_future_is_ready(bf), ncb, ndec);
        } else {
            printf(" | futs:");
            print_fut(root);
            if (root->nested_futures != NULL) {
                parsec_list_item_t *it;
                int guard = 0;
                for (it = PARSEC_LIST_ITERATOR_FIRST(root->nested_futures);
                     it != PARSEC_LIST_ITERATOR_END(root->nested_futures) && guard < 2 * MAXFUT;
                     it = PARSEC_LIST_ITERATOR_NEXT(it), guard++)
                    print_fut((parsec_datacopy_future_t *)it);
            }
            printf(" | bad=%d", dbad);
        }
        if (mode == 2) {
            /* destruction of the quiescent object: every registered cleanup callback */
            if (!dl) PARSEC_OBJ_RELEASE(root);
            printf(" | cleanup:");
            for (int i = 0; i < nclean_order; i++) printf(" %d", clean_order[i]);
        } else {
            if (!dl) PARSEC_OBJ_RELEASE(bf);
        }
        printf(" | steps:"); for (int t = 0; t < nt; t++) printf(" %d", cos_steps[t]);
        printf("%s\n", dl ? " <deadlock>" : "");
    }
    return 0;
}
