/* C40 harness: the virtual-process map code of parsec/vpmap.c.  The source is
 * included so that the static parse_binding_parameter (and the map itself) is
 * reachable; parsec_hwloc_nb_real_cores() is defined here, so the number of
 * binding resources R is a parameter of the case (0 = ask libparsec).  Every
 * case runs in a forked child (a crash is an observation): stdout/stderr of the
 * child are discarded (the code prints warnings and "[rank] No binding..."),
 * the observation travels through a memfd.  malloc'd memory is perturbed
 * (M_PERTURB) and the stack is painted before the call, so that the use of
 * uninitialised map entries / of the unassigned rest_of_line pointer faults
 * deterministically instead of depending on what the allocator returns.
 *
 *  init R sing nb S:<spec> | init R sing nb NULL      parsec_vpmap_init(spec, nb)
 *  file R sing nb plain|display <content, \n \t \\ escaped>   spec = [display:]file:<tmp file with the content>
 *  nofile R sing nb                                  spec = file:<a path that does not exist>
 *  bind R nbth <binding>                             parse_binding_parameter(0, nbth, binding) on a calloc'd VP
 *  pinit nb <spec>                                   PARSEC_MCA_runtime_vpmap=<spec>, MPI_Init_thread, parsec_init(nb): counts only
 *  cinit nb sing c0,c1,... [numcores]                       sched_setaffinity to the cpu list, PARSEC_MCA_runtime_singlify_bindings=sing,
 *                                                    MPI_Init_thread, parsec_init(nb) with the default map: per thread
 *                                                    "<es->core_id>:ok" or "<core>:OUT{affinity}" when the thread's real
 *                                                    affinity (pthread_getaffinity_np) leaves the process cpuset
 *  hw S C nb sing                                    HWLOC_SYNTHETIC="pack:S core:C pu:1" HWLOC_THISSYSTEM=1, parsec_hwloc_init(),
 *                                                    parsec_vpmap_init("hwloc", nb): the whole map
 *  phw S C nb                                        same machine, PARSEC_MCA_runtime_vpmap=hwloc through parsec_init(nb):
 *                                                    "ctx_vps=<n> | <map threads>/<vp->nb_cores> ..."
 * observation:  vps=<n> total=<t> | <threads>: [nbcores,ht,cpuset] ... | ...   or   CRASH */
#include "parsec/parsec_config.h"
#include <dlfcn.h>
#include <stdarg.h>
#include <malloc.h>
#include <hwloc.h>
static int fake_cores = 0;
int parsec_hwloc_nb_real_cores(void);
/* hwloc_bitmap_set(set, (unsigned)-1) -- what the code does for a thread it leaves unbound -- allocates and
 * zero-fills a 512 MB bitmap; the stand-in remembers that the bit is set instead (printed as 4294967295) */
#define VERIF_MAXBIG 4096
static hwloc_bitmap_t verif_big[VERIF_MAXBIG]; static int verif_nbig;
static int verif_bitmap_set(hwloc_bitmap_t s, unsigned i)
{
    if (i == (unsigned)-1) { if (verif_nbig < VERIF_MAXBIG) verif_big[verif_nbig++] = s; return 0; }
    return (hwloc_bitmap_set)(s, i);
}
#define hwloc_bitmap_set(S, I) verif_bitmap_set((S), (I))
#include "parsec/vpmap.c"
#undef hwloc_bitmap_set
#include "hcommon.h"
#include <unistd.h>
#include <sched.h>
#include <pthread.h>
#include <fcntl.h>
#include <sys/wait.h>
#include <sys/mman.h>
#include "parsec/runtime.h"
#include "parsec/execution_stream.h"

int parsec_hwloc_nb_real_cores(void)
{
    if (fake_cores > 0) return fake_cores;
    int (*real)(void) = (int (*)(void))dlsym(RTLD_NEXT, "parsec_hwloc_nb_real_cores");
    return real ? real() : 1;
}

static int ofd = -1;
static void emit(const char *fmt, ...)
{
    char b[512]; va_list ap; va_start(ap, fmt); int n = vsnprintf(b, sizeof b, fmt, ap); va_end(ap);
    if (n > (int)sizeof b - 1) n = sizeof b - 1;
    if (write(ofd, b, n) != n) _exit(5);
}
static void emit_set(hwloc_cpuset_t c)
{
    if (!c) { emit("null"); return; }
    for (int i = 0; i < verif_nbig; i++) if (verif_big[i] == c) { emit("4294967295"); return; }
    char *s = NULL; hwloc_bitmap_list_asprintf(&s, c); emit("%s", s ? s : "?"); free(s);
}
static void emit_map(void)
{
    int nv = parsec_vpmap_get_nb_vp();
    emit("vps=%d total=%d", nv, parsec_vpmap_get_nb_total_threads());
    for (int v = 0; v < nv; v++) {
        int nt = parsec_vpmap_get_vp_threads(v);
        emit(" | %d:", nt);
        for (int t = 0; t < nt; t++) {
            int ht = -7; hwloc_cpuset_t c = parsec_vpmap_get_vp_thread_affinity(v, t, &ht);
            emit(" [%d,%d,", parsec_vpmap_get_vp_thread_cores(v, t), ht); emit_set(c); emit("]");
        }
    }
}
static void __attribute__((noinline)) paint_stack(void)
{
    volatile unsigned char a[96 * 1024];
    for (size_t i = 0; i < sizeof a; i++) a[i] = 0x5a;
}
static void unescape(char *s)
{
    char *d = s;
    for (; *s; s++) {
        if (*s == '\\' && s[1]) { s++; *d++ = (*s == 'n') ? '\n' : (*s == 't') ? '\t' : *s; }
        else *d++ = *s;
    }
    *d = 0;
}
static void quiet(void)
{
    int nul = open("/dev/null", O_WRONLY);
    if (nul >= 0) { dup2(nul, 1); dup2(nul, 2); }
}

/* runs fn(arg) in a child; prints what it emitted, then CRASH if it died */
static void in_child(void (*fn)(char *), char *arg, int timeout_s)
{
    ofd = memfd_create("obs", 0);
    fflush(stdout);
    pid_t pid = fork();
    if (pid == 0) { hc_alarm(timeout_s); quiet(); fn(arg); _exit(0); }
    int st = 0; waitpid(pid, &st, 0);
    { char tn[128]; snprintf(tn, sizeof tn, "/tmp/verif-vpmap-%d.txt", (int)pid); unlink(tn); }
    lseek(ofd, 0, SEEK_SET);
    char b[4096]; ssize_t k; size_t tot = 0;
    if (WIFSIGNALED(st)) printf("CRASH");
    else if (WEXITSTATUS(st) == 250) printf("FATAL");                     /* parsec_fatal: _Exit(-6) */
    else {
        while ((k = read(ofd, b, sizeof b)) > 0) { fwrite(b, 1, k, stdout); tot += k; }
        if (WEXITSTATUS(st) != 0) printf("%s<exit %d>", tot ? " " : "", WEXITSTATUS(st));
    }
    printf("\n");
    close(ofd);
}

static long next_long(char **p) { char *e; long v = strtol(*p, &e, 10); *p = e; return v; }

static void do_init(char *l)       /* after the keyword: R sing nb S:<spec>|NULL */
{
    char *p = l; fake_cores = next_long(&p); parsec_runtime_singlify_bindings = next_long(&p); int nb = next_long(&p);
    while (*p == ' ') p++;
    char *spec = NULL;
    if (!strncmp(p, "S:", 2)) spec = p + 2;
    parsec_report_binding_issues = 0;
    mallopt(M_PERTURB, 0xa5); paint_stack();
    parsec_vpmap_init(spec, nb);
    emit_map();
}
static char tmpname[128];
static void do_file(char *l)       /* R sing nb plain|display <content> */
{
    char *p = l; fake_cores = next_long(&p); parsec_runtime_singlify_bindings = next_long(&p); int nb = next_long(&p);
    while (*p == ' ') p++;
    int disp = !strncmp(p, "display", 7);
    p += disp ? 7 : 5;
    if (*p == ' ') p++;
    unescape(p);
    snprintf(tmpname, sizeof tmpname, "/tmp/verif-vpmap-%d.txt", (int)getpid());
    FILE *f = fopen(tmpname, "w"); if (!f) _exit(6);
    fwrite(p, 1, strlen(p), f); fclose(f);
    char spec[256]; snprintf(spec, sizeof spec, "%sfile:%s", disp ? "display:" : "", tmpname);
    parsec_report_binding_issues = 0;
    mallopt(M_PERTURB, 0xa5); paint_stack();
    parsec_vpmap_init(spec, nb);
    emit_map();
    unlink(tmpname);
}
static void do_nofile(char *l)
{
    char *p = l; fake_cores = next_long(&p); parsec_runtime_singlify_bindings = next_long(&p); int nb = next_long(&p);
    char spec[] = "file:/nonexistent-dir/verif-vpmap-no-such-file";
    parsec_report_binding_issues = 0;
    mallopt(M_PERTURB, 0xa5); paint_stack();
    parsec_vpmap_init(spec, nb);
    emit_map();
}
static void do_bind(char *l)       /* R nbth <binding> */
{
    char *p = l; fake_cores = next_long(&p); int nbth = next_long(&p);
    if (*p == ' ') p++;
    size_t n = strlen(p);
    char *b = calloc(n + 16, 1); memcpy(b, p, n);      /* the code may look one byte past the NUL of "a;" */
    parsec_nbvp = 1;
    parsec_vpmap = calloc(1, sizeof(vpmap_t));
    parsec_vpmap[0].nbthreads = nbth;
    parsec_vpmap[0].threads = calloc(nbth, sizeof(vpmap_thread_t));
    parse_binding_parameter(0, nbth, b);
    emit("bind:");
    for (int t = 0; t < nbth; t++) {
        emit(" [%d,%d,", parsec_vpmap[0].threads[t].nbcores, parsec_vpmap[0].threads[t].ht);
        emit_set(parsec_vpmap[0].threads[t].cpuset); emit("]");
    }
}
static void do_pinit(char *l)      /* nb <spec> : the user's path, counts only */
{
    char *p = l; int nb = next_long(&p);
    if (*p == ' ') p++;
    fake_cores = 0;
    setenv("PARSEC_MCA_runtime_vpmap", p, 1);
    setenv("PARSEC_MCA_runtime_report_binding_issues", "0", 1);
    int prov, argc = 1; char *av[] = { "h_vpmap", NULL }; char **argv = av;
    MPI_Init_thread(&argc, &argv, MPI_THREAD_SERIALIZED, &prov);
    parsec_context_t *ctx = parsec_init(nb, &argc, &argv);
    if (!ctx) { emit("<parsec_init failed>"); return; }
    emit("vps=%d total=%d ctx_vps=%d", parsec_vpmap_get_nb_vp(), parsec_vpmap_get_nb_total_threads(), ctx->nb_vp);
    for (int v = 0; v < ctx->nb_vp; v++) emit(" | %d/%d", parsec_vpmap_get_vp_threads(v), ctx->virtual_processes[v]->nb_cores);
    parsec_fini(&ctx);
    MPI_Finalize();
}

static void synthetic(long S, long C)
{
    char t[64]; snprintf(t, sizeof t, "pack:%ld core:%ld pu:1", S, C);
    setenv("HWLOC_SYNTHETIC", t, 1); setenv("HWLOC_THISSYSTEM", "1", 1);
}
static void do_hw(char *l)         /* S C nb sing */
{
    char *p = l; long S = next_long(&p), C = next_long(&p); int nb = next_long(&p);
    parsec_runtime_singlify_bindings = next_long(&p);
    synthetic(S, C);
    fake_cores = 0; parsec_report_binding_issues = 0;
    parsec_hwloc_init();
    mallopt(M_PERTURB, 0xa5); paint_stack();
    char spec[] = "hwloc";
    parsec_vpmap_init(spec, nb);
    emit_map();
}
static void do_phw(char *l)        /* S C nb : the user path */
{
    char *p = l; long S = next_long(&p), C = next_long(&p); int nb = next_long(&p);
    synthetic(S, C);
    fake_cores = 0;
    setenv("PARSEC_MCA_runtime_vpmap", "hwloc", 1);
    setenv("PARSEC_MCA_runtime_report_binding_issues", "0", 1);
    setenv("PARSEC_MCA_bind_threads", "0", 1);
    int prov, argc = 1; char *av[] = { "h_vpmap", NULL }; char **argv = av;
    MPI_Init_thread(&argc, &argv, MPI_THREAD_SERIALIZED, &prov);
    parsec_context_t *ctx = parsec_init(nb, &argc, &argv);
    if (!ctx) { emit("<parsec_init failed>"); return; }
    emit("ctx_vps=%d", ctx->nb_vp);
    for (int v = 0; v < ctx->nb_vp; v++) emit(" | %d/%d", parsec_vpmap_get_vp_threads(v), ctx->virtual_processes[v]->nb_cores);
    parsec_fini(&ctx);
    MPI_Finalize();
}
static void do_cinit(char *l)      /* nb sing cpulist : the user path under a restricted process cpuset */
{
    char *p = l; int nb = next_long(&p); long sing = next_long(&p);
    cpu_set_t mask, th; CPU_ZERO(&mask);
    while (*p) {
        while (*p == ' ' || *p == ',') p++;
        if (!*p) break;
        char *e; long c = strtol(p, &e, 10); if (e == p) break;
        CPU_SET((int)c, &mask); p = e;
        if (*p == ' ') break;
    }
    long numcores = (*p == ' ') ? strtol(p, NULL, 10) : 0;      /* optional: runtime_num_cores (oversubscription) */
    if (sched_setaffinity(0, sizeof mask, &mask)) { emit("<sched_setaffinity failed>"); return; }
    fake_cores = 0;
    char sb[32]; snprintf(sb, sizeof sb, "%ld", sing);
    setenv("PARSEC_MCA_runtime_singlify_bindings", sb, 1);
    setenv("PARSEC_MCA_runtime_report_binding_issues", "0", 1);
    unsetenv("PARSEC_MCA_runtime_vpmap");
    if (numcores > 0) { char nc[32]; snprintf(nc, sizeof nc, "%ld", numcores); setenv("PARSEC_MCA_runtime_num_cores", nc, 1); }
    int prov, argc = 1; char *av[] = { "h_vpmap", NULL }; char **argv = av;
    MPI_Init_thread(&argc, &argv, MPI_THREAD_SERIALIZED, &prov);
    parsec_context_t *ctx = parsec_init(nb, &argc, &argv);
    if (!ctx) { emit("<parsec_init failed>"); return; }
    int total = 0, g = 0;
    for (int v = 0; v < ctx->nb_vp; v++) total += ctx->virtual_processes[v]->nb_cores;
    emit("vps=%d total=%d |", ctx->nb_vp, total);
    for (int v = 0; v < ctx->nb_vp; v++) {
        parsec_vp_t *vp = ctx->virtual_processes[v];
        for (int t = 0; t < vp->nb_cores; t++, g++) {
            pthread_t id = (0 == g) ? pthread_self() : ctx->pthreads[g];
            CPU_ZERO(&th); pthread_getaffinity_np(id, sizeof th, &th);
            int out = 0;
            for (int c = 0; c < CPU_SETSIZE; c++) if (CPU_ISSET(c, &th) && !CPU_ISSET(c, &mask)) out = 1;
            emit(" %d:", vp->execution_streams[t]->core_id);
            if (!out) emit("ok");
            else { emit("OUT{"); for (int c = 0, k = 0; c < CPU_SETSIZE; c++) if (CPU_ISSET(c, &th)) emit("%s%d", k++ ? "," : "", c); emit("}"); }
        }
    }
    parsec_fini(&ctx);
    MPI_Finalize();
}

int main(int argc, char **argv)
{
    FILE *f = hc_open(argc, argv); char *l;
    while ((l = hc_next(f))) {
        if (!strncmp(l, "init ", 5)) in_child(do_init, l + 5, 20);
        else if (!strncmp(l, "file ", 5)) in_child(do_file, l + 5, 20);
        else if (!strncmp(l, "nofile ", 7)) in_child(do_nofile, l + 7, 20);
        else if (!strncmp(l, "bind ", 5)) in_child(do_bind, l + 5, 60);
        else if (!strncmp(l, "pinit ", 6)) in_child(do_pinit, l + 6, 120);
        else if (!strncmp(l, "cinit ", 6)) in_child(do_cinit, l + 6, 120);
        else if (!strncmp(l, "hw ", 3)) in_child(do_hw, l + 3, 20);
        else if (!strncmp(l, "phw ", 4)) in_child(do_phw, l + 4, 120);
        else printf("<bad case>\n");
        fflush(stdout);
    }
    return 0;
}
