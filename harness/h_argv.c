/* C39 harness: drives the real argument-vector utilities (parsec/utils/argv.c,
 * through libparsec) and the real command-line parser (parsec/utils/cmd_line.c,
 * included so that the private parameter list can be printed in order).
 *
 * Case syntax (space separated tokens): a string is "=" followed by its
 * characters (so "=" is the empty string; \xNN stands for the byte NN); a vector
 * is "NULL" or "[ =a =b ]".
 *   split D S | splitwe D S      -> <vector> | <join of that vector>
 *   join D V                     -> <string> | <split of it> | <split_with_empty of it>
 *   joinr D V start end          -> <string>
 *   ins V start SRC              -> rc <vector> | rc argc <vector>     (insert, then delete(start, count(SRC)))
 *   inse V loc E                 -> rc <vector>                        (E is a string or NULL)
 *   del ARGC V start num         -> rc argc <vector>
 *   app V S / appn V S / prep V S / uniq V S ow / copy V / count V / len V
 *   cmd IGN | o =c SD LG NP | ... | a V | q =name inst idx | ...
 *       -> mk: rc.. | rc | params: (k: "p"..).. | tail: n <vector> | argv: n <vector> | q: ninsts param ; ..
 * Every case runs in a forked child (one child handles consecutive cases
 * until one of them dies); a case that
 * kills the child prints "<crash>" (the signal number goes to stderr). */
#include "parsec/utils/cmd_line.c"
#include "hcommon.h"
#include <stdarg.h>
#include <unistd.h>
#include <signal.h>
#include <fcntl.h>
#include <sys/wait.h>

/* ---- output buffer ------------------------------------------------------ */
static char *ob; static size_t ob_len, ob_cap;
static void ob_reset(void) { ob_len = 0; if (ob) ob[0] = 0; }
static void ob_put(const char *s, size_t n) {
    if (ob_len + n + 1 > ob_cap) { ob_cap = (ob_len + n + 1) * 2; ob = realloc(ob, ob_cap); }
    memcpy(ob + ob_len, s, n); ob_len += n; ob[ob_len] = 0;
}
static void ob_printf(const char *fmt, ...) {
    char tmp[256]; va_list ap; va_start(ap, fmt);
    int n = vsnprintf(tmp, sizeof tmp, fmt, ap); va_end(ap);
    ob_put(tmp, (size_t)(n < (int)sizeof tmp ? n : (int)sizeof tmp - 1));
}
static void ob_str(const char *s) {
    if (!s) { ob_put("NULL", 4); return; }
    ob_put("\"", 1);
    for (; *s; s++) {
        unsigned char c = (unsigned char)*s;
        if (c <= 0x20 || c > 0x7e || c == '"' || c == '\\') ob_printf("\\x%02x", c);
        else ob_put((const char *)&c, 1);
    }
    ob_put("\"", 1);
}
static void ob_vec(char **v) {
    if (!v) { ob_put("NULL", 4); return; }
    ob_put("[", 1);
    for (; *v; v++) { ob_put(" ", 1); ob_str(*v); }
    ob_put(" ]", 2);
}
static const char *rcname(int rc) {
    if (rc == PARSEC_SUCCESS) return "OK";
    if (rc == PARSEC_ERR_BAD_PARAM) return "BAD_PARAM";
    if (rc == PARSEC_ERROR) return "ERROR";
    return "OTHER";
}

/* ---- case tokens --------------------------------------------------------- */
static char *tk_next(char **p) {
    char *s = *p;
    while (*s == ' ') s++;
    if (!*s) { *p = s; return NULL; }
    char *b = s;
    while (*s && *s != ' ') s++;
    if (*s) *s++ = 0;
    *p = s; return b;
}
/* decode \xNN escapes in place (case files carry control characters that way) */
static char *unesc(char *s) {
    char *r = s, *w = s;
    while (*r) {
        if (r[0] == '\\' && r[1] == 'x' && r[2] && r[3]) {
            char h[3] = { r[2], r[3], 0 };
            *w++ = (char)strtol(h, NULL, 16); r += 4;
        } else *w++ = *r++;
    }
    *w = 0; return s;
}
/* vectors are built with malloc/strdup only (not with the code under test) */
static int tk_vec(char **p, char ***out) {
    char *t = tk_next(p);
    if (!t) return -1;
    if (!strcmp(t, "NULL")) { *out = NULL; return 0; }
    if (strcmp(t, "[")) return -1;
    int n = 0, cap = 8; char **v = malloc(sizeof(char *) * cap);
    for (;;) {
        t = tk_next(p);
        if (!t) return -1;
        if (!strcmp(t, "]")) break;
        if (t[0] != '=') return -1;
        if (n + 2 > cap) { cap *= 2; v = realloc(v, sizeof(char *) * cap); }
        v[n++] = unesc(strdup(t + 1));
    }
    v[n] = NULL; *out = v; return 0;
}
static int tk_str(char **p, char **out) {      /* "=..." or NULL */
    char *t = tk_next(p);
    if (!t) return -1;
    if (!strcmp(t, "NULL")) { *out = NULL; return 0; }
    if (t[0] != '=') return -1;
    *out = unesc(t + 1); return 0;
}
static int tk_int(char **p, long *out) {
    char *t = tk_next(p), *e;
    if (!t) return -1;
    *out = strtol(t, &e, 10);
    return (*e || e == t) ? -1 : 0;
}
static int tk_delim(char **p, int *d) {
    char *t = tk_next(p);
    if (!t || strlen(t) != 1) return -1;
    *d = (unsigned char)t[0]; return 0;
}

#define BAD do { ob_reset(); ob_put("<bad case>", 10); return; } while (0)

#define MAXQ 64
static void do_cmd(char *p) {
    long ign;
    if (tk_int(&p, &ign)) BAD;
    parsec_cmd_line_t cmd;
    PARSEC_OBJ_CONSTRUCT(&cmd, parsec_cmd_line_t);
    char **av = NULL; int have_av = 0, nq = 0;
    char *qname[MAXQ]; long qinst[MAXQ], qidx[MAXQ];
    ob_put("mk:", 3);
    char *t = tk_next(&p);
    if (!t || strcmp(t, "|")) BAD;
    while ((t = tk_next(&p))) {
        if (!strcmp(t, "o")) {
            char *sh, *sd, *lg; long np;
            if (tk_str(&p, &sh) || !sh || tk_str(&p, &sd) || tk_str(&p, &lg) || tk_int(&p, &np)) BAD;
            int rc = parsec_cmd_line_make_opt3(&cmd, sh[0], sd, lg, (int)np, NULL);
            ob_printf(" %s", rcname(rc));
        } else if (!strcmp(t, "a")) {
            if (tk_vec(&p, &av)) BAD;
            have_av = 1;
        } else if (!strcmp(t, "q")) {
            if (nq == MAXQ) BAD;
            if (tk_str(&p, &qname[nq]) || !qname[nq] || tk_int(&p, &qinst[nq]) || tk_int(&p, &qidx[nq])
                || qinst[nq] < 0 || qidx[nq] < 0) BAD;
            nq++;
        } else if (strcmp(t, "|")) BAD;
    }
    if (!have_av) BAD;
    int prc = parsec_cmd_line_parse(&cmd, ign != 0, parsec_argv_count(av), av);
    ob_printf(" | %s | params:", rcname(prc));
    /* the private list of recognised options, in order */
    for (parsec_list_item_t *it = PARSEC_LIST_ITERATOR_FIRST(&cmd.lcl_params);
         it != PARSEC_LIST_ITERATOR_END(&cmd.lcl_params); it = PARSEC_LIST_ITERATOR_NEXT(it)) {
        cmd_line_param_t *pa = (cmd_line_param_t *)it;
        int k = 0, found = -1;
        for (parsec_list_item_t *o = PARSEC_LIST_ITERATOR_FIRST(&cmd.lcl_options);
             o != PARSEC_LIST_ITERATOR_END(&cmd.lcl_options); o = PARSEC_LIST_ITERATOR_NEXT(o), k++)
            if ((cmd_line_option_t *)o == pa->clp_option) found = k;
        ob_printf(" (%d:", found);
        for (int j = 0; j < pa->clp_argc; j++) { ob_put(" ", 1); ob_str(pa->clp_argv[j]); }
        ob_put(")", 1);
    }
    int tailc = -1; char **tailv = NULL;
    parsec_cmd_line_get_tail(&cmd, &tailc, &tailv);
    ob_printf(" | tail: %d ", tailc); ob_vec(tailv);
    ob_printf(" | argv: %d ", parsec_cmd_line_get_argc(&cmd)); ob_vec(cmd.lcl_argv);
    ob_put(" | q:", 5);
    for (int i = 0; i < nq; i++) {
        ob_printf("%s%d ", i ? " ; " : " ", parsec_cmd_line_get_ninsts(&cmd, qname[i]));
        ob_str(parsec_cmd_line_get_param(&cmd, qname[i], (int)qinst[i], (int)qidx[i]));
    }
}

static void do_case(char *line) {
    char *p = line, *op = tk_next(&p);
    int d; char *s, **v, **w; long a, b, c;
    ob_reset();
    if (!op) BAD;
    if (!strcmp(op, "split") || !strcmp(op, "splitwe")) {
        if (tk_delim(&p, &d) || tk_str(&p, &s) || !s) BAD;
        v = op[5] ? parsec_argv_split_with_empty(s, d) : parsec_argv_split(s, d);
        ob_vec(v); ob_put(" | ", 3);
        char *j = parsec_argv_join(v, d); ob_str(j);
    } else if (!strcmp(op, "join")) {
        if (tk_delim(&p, &d) || tk_vec(&p, &v)) BAD;
        char *j = parsec_argv_join(v, d);
        ob_str(j); ob_put(" | ", 3);
        ob_vec(parsec_argv_split(j, d)); ob_put(" | ", 3);
        ob_vec(parsec_argv_split_with_empty(j, d));
    } else if (!strcmp(op, "joinr")) {
        if (tk_delim(&p, &d) || tk_vec(&p, &v) || tk_int(&p, &a) || tk_int(&p, &b) || a < 0 || b < 0) BAD;
        ob_str(parsec_argv_join_range(v, (size_t)a, (size_t)b, d));
    } else if (!strcmp(op, "ins")) {
        if (tk_vec(&p, &v) || tk_int(&p, &a) || tk_vec(&p, &w)) BAD;
        int rc = parsec_argv_insert(&v, (int)a, w);
        ob_printf("%s ", rcname(rc)); ob_vec(v);
        int argc = parsec_argv_count(v);
        rc = parsec_argv_delete(&argc, &v, (int)a, parsec_argv_count(w));
        ob_printf(" | %s %d ", rcname(rc), argc); ob_vec(v);
    } else if (!strcmp(op, "inse")) {
        if (tk_vec(&p, &v) || tk_int(&p, &a) || tk_str(&p, &s)) BAD;
        int rc = parsec_argv_insert_element(&v, (int)a, s);
        ob_printf("%s ", rcname(rc)); ob_vec(v);
    } else if (!strcmp(op, "del")) {
        if (tk_int(&p, &c) || tk_vec(&p, &v) || tk_int(&p, &a) || tk_int(&p, &b)) BAD;
        int argc = (int)c;
        int rc = parsec_argv_delete(&argc, &v, (int)a, (int)b);
        ob_printf("%s %d ", rcname(rc), argc); ob_vec(v);
    } else if (!strcmp(op, "app")) {
        if (tk_vec(&p, &v) || tk_str(&p, &s) || !s) BAD;
        int argc = -7;
        int rc = parsec_argv_append(&argc, &v, s);
        ob_printf("%s %d ", rcname(rc), argc); ob_vec(v);
    } else if (!strcmp(op, "appn") || !strcmp(op, "prep")) {
        if (tk_vec(&p, &v) || tk_str(&p, &s) || !s) BAD;
        int rc = op[0] == 'a' ? parsec_argv_append_nosize(&v, s) : parsec_argv_prepend_nosize(&v, s);
        ob_printf("%s ", rcname(rc)); ob_vec(v);
    } else if (!strcmp(op, "uniq")) {
        if (tk_vec(&p, &v) || tk_str(&p, &s) || !s || tk_int(&p, &a)) BAD;
        int rc = parsec_argv_append_unique_nosize(&v, s, a != 0);
        ob_printf("%s ", rcname(rc)); ob_vec(v);
    } else if (!strcmp(op, "copy")) {
        if (tk_vec(&p, &v)) BAD;
        ob_vec(parsec_argv_copy(v));
    } else if (!strcmp(op, "count")) {
        if (tk_vec(&p, &v)) BAD;
        ob_printf("%d", parsec_argv_count(v));
    } else if (!strcmp(op, "len")) {
        if (tk_vec(&p, &v)) BAD;
        ob_printf("%zu", parsec_argv_len(v));
    } else if (!strcmp(op, "cmd")) {
        do_cmd(p);
    } else BAD;
}

int main(int argc, char **argv) {
    FILE *f = hc_open(argc, argv); char *l;
    size_t n = 0, cap = 1024; char **cases = malloc(sizeof(char *) * cap);
    while ((l = hc_next(f))) {
        if (n == cap) { cap *= 2; cases = realloc(cases, sizeof(char *) * cap); }
        cases[n++] = strdup(l);
    }
    fclose(f);
    size_t k = 0;
    while (k < n) {
        int pfd[2];
        fflush(stdout);
        if (pipe(pfd)) { perror("pipe"); return 2; }
        pid_t pid = fork();
        if (pid < 0) { perror("fork"); return 2; }
        if (pid == 0) {
            close(pfd[0]);
            int nul = open("/dev/null", O_WRONLY);
            if (nul >= 0) dup2(nul, 2);           /* the parser reports errors on stderr */
            for (size_t i = k; i < n; i++) {
                hc_alarm(10);
                do_case(cases[i]);
                ob_put("\n", 1);
                fputs(ob, stdout); fflush(stdout);
                if (write(pfd[1], "x", 1) != 1) _exit(3);
            }
            _exit(0);
        }
        close(pfd[1]);
        char buf[4096]; ssize_t r; size_t done = 0;
        while ((r = read(pfd[0], buf, sizeof buf)) > 0) done += (size_t)r;
        close(pfd[0]);
        int st = 0; waitpid(pid, &st, 0);
        k += done;
        if (k < n && !(WIFEXITED(st) && WEXITSTATUS(st) == 0)) {   /* the child died inside case k */
            if (WIFSIGNALED(st) && WTERMSIG(st) == SIGALRM) printf("<timeout>\n");
            else if (WIFSIGNALED(st)) { printf("<crash>\n"); fprintf(stderr, "case %zu: signal %d\n", k, WTERMSIG(st)); }
            else printf("<exit %d>\n", WEXITSTATUS(st));
            k++;
        }
    }
    return 0;
}
