/* C13 harness: collective activation (remote_dep.c / remote_dep_mpi.c), T-seq.
 *
 * Both repository sources are part of this translation unit, unchanged and
 * without any macro renaming, so that the following REAL functions run:
 *   parsec_remote_dep_activate, remote_dep_mark/is/reset_forwarded,
 *   remote_dep_bcast_{star,chainpipeline,binomial}_child,
 *   remote_dep_rank_to_bit / remote_dep_bit_to_rank, remote_deps_allocation_init,
 *   remote_deps_allocate / remote_deps_free, remote_dep_complete_and_cleanup,
 *   parsec_remote_dep_reconfigure (fw mask size),
 *   remote_dep_dequeue_send -> (context flag COMM_MT) remote_dep_nothread_send ->
 *   remote_dep_mpi_pack_dep -> parsec_ce.send_am,
 *   parsec_remote_dep_propagate + parsec_gather_collective_pattern on receivers.
 * NOT run: parsec_remote_dep_init (needs MPI and the comm thread); the harness stores
 * the child function into the static pointer remote_dep_bcast_child the way its
 * switch does (0 star, 1 chain, 2 binomial, anything else star).
 * Replaced (function pointers only): parsec_ce.send_am is a recorder that keeps
 * the packed wire message; parsec_ce.pack/pack_size are byte copies; the
 * termination-detection module of the fake taskpool is a no-op.
 *
 * Harness logic mirrored from the repository (kept small):
 *   - the root's remote_deps is filled as parsec_release_dep_fct (parsec.c) does
 *     for every remote successor (dst != root): rank_to_bit, rank_bits |=, count_bits++,
 *     outgoing_mask |= 1<<k, root = src_rank;
 *   - a receiver is given what remote_dep_mpi_save_activate_cb /
 *     remote_dep_mpi_retrieve_datatype / remote_dep_release_incoming leave before
 *     parsec_remote_dep_propagate: msg := the unpacked wire message, from := sender,
 *     root := rank of the producer (src_rank of iterate_successors), outgoing_mask := 0;
 *   - the fake task class' iterate_successors enumerates, for every output k whose
 *     dep_index is in the action mask, one successor per rank of set k (the same
 *     family on every rank, including successors on the root itself, as the
 *     generated code does).
 * The size announced for output k is 100+k, so the set of outputs announced to a
 * peer is read back from the data_sizes[] of the packed message.
 *
 * cases (one observation line each):
 *   sys N topo root nout | s0 | s1 ...       closed propagation from the root
 *   act N topo root me pmask omask nout | s0 | ...   one activate call on rank me
 *   bit N root rank                          remote_dep_rank_to_bit and back
 *   child topo me him                        the child predicate
 *   par topo him                             every me in [-1, him+2] with child(me, him)
 * topo: 0 star 1 chain 2 binomial, other values fall back to star; +10 = DTD taskpool (forces star)
 */
#include "parsec/remote_dep.c"
#include "parsec/remote_dep_mpi.c"
#include "hcommon.h"

#define MAXN   256
#define MAXOUT 8
#define MAXMSG 4096

static int N, ROOT, NOUT;
static unsigned char inset[MAXOUT][MAXN];

static parsec_context_t *ctx[MAXN];
static parsec_vp_t *vps[MAXN];
static parsec_execution_stream_t ess[MAXN];

static parsec_termdet_base_module_t tdm_stub;
static parsec_taskpool_t tp;
static parsec_task_class_t tc;
static parsec_flow_t flows[MAXOUT];
static parsec_dep_t fdeps[MAXOUT];
static parsec_task_t task;

static int td_load(parsec_taskpool_t *t, int v) { (void)t; (void)v; return 0; }
static int td_out_start(parsec_taskpool_t *t, int d, parsec_remote_deps_t *r) { (void)t; (void)d; (void)r; return 1; }
static int td_out_pack(parsec_taskpool_t *t, int d, char *b, int *p, int s) { (void)t; (void)d; (void)b; (void)p; (void)s; return 0; }

/* recorded wire messages */
typedef struct { int src, dst; uint32_t wmask, ann; } rec_t;
static rec_t msgs[MAXMSG];
static remote_dep_wire_activate_t wire[MAXMSG];
static int nmsg, cur_rank, overflow;

static int st_pack_size(parsec_comm_engine_t *ce, int incount, parsec_datatype_t type, int *size) {
    (void)ce; (void)type; *size = incount; return 0;
}
static int st_pack(parsec_comm_engine_t *ce, void *inbuf, int incount, parsec_datatype_t type,
                   void *outbuf, int outsize, int *position) {
    (void)ce; (void)type; (void)outsize;
    memcpy((char *)outbuf + *position, inbuf, incount); *position += incount; return 0;
}
static int st_send_am(parsec_comm_engine_t *ce, parsec_ce_tag_t tag, int dst, void *addr, size_t size) {
    (void)ce; (void)tag; (void)size;
    if (nmsg >= MAXMSG) { overflow = 1; return 0; }
    remote_dep_wire_activate_t *m = &wire[nmsg];
    memcpy(m, addr, sizeof(*m));
    uint32_t *ds = (uint32_t *)((char *)addr + sizeof(*m));
    uint32_t ann = 0;
    for (uint32_t j = 0; j < ds[0] && j < 32; j++) {
        uint32_t k = ds[j + 1] - 100;
        ann |= (k < 32) ? (1U << k) : 0x80000000U;
    }
    msgs[nmsg].src = cur_rank; msgs[nmsg].dst = dst; msgs[nmsg].wmask = (uint32_t)m->output_mask; msgs[nmsg].ann = ann;
    nmsg++;
    return 0;
}

/* the successors of the producer task: output k -> one successor on every rank of set k */
static void fake_iterate_successors(parsec_execution_stream_t *es, const parsec_task_t *t, uint32_t action_mask,
                                    parsec_ontask_function_t *ontask, void *arg) {
    parsec_task_t nc; parsec_dep_data_description_t data;
    memset(&nc, 0, sizeof(nc)); memset(&data, 0, sizeof(data));
    nc.priority = 0;
    for (int k = 0; k < NOUT; k++) {
        if (!(action_mask & (1U << fdeps[k].dep_index))) continue;
        for (int r = 0; r < N; r++)
            if (inset[k][r])
                if (PARSEC_ITERATE_STOP == ontask(es, &nc, t, &fdeps[k], &data, ROOT, r, 0, NULL, 0, arg)) return;
    }
}

static void set_payload(parsec_remote_deps_t *d) {
    for (int k = 0; k < MAXOUT; k++) {   /* a data output that is not a CONTROL, never packed inline */
        memset(&d->output[k].data, 0, sizeof(d->output[k].data));
        d->output[k].data.remote.src_datatype = parsec_datatype_int8_t;
        d->output[k].data.remote.src_count = 100 + k;
    }
}

static void settle(parsec_remote_deps_t *d) {
    /* the data of the outputs sent on demand would be fetched later: complete them now */
    if (d->pending_ack > 0) { parsec_remote_deps_t *x = d; remote_dep_complete_and_cleanup(&x, d->pending_ack); }
}

static void select_topo(int topo) {
    tp.taskpool_type = (topo >= 10) ? PARSEC_TASKPOOL_TYPE_DTD : PARSEC_TASKPOOL_TYPE_PTG;
    switch (topo % 10) {       /* mirrors the switch of parsec_remote_dep_init */
    case 0: remote_dep_bcast_child = remote_dep_bcast_star_child; break;
    case 1: remote_dep_bcast_child = remote_dep_bcast_chainpipeline_child; break;
    case 2: remote_dep_bcast_child = remote_dep_bcast_binomial_child; break;
    default: remote_dep_bcast_child = remote_dep_bcast_star_child; break;
    }
}

/* the selection made in parsec_remote_dep_activate: DTD taskpools always use the star predicate */
static int the_child(int me, int him) {
    if (PARSEC_TASKPOOL_TYPE_DTD == tp.taskpool_type) return remote_dep_bcast_star_child(me, him);
    return remote_dep_bcast_child(me, him);
}

static void setup(int n) {
    static int cur_n = -1;
    if (n == cur_n) return;
    for (int r = 0; r < n; r++) {
        if (!ctx[r]) {
            ctx[r] = calloc(1, sizeof(parsec_context_t) + 64);
            vps[r] = calloc(1, sizeof(parsec_vp_t) + 64);
        }
        ctx[r]->my_rank = r; ctx[r]->nb_nodes = n; ctx[r]->flags |= PARSEC_CONTEXT_FLAG_COMM_MT;
        parsec_remote_dep_reconfigure(ctx[r]);      /* real: remote_dep_fw_mask_sizeof */
        vps[r]->parsec_context = ctx[r];
        ess[r].virtual_process = vps[r];
    }
    remote_deps_allocation_fini();
    remote_deps_allocation_init(n, MAXOUT);         /* real: max_nodes_number drives the bit mapping */
    cur_n = n;
}

static int parse_sets(char **p) {
    memset(inset, 0, sizeof(inset));
    for (int k = 0; k < NOUT; k++) {
        long v[MAXN]; int c = hc_ints(p, v, MAXN);
        for (int i = 0; i < c; i++) { if (v[i] < 0 || v[i] >= N) return 0; inset[k][v[i]] = 1; }
    }
    return 1;
}

/* one real activation on rank me; as_root: deps filled as parsec_release_dep_fct does */
static void root_activate(void) {
    parsec_remote_deps_t *d = remote_deps_allocate(&parsec_remote_dep_context.freelist);
    set_payload(d);
    for (int k = 0; k < NOUT; k++)
        for (int r = 0; r < N; r++) {
            if (!inset[k][r] || r == ROOT) continue;
            uint32_t pos, bit;
            remote_dep_rank_to_bit(r, &pos, &bit, ROOT);
            d->root = ROOT;
            d->outgoing_mask |= (1U << k);
            if (!(d->output[k].rank_bits[pos] & (1U << bit))) {
                d->output[k].rank_bits[pos] |= (1U << bit);
                d->output[k].deps_mask |= (1U << k);
                d->output[k].count_bits++;
            }
        }
    if (0 == d->outgoing_mask) { remote_deps_free(d); return; }   /* no remote successor: activate is not called */
    cur_rank = ROOT;
    parsec_remote_dep_activate(&ess[ROOT], &task, d, d->outgoing_mask);
    settle(d);
}

static void relay_activate(int me, int from, const remote_dep_wire_activate_t *m) {
    parsec_remote_deps_t *d = remote_deps_allocate(&parsec_remote_dep_context.freelist);
    set_payload(d);
    d->msg = *m; d->from = from; d->root = ROOT; d->outgoing_mask = 0; d->taskpool = NULL;
    cur_rank = me;
    if (tp.taskpool_type == PARSEC_TASKPOOL_TYPE_PTG)       /* remote_dep_release_incoming propagates PTG only */
        parsec_remote_dep_propagate(&ess[me], &task, d);
    else { d->taskpool = NULL; remote_deps_free(d); return; }
    settle(d);
}

int main(int argc, char **argv) {
    FILE *f = hc_open(argc, argv); char *l;
    tdm_stub.taskpool_addto_runtime_actions = td_load;
    tdm_stub.outgoing_message_start = td_out_start;
    tdm_stub.outgoing_message_pack = td_out_pack;
    tdm_stub.outgoing_message_piggyback_size = 0;
    tp.tdm.module = &tdm_stub; tp.taskpool_id = 7; tp.taskpool_type = PARSEC_TASKPOOL_TYPE_PTG;
    tc.task_class_id = 0; tc.nb_locals = 0; tc.iterate_successors = fake_iterate_successors;
    for (int k = 0; k < MAXOUT; k++) {
        flows[k].flow_index = k; flows[k].flow_datatype_mask = 1U << k; flows[k].dep_out[0] = &fdeps[k];
        fdeps[k].dep_index = k; fdeps[k].dep_datatype_index = k; fdeps[k].belongs_to = &flows[k];
    }
    task.taskpool = &tp; task.task_class = &tc;
    parsec_ce.send_am = st_send_am; parsec_ce.pack = st_pack; parsec_ce.pack_size = st_pack_size;
    parsec_param_short_limit = 0;            /* runtime_comm_short_limit=0: every payload is fetched on demand */
    while ((l = hc_next(f))) {
        long v[8]; char *p = l;
        while (*p && *p != ' ') p++;
        if (!strncmp(l, "sys ", 4)) {
            int k = hc_ints(&p, v, 8);
            if (k != 4 || v[0] < 1 || v[0] > MAXN || v[2] < 0 || v[2] >= v[0] || v[3] < 0 || v[3] > MAXOUT) { printf("<bad case>\n"); continue; }
            N = v[0]; ROOT = v[2]; NOUT = v[3];
            if (!parse_sets(&p)) { printf("<bad case>\n"); continue; }
            setup(N); select_topo((int)v[1]);
            for (int i = 0; i < MAXOUT; i++) tc.out[i] = (i < NOUT) ? &flows[i] : NULL;
            parsec_comm_es.virtual_process = vps[0];
            nmsg = 0; overflow = 0;
            int head = 0, first = 0, limit = 4 * N + 16;
            root_activate();
            printf("%d<-1:", ROOT);
            for (int i = first; i < nmsg; i++) printf(" %d/%u/%u", msgs[i].dst, msgs[i].ann, msgs[i].wmask);
            printf(";");
            while (head < nmsg && head < limit) {
                int me = msgs[head].dst, from = msgs[head].src; first = nmsg;
                if (me < 0 || me >= N) { printf(" <dst out of range %d>", me); head++; continue; }
                relay_activate(me, from, &wire[head]); head++;
                printf(" %d<%d:", me, from);
                for (int i = first; i < nmsg; i++) printf(" %d/%u/%u", msgs[i].dst, msgs[i].ann, msgs[i].wmask);
                printf(";");
            }
            if (head < nmsg || overflow) printf(" OVERFLOW");
            printf("\n");
        } else if (!strncmp(l, "act ", 4)) {
            int k = hc_ints(&p, v, 8);
            if (k != 7 || v[0] < 1 || v[0] > MAXN || v[2] < 0 || v[2] >= v[0] || v[3] < 0 || v[3] >= v[0] || v[6] < 0 || v[6] > MAXOUT) { printf("<bad case>\n"); continue; }
            N = v[0]; ROOT = v[2]; NOUT = v[6];
            int me = v[3]; uint32_t pm = (uint32_t)v[4] & ((1U << NOUT) - 1), om = (uint32_t)v[5] & ((1U << NOUT) - 1);
            if (!parse_sets(&p)) { printf("<bad case>\n"); continue; }
            setup(N); select_topo((int)v[1]);
            for (int i = 0; i < MAXOUT; i++) tc.out[i] = (i < NOUT) ? &flows[i] : NULL;
            parsec_comm_es.virtual_process = vps[0];
            nmsg = 0; overflow = 0;
            parsec_remote_deps_t *d = remote_deps_allocate(&parsec_remote_dep_context.freelist);
            set_payload(d);
            d->root = ROOT; d->outgoing_mask = om;
            for (int o = 0; o < NOUT; o++)
                for (int r = 0; r < N; r++) if (inset[o][r]) {
                    uint32_t pos, bit; remote_dep_rank_to_bit(r, &pos, &bit, ROOT);
                    d->output[o].rank_bits[pos] |= (1U << bit); d->output[o].count_bits++;
                }
            /* outputs of the outgoing mask must have participants (complete_and_cleanup asserts it; harmless) */
            cur_rank = me;
            parsec_remote_dep_activate(&ess[me], &task, d, pm);
            settle(d);
            printf("act:");
            for (int i = 0; i < nmsg; i++) printf(" %d/%u/%u", msgs[i].dst, msgs[i].ann, msgs[i].wmask);
            printf("\n");
        } else if (!strncmp(l, "bit ", 4)) {
            int k = hc_ints(&p, v, 8);
            if (k != 3 || v[0] < 1 || v[0] > 2147483647L || v[1] < 0 || v[1] >= v[0] || v[2] < 0 || v[2] >= v[0]) { printf("<bad case>\n"); continue; }
            uint32_t save = parsec_remote_dep_context.max_nodes_number, bank, bit; int back;
            parsec_remote_dep_context.max_nodes_number = (uint32_t)v[0];
            remote_dep_rank_to_bit((int)v[2], &bank, &bit, (int)v[1]);
            remote_dep_bit_to_rank(&back, bank, bit, (int)v[1]);
            parsec_remote_dep_context.max_nodes_number = save;
            printf("bit: %u %u %d\n", bank, bit, back);
        } else if (!strncmp(l, "child ", 6)) {
            int k = hc_ints(&p, v, 8);
            if (k != 3) { printf("<bad case>\n"); continue; }
            select_topo((int)v[0]);
            printf("child: %d\n", the_child((int)v[1], (int)v[2]) ? 1 : 0);
        } else if (!strncmp(l, "par ", 4)) {
            int k = hc_ints(&p, v, 8);
            if (k != 2 || v[1] < 0 || v[1] > 1000000) { printf("<bad case>\n"); continue; }
            select_topo((int)v[0]);
            printf("par:");
            for (int me = -1; me <= (int)v[1] + 2; me++)
                if (the_child(me, (int)v[1])) printf(" %d", me);
            printf("\n");
        } else printf("<bad case>\n");
    }
    return 0;
}
