/* C14 harness: drives the public communication-engine API (parsec_ce.*) of the real
 * libparsec on 2..4 MPI ranks and records what the engine delivers.
 *
 *   mpiexec -n k h_ce <casefile> <outprefix> [caseindex]
 *
 * Every rank reads the same case (one line), runs its own script, and writes
 * <outprefix>.<rank>.  The plugin (checks/C14.py) launches mpiexec and merges the files.
 *
 * case line:
 *   ce k P T D R ub hseed hide maxlen | script of rank 0 | script of rank 1 | ...
 *     k      number of ranks          P,T  runtime_comm_mpi_am_posted/tested_requests
 *     D,R    runtime_comm_mpi_dynamic(_recv)_requests        ub   mpi_tag_ub (-1: MPI's)
 *     hseed,hide  the Testsome oracle: every non-null slot of every MPI_Testsome call is hidden
 *            (its completion is not reported by this call) with probability hide/1000; hide = -1: exactly one
 *            completion is withheld once (see MPI_Testsome below)
 *     maxlen registered message length of the user AM tags
 *   script tokens (blank separated):
 *     a<tag>:<dst>:<size>   send_am of <size> bytes (>= 24) on user tag <tag> to rank <dst>
 *     p<dst>:<size>         put  <size> bytes into a buffer of rank <dst>
 *     g<dst>:<size>         get  <size> bytes from a buffer of rank <dst>
 *     w<n>                  n calls of ce->progress
 *     z<ms>                 sleep (no MPI call)
 *     a trailing '!' on a/p/g defers the operation: it is issued from inside the next
 *     harness callback that runs on this rank (or at the end of the script)
 *
 * No change to /repo: the MPI calls of libparsec are observed (and the Testsome results
 * thinned) through the standard MPI profiling interface: this executable defines
 * MPI_Testsome, MPI_Recv_init, MPI_Start(all), MPI_Isend, MPI_Irecv, MPI_Send and forwards
 * to PMPI_*.  A thinned Testsome is a legal MPI behaviour (a completion that the
 * library has not noticed yet).
 *
 * output file of a rank (text lines):
 *   tags t0 t1 ...                 AM tags for which persistent receives were created, P per tag
 *   S <names of slots 0..incount-1>   the request array at the entry of a Testsome call that reported something
 *   T <idx>:<name> ...             what that call reported
 *   c / e                          a harness callback starts / returns
 *   P / G                          the harness calls ce->put / ce->get
 *   X <tag>                        MPI tag allocated by the engine for a put/get of this rank (from the handshake AM)
 *   am <tag> <src> <opid> <len> <ok> <pseq> <seq>   user AM delivered: opid = index of the send in the sender's script,
 *                                  ok = bytes identical to what was sent, pseq = how many receives of this tag were started
 *                                  before the one that got the message, seq = how many AMs the sender had sent on (tag, dst) before
 *   pl <id> <remote> | pr <id> <src> <len> <ok> | gl <id> <remote> <ok> | gr <id>   one-sided callbacks
 *   F <names>                      final request array
 *   end <status>                   ok | TIMEOUT ... | ...
 */
#include "hcommon.h"
#include <mpi.h>
#include <stdarg.h>
#include <signal.h>
#include <unistd.h>
#include <time.h>
#include "parsec/runtime.h"
#include "parsec/parsec_comm_engine.h"

static int me = -1, world = 0;
static char outpath[4096];

/* ---------------- log ---------------- */
static char *lg; static size_t lgn, lgcap;
static void L(const char *fmt, ...) {
    va_list ap;
    if (lgcap - lgn < 4096) { lgcap = lgcap ? 2 * lgcap : (1 << 20); lg = realloc(lg, lgcap); }
    va_start(ap, fmt); lgn += vsnprintf(lg + lgn, lgcap - lgn, fmt, ap); va_end(ap);
}
static void flush_log(const char *status) {
    FILE *o = fopen(outpath, "w");
    if (!o) return;
    if (lgn) fwrite(lg, 1, lgn, o);
    fprintf(o, "end %s\n", status);
    fclose(o);
}
static volatile long records = 0;    /* number of callback records so far (stall detection) */
#define WATCHDOG 150                 /* seconds without any callback or phase change before a rank gives up */

/* ---------------- deterministic bytes ---------------- */
static uint64_t sm64(uint64_t *s) { uint64_t z = (*s += 0x9E3779B97F4A7C15ULL); z = (z ^ (z >> 30)) * 0xBF58476D1CE4E5B9ULL; z = (z ^ (z >> 27)) * 0x94D049BB133111EBULL; return z ^ (z >> 31); }
static void fill(unsigned char *b, size_t n, uint64_t key) {
    uint64_t s = key * 0x9E3779B97F4A7C15ULL + 12345; size_t i = 0;
    while (i < n) { uint64_t v = sm64(&s); for (int j = 0; j < 8 && i < n; j++, i++) b[i] = (unsigned char)(v >> (8 * j)); }
}
static int same(const unsigned char *b, size_t n, uint64_t key) {
    uint64_t s = key * 0x9E3779B97F4A7C15ULL + 12345; size_t i = 0;
    while (i < n) { uint64_t v = sm64(&s); for (int j = 0; j < 8 && i < n; j++, i++) if (b[i] != (unsigned char)(v >> (8 * j))) return 0; }
    return 1;
}

/* ---------------- PMPI layer ---------------- */
#define MAXTAGS 12
#define MAXP 256
#define MAXSLOTS 4096
#define MAXDYN 8192
static int tracing = 0;
static MPI_Request pers[MAXTAGS][MAXP]; static int npers[MAXTAGS];
static void *pbuf[MAXTAGS][MAXP];
static long pseq_of[MAXTAGS][MAXP], pseq_next[MAXTAGS];
static struct { MPI_Request h; char kind; long n; } dyn[MAXDYN]; static int ndyn;
static long nisend, nirecv;
/* data sends in the order the engine decided to make them (a put of this rank: at its handshake AM; the answer to a
 * peer's get: when the GET handshake is reported).  A send that had to wait in the pending FIFO reaches MPI_Isend
 * later; it is named after its place in this list, found again by (destination, tag). */
static struct { int dst, tag, installed; } sissue[MAXDYN]; static int nsissue;
static void send_issued(int dst, int tag) { if (nsissue < MAXDYN) { sissue[nsissue].dst = dst; sissue[nsissue].tag = tag; sissue[nsissue].installed = 0; nsissue++; } }
static uint64_t hstate; static int hide_pm;
static int hide_fired;
static int dirty;   /* the harness issued a put/get since the last logged Testsome */
/* queue of reported AM completions (tag, pseq), consumed by the user AM callback */
static char snap[MAXSLOTS * 16];
static struct { int tag; long pseq; } repq[MAXSLOTS * 4]; static int repq_h, repq_t;

static int pers_find(MPI_Request r, int *tag, int *i) {
    for (int t = 0; t < MAXTAGS; t++) for (int k = 0; k < npers[t]; k++) if (pers[t][k] == r) { *tag = t; *i = k; return 1; }
    return 0;
}
static int name_of(MPI_Request r, char *buf) {
    int t, i;
    if (r == MPI_REQUEST_NULL) { strcpy(buf, "-"); return 0; }
    if (pers_find(r, &t, &i)) { sprintf(buf, "a%d.%d", t, i); return 1; }
    for (int k = 0; k < ndyn; k++) if (dyn[k].h == r) { sprintf(buf, "%c%ld", dyn[k].kind, dyn[k].n); return 2; }
    strcpy(buf, "?"); return 3;
}
static void dyn_add(MPI_Request r, char kind, long n) {
    if (ndyn < MAXDYN) { dyn[ndyn].h = r; dyn[ndyn].kind = kind; dyn[ndyn].n = n; ndyn++; }
}
static void dyn_del(MPI_Request r) {
    for (int k = 0; k < ndyn; k++) if (dyn[k].h == r) { dyn[k] = dyn[--ndyn]; return; }
}

int MPI_Recv_init(void *buf, int count, MPI_Datatype dt, int src, int tag, MPI_Comm comm, MPI_Request *req) {
    int rc = PMPI_Recv_init(buf, count, dt, src, tag, comm, req);
    if (tracing && tag >= 0 && tag < MAXTAGS && npers[tag] < MAXP) { pbuf[tag][npers[tag]] = buf; pers[tag][npers[tag]++] = *req; }
    return rc;
}
static void posted(MPI_Request r) {
    int t, i;
    if (pers_find(r, &t, &i)) pseq_of[t][i] = pseq_next[t]++;
}
int MPI_Start(MPI_Request *req) {
    if (tracing) posted(*req);
    return PMPI_Start(req);
}
int MPI_Startall(int n, MPI_Request reqs[]) {
    /* MPI leaves the order unspecified; Open MPI starts them in array order (assumption of the model) */
    if (tracing) for (int i = 0; i < n; i++) posted(reqs[i]);
    return PMPI_Startall(n, reqs);
}
/* Open MPI hands out one shared, already completed request for every send it could push inline; two live
 * sends must have two handles for the recording, so a duplicate is replaced by a completed generalized request */
static int gq_query(void *x, MPI_Status *st) { (void)x; PMPI_Status_set_elements(st, MPI_BYTE, 0); PMPI_Status_set_cancelled(st, 0);
                                               st->MPI_SOURCE = MPI_UNDEFINED; st->MPI_TAG = MPI_UNDEFINED; return MPI_SUCCESS; }
static int gq_free(void *x) { (void)x; return MPI_SUCCESS; }
static int gq_cancel(void *x, int c) { (void)x; (void)c; return MPI_SUCCESS; }
int MPI_Isend(const void *buf, int count, MPI_Datatype dt, int dst, int tag, MPI_Comm comm, MPI_Request *req) {
    int rc = PMPI_Isend(buf, count, dt, dst, tag, comm, req);
    if (tracing) {
        for (int k = 0; k < ndyn; k++) if (dyn[k].h == *req) { PMPI_Grequest_start(gq_query, gq_free, gq_cancel, NULL, req); PMPI_Grequest_complete(*req); break; }
        long n = -1;
        for (int k = 0; k < nsissue; k++) if (!sissue[k].installed && sissue[k].dst == dst && sissue[k].tag == tag) { sissue[k].installed = 1; n = k; break; }
        if (n < 0) n = 100000 + nisend;      /* a send the recording did not see coming */
        nisend++;
        dyn_add(*req, 's', n);
    }
    return rc;
}
int MPI_Irecv(void *buf, int count, MPI_Datatype dt, int src, int tag, MPI_Comm comm, MPI_Request *req) {
    int rc = PMPI_Irecv(buf, count, dt, src, tag, comm, req);
    if (tracing) dyn_add(*req, 'r', nirecv++);
    return rc;
}
int MPI_Send(const void *buf, int count, MPI_Datatype dt, int dst, int tag, MPI_Comm comm) {
    /* handshake AMs of put (tag 1) and get (tag 0) start with the MPI tag the engine allocated */
    if (tracing && (tag == 0 || tag == 1) && count >= (int)sizeof(int)) {
        L("X %d\n", *(const int *)buf);
        if (tag == 1) send_issued(dst, *(const int *)buf);
    }
    return PMPI_Send(buf, count, dt, dst, tag, comm);
}
int MPI_Testsome(int incount, MPI_Request reqs[], int *outcount, int idx[], MPI_Status st[]) {
    static MPI_Request tmp[MAXSLOTS];
    static char names[MAXSLOTS][16];
    if (!tracing || incount > MAXSLOTS) return PMPI_Testsome(incount, reqs, outcount, idx, st);
    size_t sn = 0; snap[0] = 0;
    for (int i = 0; i < incount; i++) {
        name_of(reqs[i], names[i]);
        sn += sprintf(snap + sn, " %s", names[i]);
        tmp[i] = reqs[i];
        if (hide_pm > 0 && reqs[i] != MPI_REQUEST_NULL && (int)(sm64(&hstate) % 1000) < hide_pm) tmp[i] = MPI_REQUEST_NULL;
    }
    if (hide_pm == -1 && !hide_fired) {
        /* scripted thinning, once: two receives of one user tag are complete, their messages come from two different
         * processes; the one in the lower slot is not reported by this call (legal: MPI orders neither the completion
         * nor the notification of messages of different sources) */
        for (int i = 0; i < incount && !hide_fired; i++) {
            int ti, ki, fi = 0; MPI_Status si;
            if (!pers_find(reqs[i], &ti, &ki) || ti < 7) continue;
            PMPI_Request_get_status(reqs[i], &fi, &si);
            if (!fi) continue;
            for (int j = i + 1; j < incount; j++) {
                int tj, kj, fj = 0; MPI_Status sj;
                if (!pers_find(reqs[j], &tj, &kj) || tj != ti) continue;
                PMPI_Request_get_status(reqs[j], &fj, &sj);
                if (fj && sj.MPI_SOURCE != si.MPI_SOURCE) { tmp[i] = MPI_REQUEST_NULL; hide_fired = 1; L("H %d\n", i); break; }
            }
        }
    }
    int rc = PMPI_Testsome(incount, tmp, outcount, idx, st);
    if (*outcount == MPI_UNDEFINED) *outcount = 0;      /* every active request was hidden */
    if (*outcount > 0 || dirty) {
        dirty = 0;
        L("S%s\n", snap);
        L("T");
        for (int j = 0; j < *outcount; j++) {
            int i = idx[j], t, k;
            L(" %d:%s", i, names[i]);
            if (pers_find(reqs[i], &t, &k)) {
                if (t == 0) send_issued(st[j].MPI_SOURCE, *(int *)pbuf[0][k]);   /* GET handshake: the engine will send */
                repq[repq_t].tag = t; repq[repq_t].pseq = pseq_of[t][k]; repq_t = (repq_t + 1) % (MAXSLOTS * 4);
            } else dyn_del(reqs[i]);
            reqs[i] = tmp[i];
        }
        L("\n");
    }
    return rc;
}

/* ---------------- the case ---------------- */
typedef struct { char kind; int tag, dst; long size; int defer; long n; int xfer; int opid; } op_t;
#define HDR 24
typedef struct { char kind; int origin, target; long size; unsigned char *buf; parsec_ce_mem_reg_handle_t reg; } xfer_t;
#define MAXOPS 20000
static op_t ops[MAXOPS]; static int nops;
static xfer_t xf[MAXOPS]; static int nxf;
static int K, P, T, D, R, UB, HIDE, MAXLEN; static long HSEED;
static long exp_am, exp_pl, exp_pr, exp_gl, exp_gr, got_am, got_pl, got_pr, got_gl, got_gr;
static long amseq[MAXTAGS][8];   /* next sequence number per (tag, dst), assigned when the send is issued */
static unsigned char *hcopy;  /* handles of every transfer's target side, nxf * hsz bytes */
static int hsz;
static uint64_t rfn_put[64], rfn_get[64];
static parsec_comm_engine_t *ce;
static int deferred[MAXOPS], ndef, defhead;
#define GUARD 16

static void do_op(op_t *o);
static void run_deferred_one(void) { if (defhead < ndef) do_op(&ops[deferred[defhead++]]); }

static int am_cb(parsec_comm_engine_t *e, parsec_ce_tag_t tag, void *msg, size_t msg_size, int src, void *cb_data) {
    (void)e; (void)cb_data;
    L("c\n");
    long pseq = -1;
    while (repq_h != repq_t) { int t = repq[repq_h].tag; long p = repq[repq_h].pseq; repq_h = (repq_h + 1) % (MAXSLOTS * 4); if (t == (int)tag) { pseq = p; break; } }
    /* a callback may send before it has finished reading its message: the deferred operation (if any)
     * goes first, the bytes are checked afterwards */
    run_deferred_one();
    int32_t h[6] = { -1, -1, -1, -1, -1, -1 };
    if (msg_size >= HDR) memcpy(h, msg, HDR);
    int ok = (msg_size >= HDR) && h[0] == src && h[1] == (int)tag && h[3] == (int)msg_size && h[5] == me
             && same((unsigned char *)msg + HDR, msg_size - HDR, ((uint64_t)h[0] << 48) ^ ((uint64_t)h[1] << 40) ^ ((uint64_t)(uint32_t)h[4] << 8) ^ (uint64_t)me);
    L("am %d %d %d %ld %d %ld %d\n", (int)tag, src, h[4], (long)msg_size, ok, pseq, h[2]);
    got_am++; records++; alarm(WATCHDOG);
    L("e\n");
    return 1;
}
static int put_l_cb(parsec_comm_engine_t *e, parsec_ce_mem_reg_handle_t lreg, ptrdiff_t ld, parsec_ce_mem_reg_handle_t rreg,
                    ptrdiff_t rd, size_t size, int remote, void *cb_data) {
    (void)e; (void)lreg; (void)ld; (void)rreg; (void)rd; (void)size;
    L("c\n"); L("pl %ld %d\n", (long)(intptr_t)cb_data, remote); got_pl++; records++; alarm(WATCHDOG);
    run_deferred_one();
    L("e\n");
    return 1;
}
static int check_xfer(int id) {
    xfer_t *x = &xf[id];
    unsigned char g[GUARD]; memset(g, 0xA5, GUARD);
    return same(x->buf, x->size, 0xC0FFEEULL + id) && !memcmp(x->buf + x->size, g, GUARD);
}
static int put_r_cb(parsec_comm_engine_t *e, parsec_ce_tag_t tag, void *msg, size_t msg_size, int src, void *cb_data) {
    (void)e; (void)tag; (void)cb_data;
    L("c\n");
    int id = -1; memcpy(&id, msg, sizeof id);
    int ok = (id >= 0 && id < nxf && xf[id].target == me && xf[id].kind == 'p') ? check_xfer(id) : 0;
    L("pr %d %d %ld %d\n", id, src, (long)msg_size, ok); got_pr++; records++; alarm(WATCHDOG);
    run_deferred_one();
    L("e\n");
    return 1;
}
static int get_l_cb(parsec_comm_engine_t *e, parsec_ce_mem_reg_handle_t lreg, ptrdiff_t ld, parsec_ce_mem_reg_handle_t rreg,
                    ptrdiff_t rd, size_t size, int remote, void *cb_data) {
    (void)e; (void)lreg; (void)ld; (void)rreg; (void)rd; (void)size;
    L("c\n");
    int id = (int)(intptr_t)cb_data;
    L("gl %d %d %d\n", id, remote, check_xfer(id)); got_gl++; records++; alarm(WATCHDOG);
    run_deferred_one();
    L("e\n");
    return 1;
}
static int get_r_cb(parsec_comm_engine_t *e, parsec_ce_tag_t tag, void *msg, size_t msg_size, int src, void *cb_data) {
    (void)e; (void)tag; (void)cb_data; (void)msg_size;
    L("c\n");
    int id = -1; memcpy(&id, msg, sizeof id);
    (void)src;   /* the status of a completed send carries no source: the engine passes an undefined value here */
    L("gr %d\n", id); got_gr++; records++; alarm(WATCHDOG);
    run_deferred_one();
    L("e\n");
    return 1;
}

static void do_op(op_t *o) {
    if (o->kind == 'a') {
        unsigned char *b = malloc(o->size);
        o->n = amseq[o->tag][o->dst]++;
        int32_t h[6] = { me, o->tag, (int32_t)o->n, (int32_t)o->size, o->opid, o->dst };
        memcpy(b, h, HDR);
        fill(b + HDR, o->size - HDR, ((uint64_t)me << 48) ^ ((uint64_t)o->tag << 40) ^ ((uint64_t)(uint32_t)o->opid << 8) ^ (uint64_t)o->dst);
        ce->send_am(ce, o->tag, o->dst, b, o->size);
        memset(b, 0x5A, o->size);          /* the engine must not depend on the buffer after send_am returns */
        free(b);
    } else if (o->kind == 'p') {
        int id = o->xfer;
        L("P\n"); dirty = 1;
        ce->put(ce, xf[id].reg, 0, hcopy + (size_t)id * hsz, 0, xf[id].size, o->dst,
                put_l_cb, (void *)(intptr_t)id, (parsec_ce_tag_t)rfn_put[o->dst], &id, sizeof id);
    } else if (o->kind == 'g') {
        int id = o->xfer;
        L("G\n"); dirty = 1;
        ce->get(ce, xf[id].reg, 0, hcopy + (size_t)id * hsz, 0, xf[id].size, o->dst,
                get_l_cb, (void *)(intptr_t)id, (parsec_ce_tag_t)rfn_get[o->dst], &id, sizeof id);
    }
}

static void on_alarm(int s) { (void)s; flush_log("TIMEOUT alarm"); _exit(3); }
static void on_term(int s) { (void)s; flush_log("KILLED (another rank gave up)"); _exit(4); }

static int parse_case(char *l) {
    long v[16]; char *p = l;
    if (strncmp(p, "ce ", 3)) return 0;
    p += 3;
    if (hc_ints(&p, v, 16) != 9) return 0;
    K = v[0]; P = v[1]; T = v[2]; D = v[3]; R = v[4]; UB = v[5]; HSEED = v[6]; HIDE = v[7]; MAXLEN = v[8];
    if (K < 1 || K > 8) return 0;
    /* p now points after the first '|' */
    for (int r = 0; r < K; r++) {
        char *e = strchr(p, '|'); if (e) *e = 0;
        int opid = 0;
        for (char *tok = strtok(p, " "); tok; tok = strtok(NULL, " ")) {
            op_t o; memset(&o, 0, sizeof o); o.kind = tok[0]; o.opid = opid++;
            size_t n = strlen(tok);
            if (tok[n - 1] == '!') { o.defer = 1; tok[n - 1] = 0; }
            if (o.kind == 'a') { if (sscanf(tok + 1, "%d:%d:%ld", &o.tag, &o.dst, &o.size) != 3) return 0;
                                 if (o.tag < 0 || o.tag >= MAXTAGS || o.dst < 0 || o.dst >= K || o.size < HDR) return 0;
                                 }
            else if (o.kind == 'p' || o.kind == 'g') { if (sscanf(tok + 1, "%d:%ld", &o.dst, &o.size) != 2) return 0;
                                 if (o.dst < 0 || o.dst >= K || o.size < 0) return 0;
                                 o.xfer = nxf; xf[nxf].kind = o.kind; xf[nxf].origin = r; xf[nxf].target = o.dst; xf[nxf].size = o.size; nxf++; }
            else if (o.kind == 'w' || o.kind == 'z') { o.n = atol(tok + 1); }
            else return 0;
            /* expectations are only used to decide when this rank may stop progressing */
            if (o.kind == 'a' && o.dst == me) exp_am++;
            if (o.kind == 'p') { if (r == me) exp_pl++; if (o.dst == me) exp_pr++; }
            if (o.kind == 'g') { if (r == me) exp_gl++; if (o.dst == me) exp_gr++; }
            if (r == me && nops < MAXOPS) ops[nops++] = o;
        }
        if (!e) { if (r != K - 1) return 0; break; }
        p = e + 1;
    }
    return 1;
}

int main(int argc, char **argv) {
    int prov;
    MPI_Init_thread(&argc, &argv, MPI_THREAD_MULTIPLE, &prov);
    MPI_Comm_size(MPI_COMM_WORLD, &world); MPI_Comm_rank(MPI_COMM_WORLD, &me);
    if (argc < 3) { if (!me) fprintf(stderr, "usage: h_ce casefile outprefix [caseindex]\n"); MPI_Finalize(); return 2; }
    snprintf(outpath, sizeof outpath, "%s.%d", argv[2], me);
    int want = argc > 3 ? atoi(argv[3]) : 0;
    FILE *f = hc_open(argc, argv); char *l = NULL;
    for (int i = 0; i <= want; i++) l = hc_next(f);
    if (!l || !parse_case(l) || K != world) { flush_log("bad case"); MPI_Finalize(); return 0; }
    signal(SIGALRM, on_alarm);
    signal(SIGTERM, on_term);
    alarm(WATCHDOG);

    char b[64];
    snprintf(b, sizeof b, "%d", P); setenv("PARSEC_MCA_runtime_comm_mpi_am_posted_requests", b, 1);
    snprintf(b, sizeof b, "%d", T); setenv("PARSEC_MCA_runtime_comm_mpi_am_tested_requests", b, 1);
    snprintf(b, sizeof b, "%d", D); setenv("PARSEC_MCA_runtime_comm_mpi_dynamic_requests", b, 1);
    snprintf(b, sizeof b, "%d", R); setenv("PARSEC_MCA_runtime_comm_mpi_dynamic_recv_requests", b, 1);
    snprintf(b, sizeof b, "%d", UB); setenv("PARSEC_MCA_mpi_tag_ub", b, 1);
    int pargc = 0; char **pargv = NULL;
    parsec_context_t *ctx = parsec_init(1, &pargc, &pargv);
    if (!ctx) { flush_log("parsec_init failed"); MPI_Abort(MPI_COMM_WORLD, 3); }
    ce = &parsec_ce;
    alarm(WATCHDOG);
    /* user tags: every tag named by the case; registered before enable (the only place where
     * the request arrays are built) */
    int used[MAXTAGS] = { 0 };
    { /* all ranks must register the same tags: re-scan the whole case text is not possible (strtok), so
       * register the fixed user range 7..11 */
        for (int t = 7; t < MAXTAGS; t++) used[t] = 1; }
    for (int t = 0; t < MAXTAGS; t++) if (used[t]) ce->tag_register(t, am_cb, NULL, MAXLEN);
    hstate = (uint64_t)HSEED * 1000003ULL + me; hide_pm = 0;
    tracing = 1;
    ce->enable(ce);
    L("tags");
    for (int t = 0; t < MAXTAGS; t++) if (npers[t]) L(" %d:%d", t, npers[t]);
    L("\n");

    /* buffers and memory handles of the one-sided transfers */
    hsz = ce->get_mem_handle_size();
    hcopy = calloc((size_t)(nxf ? nxf : 1), hsz);
    for (int i = 0; i < nxf; i++) {
        xfer_t *x = &xf[i];
        if (x->origin != me && x->target != me) continue;
        x->buf = malloc(x->size + GUARD);
        int src_side = (x->kind == 'p') ? (x->origin == me) : (x->target == me);
        if (x->origin == x->target) { /* self transfer: two buffers would be needed; generator never does this */ }
        if (src_side) fill(x->buf, x->size, 0xC0FFEEULL + i); else memset(x->buf, 0xEE, x->size);
        memset(x->buf + x->size, 0xA5, GUARD);
        size_t rs;
        ce->mem_register(x->buf, PARSEC_MEM_TYPE_NONCONTIGUOUS, x->size, MPI_BYTE, x->size, &x->reg, &rs);
        if (x->target == me) memcpy(hcopy + (size_t)i * hsz, x->reg, hsz);
    }
    if (nxf) MPI_Allreduce(MPI_IN_PLACE, hcopy, nxf * hsz, MPI_BYTE, MPI_BOR, MPI_COMM_WORLD);
    uint64_t mine = (uint64_t)(uintptr_t)put_r_cb;
    MPI_Allgather(&mine, 1, MPI_UINT64_T, rfn_put, 1, MPI_UINT64_T, MPI_COMM_WORLD);
    mine = (uint64_t)(uintptr_t)get_r_cb;
    MPI_Allgather(&mine, 1, MPI_UINT64_T, rfn_get, 1, MPI_UINT64_T, MPI_COMM_WORLD);
    MPI_Barrier(MPI_COMM_WORLD);
    hide_pm = HIDE;
    alarm(WATCHDOG);

    for (int i = 0; i < nops; i++) {
        op_t *o = &ops[i];
        if (o->kind == 'w') { for (long n = 0; n < o->n; n++) ce->progress(ce); continue; }
        if (o->kind == 'z') { usleep(1000 * o->n); continue; }
        if (o->defer) { deferred[ndef++] = i; continue; }
        do_op(o);
    }
    while (defhead < ndef) run_deferred_one();

    /* termination handshake: keep progressing until every rank has seen everything it is owed */
    MPI_Request bar = MPI_REQUEST_NULL; int announced = 0, done = 0;
    long last = -1; time_t tlast = time(NULL);
    while (!done) {
        ce->progress(ce);
        int complete = got_am >= exp_am && got_pl >= exp_pl && got_pr >= exp_pr && got_gl >= exp_gl && got_gr >= exp_gr;
        if (complete && !announced) { PMPI_Ibarrier(MPI_COMM_WORLD, &bar); announced = 1; }
        if (announced) PMPI_Test(&bar, &done, MPI_STATUS_IGNORE);
        if (records != last) { last = records; tlast = time(NULL); }
        else if (!announced && time(NULL) - tlast > 40) {
            char s[256];
            snprintf(s, sizeof s, "TIMEOUT am %ld/%ld pl %ld/%ld pr %ld/%ld gl %ld/%ld gr %ld/%ld", got_am, exp_am, got_pl, exp_pl,
                     got_pr, exp_pr, got_gl, exp_gl, got_gr, exp_gr);
            flush_log(s); _exit(3);
        }
    }
    /* a few more rounds: nothing more may be delivered */
    hide_pm = 0;
    for (int i = 0; i < 50; i++) ce->progress(ce);
    L("F%s\n", snap);   /* the request array at the last Testsome call */
    tracing = 0;
    alarm(60);
    flush_log("ok");
    MPI_Barrier(MPI_COMM_WORLD);
    parsec_fini(&ctx);
    MPI_Finalize();
    return 0;
}
