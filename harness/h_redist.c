/* C21 harness: the real matrix redistribution (parsec_redistribute: wrapper +
 * redistribute.jdf / redistribute_reshuffle.jdf run by the real runtime, on the
 * ranks of this MPI job), and the pure index helpers of redistribute_internal.h.
 *
 * usage: h_redist casefile [outfile [threads]]     (all ranks read the case file;
 *        rank 0 writes one line per case to outfile, stdout when absent)
 *
 * cases:
 *  run R PY kpY kqY PT kpT kqT  MY NY mbY nbY  MT NT mbT nbT  sr sc  diY djY diT djT
 *      R ranks (must equal the size of the job; otherwise "<skip>"), source grid PY x R/PY with
 *      k-cyclicity (kpY,kqY), target grid PT x R/PT (kpT,kqT); source MY x NY in mbY x nbY tiles,
 *      target MT x NT in mbT x nbT tiles (tile storage); window sr x sc at (diY,djY) -> (diT,djT).
 *      source(i,j) = (i+1)*1000+j, target(i,j) = -((i+1)*1000+j) before the call.
 *      -> "rc=<0|1> <rows> <cols> | target, row major, over the padded extent lmt*mb x lnt*nb"
 *  gs index start end mb size dis          -> getsize(...)
 *  nc R PY kqY PT kqT sc                   -> redistribute_pair_num_cols of two block-cyclic descriptors
 *  upd mY nY  mYs mYe nYs nYe  i0 j0  TLr TLc BRr BRc  mbY nbY  offr offc  same
 *      one call of CORE_redistribute_update (static in the C generated from redistribute.jdf, which is
 *      included below) on a 64x64 target tile filled with -1; same=1: the source tile itself is passed
 *      (32x32, value (i+1)*100+j), same=0: a packed buffer (value = linear index)
 *      -> the written entries "i,j=v" in row-major order
 */
/* the C file that parsec-ptgpp generated from redistribute.jdf (build directory), for its static
 * CORE_redistribute_update; its three global symbols are renamed so that libparsec's own copy runs
 * the 'run' cases.  It includes redistribute_internal.h (getsize, redistribute_pair_num_cols). */
#define parsec_redistribute_new h21_unused_redistribute_new
#define __parsec_redistribute_internal_constructor h21_unused_constructor
#define __parsec_redistribute_internal_taskpool_t_class h21_unused_class
#include "parsec/data_dist/matrix/redistribute/redistribute.c"
#undef parsec_redistribute_new
#undef __parsec_redistribute_internal_constructor
#undef __parsec_redistribute_internal_taskpool_t_class
#include "parsec/data_internal.h"
#include "hcommon.h"
#include <mpi.h>
#include <unistd.h>

extern int parsec_redistribute(parsec_context_t *parsec, parsec_tiled_matrix_t *dcY, parsec_tiled_matrix_t *dcT,
                               int size_row, int size_col, int disi_Y, int disj_Y, int disi_T, int disj_T);

static int world = 1, me = 0;
static FILE *out;

static void mk(parsec_matrix_block_cyclic_t *dc, int P, int kp, int kq, int mb, int nb, int M, int N) {
    parsec_matrix_block_cyclic_init(dc, PARSEC_MATRIX_DOUBLE, PARSEC_MATRIX_TILE, me, mb, nb, M, N, 0, 0, M, N,
                                    P, world / P, kp, kq, 0, 0);
    size_t bytes = (size_t)dc->super.nb_local_tiles * (size_t)dc->super.bsiz * sizeof(double);
    dc->mat = bytes ? parsec_data_allocate(bytes) : NULL;
}
static void rel(parsec_matrix_block_cyclic_t *dc) {
    parsec_tiled_matrix_destroy(&dc->super);
    if (dc->mat) parsec_data_free(dc->mat);
}
static double *tile(parsec_matrix_block_cyclic_t *dc, int m, int n) {
    parsec_data_collection_t *o = &dc->super.super;
    if ((int)o->rank_of(o, m, n) != me) return NULL;
    parsec_data_t *d = o->data_of(o, m, n);
    parsec_data_copy_t *c = parsec_data_get_copy(d, 0);
    return c ? (double *)parsec_data_copy_get_ptr(c) : NULL;
}
static void fill(parsec_matrix_block_cyclic_t *dc, double sign) {
    parsec_tiled_matrix_t *t = &dc->super;
    for (int m = 0; m < t->lmt; m++) for (int n = 0; n < t->lnt; n++) {
        double *p = tile(dc, m, n); if (!p) continue;
        for (int j = 0; j < t->nb; j++) for (int i = 0; i < t->mb; i++)
            p[j * t->mb + i] = sign * (double)((m * t->mb + i + 1) * 1000 + n * t->nb + j);
    }
}
/* every rank contributes its tiles to a dense row-major image; rank 0 gets the sum */
static double *gather(parsec_matrix_block_cyclic_t *dc, int *R, int *C) {
    parsec_tiled_matrix_t *t = &dc->super;
    int rows = t->lmt * t->mb, cols = t->lnt * t->nb;
    double *loc = calloc((size_t)rows * cols, sizeof(double)), *all = calloc((size_t)rows * cols, sizeof(double));
    for (int m = 0; m < t->lmt; m++) for (int n = 0; n < t->lnt; n++) {
        double *p = tile(dc, m, n); if (!p) continue;
        for (int j = 0; j < t->nb; j++) for (int i = 0; i < t->mb; i++)
            loc[(size_t)(m * t->mb + i) * cols + n * t->nb + j] = p[j * t->mb + i];
    }
    MPI_Reduce(loc, all, rows * cols, MPI_DOUBLE, MPI_SUM, 0, MPI_COMM_WORLD);
    free(loc); *R = rows; *C = cols; return all;
}

int main(int argc, char **argv) {
    int prov, threads = argc > 3 ? atoi(argv[3]) : 1;
    MPI_Init_thread(&argc, &argv, MPI_THREAD_SERIALIZED, &prov);
    MPI_Comm_size(MPI_COMM_WORLD, &world); MPI_Comm_rank(MPI_COMM_WORLD, &me);
    FILE *f = hc_open(argc, argv); char *l;
    out = stdout;
    if (me == 0 && argc > 2) { out = fopen(argv[2], "w"); if (!out) { perror(argv[2]); MPI_Abort(MPI_COMM_WORLD, 2); } }
    parsec_context_t *ctx = NULL;
    while ((l = hc_next(f))) {
        long v[24]; char *p = l + 3; int k = hc_ints(&p, v, 24);
        if (!strncmp(l, "run ", 4) && k == 21) {
            if (v[0] != world || v[1] < 1 || v[4] < 1 || world % v[1] || world % v[4]) { if (!me) { fprintf(out, "<skip>\n"); fflush(out); } continue; }
            if (!ctx) {
                int pargc = 0; char **pargv = NULL;
                ctx = parsec_init(threads, &pargc, &pargv);
                if (!ctx) { if (!me) { fprintf(out, "<parsec_init failed>\n"); fflush(out); } continue; }
            }
            parsec_matrix_block_cyclic_t dcY, dcT;
            mk(&dcY, v[1], v[2], v[3], v[9], v[10], v[7], v[8]);
            mk(&dcT, v[4], v[5], v[6], v[13], v[14], v[11], v[12]);
            parsec_data_collection_set_key(&dcY.super.super, "dcY");
            parsec_data_collection_set_key(&dcT.super.super, "dcT");
            fill(&dcY, 1.0); fill(&dcT, -1.0);
            MPI_Barrier(MPI_COMM_WORLD);
            int rc = parsec_redistribute(ctx, &dcY.super, &dcT.super, v[15], v[16], v[17], v[18], v[19], v[20]);
            MPI_Barrier(MPI_COMM_WORLD);
            int R, C; double *g = gather(&dcT, &R, &C);
            if (!me) {
                fprintf(out, "rc=%d %d %d |", rc == PARSEC_SUCCESS ? 0 : 1, R, C);
                for (int i = 0; i < R * C; i++) fprintf(out, " %ld", (long)g[i]);
                fprintf(out, "\n"); fflush(out);
            }
            free(g); rel(&dcY); rel(&dcT);
        } else if (!strncmp(l, "gs ", 3) && k == 6) {
            if (!me) { fprintf(out, "%d\n", getsize(v[0], v[1], v[2], v[3], v[4], v[5])); fflush(out); }
        } else if (!strncmp(l, "nc ", 3) && k == 6) {
            /* descriptors of an R-rank job, impersonating rank 0; no memory is attached
             * (descriptor initialisation needs an initialised runtime) */
            parsec_matrix_block_cyclic_t a, b;
            int R = v[0];
            if (R < 1 || v[1] < 1 || v[3] < 1 || R % v[1] || R % v[3]) { if (!me) { fprintf(out, "<skip>\n"); fflush(out); } continue; }
            if (!ctx) {
                int pargc = 0; char **pargv = NULL;
                ctx = parsec_init(threads, &pargc, &pargv);
                if (!ctx) { if (!me) { fprintf(out, "<parsec_init failed>\n"); fflush(out); } continue; }
            }
            parsec_matrix_block_cyclic_init(&a, PARSEC_MATRIX_DOUBLE, PARSEC_MATRIX_TILE, 0, 2, 2, 8, 8, 0, 0, 8, 8, v[1], R / v[1], 1, v[2], 0, 0);
            parsec_matrix_block_cyclic_init(&b, PARSEC_MATRIX_DOUBLE, PARSEC_MATRIX_TILE, 0, 2, 2, 8, 8, 0, 0, 8, 8, v[3], R / v[3], 1, v[4], 0, 0);
            if (!me) { fprintf(out, "%d\n", redistribute_pair_num_cols(&a.super, &b.super, v[5])); fflush(out); }
            parsec_tiled_matrix_destroy(&a.super); parsec_tiled_matrix_destroy(&b.super);
        } else if (!strncmp(l, "upd ", 4) && k == 17) {
            int okp = 1;
            for (int i = 8; i < 14; i++) if (v[i] < 1 || v[i] > 8) okp = 0;          /* TL, BR, tile sizes */
            if (v[6] < 0 || v[6] > 8 || v[7] < 0 || v[7] > 8 || v[14] < 0 || v[14] > 8 || v[15] < 0 || v[15] > 8) okp = 0;
            if (v[2] < 0 || v[3] < v[2] || v[3] > v[2] + 5 || v[4] < 0 || v[5] < v[4] || v[5] > v[4] + 5) okp = 0;
            if (!okp) { if (!me) { fprintf(out, "<skip>\n"); fflush(out); } continue; }
            static double T[64 * 64], S[32 * 32];
            for (int i = 0; i < 64 * 64; i++) T[i] = -1.0;
            for (int j = 0; j < 32; j++) for (int i = 0; i < 32; i++) S[j * 32 + i] = v[16] ? (double)((i + 1) * 100 + j) : (double)(j * 32 + i);
            CORE_redistribute_update(T, S, S, S, S, S, S, S, S, S, 0, v[8], v[9], v[10], v[11], v[2], v[3], v[4], v[5],
                                     v[0], v[1], v[6], v[7], v[12], v[13], v[14], v[15], v[16] ? 0 : 1, 0, 32, 64);
            if (!me) {
                int any = 0;
                for (int i = 0; i < 64; i++) for (int j = 0; j < 64; j++)
                    if (T[j * 64 + i] != -1.0) { fprintf(out, "%s%d,%d=%ld", any ? " " : "", i, j, (long)T[j * 64 + i]); any = 1; }
                fprintf(out, any ? "\n" : "-\n"); fflush(out);
            }
        } else if (!me) { fprintf(out, "<bad case>\n"); fflush(out); }
    }
    if (ctx) parsec_fini(&ctx);
    if (me == 0 && out != stdout) fclose(out);
    MPI_Finalize();
    return 0;
}
