/* interpose.h — force-included (or included first) in a harness TU compiled with
 * -DBUILDING_PARSEC: every parsec_atomic_* read-modify-write operation used by the
 * code parsed AFTER this header (repo .c files and header-inline code such as
 * lifo.h, list.h, parsec_object.h) yields to the cosched scheduler first.  A
 * function-like macro is not re-expanded inside its own expansion, so the
 * real inline function is still what runs. */
#ifndef VERIF_INTERPOSE_H
#define VERIF_INTERPOSE_H
#include "parsec/parsec_config.h"
#include "parsec/sys/atomic.h"
extern void cos_yield(void);
extern void cos_spin(void);
#define parsec_atomic_cas_int32(l,o,n)      (cos_yield(), parsec_atomic_cas_int32(l,o,n))
#define parsec_atomic_cas_int64(l,o,n)      (cos_yield(), parsec_atomic_cas_int64(l,o,n))
#define parsec_atomic_cas_int128(l,o,n)     (cos_yield(), parsec_atomic_cas_int128(l,o,n))
#define parsec_atomic_cas_ptr(l,o,n)        (cos_yield(), parsec_atomic_cas_ptr(l,o,n))
#define parsec_atomic_fetch_add_int32(l,v)  (cos_yield(), parsec_atomic_fetch_add_int32(l,v))
#define parsec_atomic_fetch_sub_int32(l,v)  (cos_yield(), parsec_atomic_fetch_sub_int32(l,v))
#define parsec_atomic_fetch_inc_int32(l)    (cos_yield(), parsec_atomic_fetch_inc_int32(l))
#define parsec_atomic_fetch_dec_int32(l)    (cos_yield(), parsec_atomic_fetch_dec_int32(l))
#define parsec_atomic_fetch_or_int32(l,v)   (cos_yield(), parsec_atomic_fetch_or_int32(l,v))
#define parsec_atomic_fetch_and_int32(l,v)  (cos_yield(), parsec_atomic_fetch_and_int32(l,v))
#define parsec_atomic_fetch_add_int64(l,v)  (cos_yield(), parsec_atomic_fetch_add_int64(l,v))
#define parsec_atomic_fetch_sub_int64(l,v)  (cos_yield(), parsec_atomic_fetch_sub_int64(l,v))
#define parsec_atomic_fetch_inc_int64(l)    (cos_yield(), parsec_atomic_fetch_inc_int64(l))
#define parsec_atomic_fetch_dec_int64(l)    (cos_yield(), parsec_atomic_fetch_dec_int64(l))
#define parsec_atomic_fetch_or_int64(l,v)   (cos_yield(), parsec_atomic_fetch_or_int64(l,v))
#define parsec_atomic_fetch_and_int64(l,v)  (cos_yield(), parsec_atomic_fetch_and_int64(l,v))
#define parsec_atomic_fetch_add_int128(l,v) (cos_yield(), parsec_atomic_fetch_add_int128(l,v))
/* a lock acquisition is one scheduling point per attempt; a failed attempt is a stutter step */
#define parsec_atomic_trylock(l)            (cos_yield(), parsec_atomic_trylock(l))
#define parsec_atomic_lock(l)               do { cos_yield(); while (!(parsec_atomic_trylock)(l)) cos_spin(); } while (0)
#define parsec_atomic_unlock(l)             (cos_yield(), parsec_atomic_unlock(l))
#endif
