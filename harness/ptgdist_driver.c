/* ptgdist_driver.c — main of a generated PTG test program run on several MPI ranks (C05).
 *
 * Linked with the C file parsec-ptgpp produced from a JDF of tools/jdfdist.py (which provides
 * ptgd_case_new/ptgd_case_free/ptg_case_ndata) and libparsec.  Same body hooks as
 * harness/ptg_driver.c (ptg_rt.h); what differs is the placement:
 *
 *   P   placement collection, never holds data.  Task class number ci, parameters p0 p1 p2
 *       (missing ones 0) run on rank  P.rank_of(ci, p0, p1, p2), one of
 *         cyc              m(p0, N)
 *         bc:PR:QC:MB:NB   m(fdiv(p0,MB), PR) * QC + m(fdiv(p1,NB), QC)          (PR * QC = N)
 *         hash             h = ci + 1; for p in p0 p1 p2: h = (h * 31 + m(p, 65536) + 7) % 65521;  h % N
 *       with m(x, n) the non-negative remainder and fdiv the floor division.
 *   D   data collection, tabular: element x lives on rank tab[x] (--tab r0,r1,…), value 1000 + x
 *       initially.  The plugin computes tab so that every element is on the rank of the one
 *       instance that refers to it (direct memory references must be local).
 *
 *   mpiexec -n N ptgdist_driver --place KIND --tab LIST --elt BYTES --out PREFIX --cfg CORES [parsec options…]
 *
 * Every rank writes PREFIX.<rank>:
 *   RANK <r> OF <n>
 *   I <class> <again> P <params> ; L <locals> ; S <begin> <end> ; R <flow>=<v>… ; W <flow>=<v>…
 *   NBTASKS <completed invocations on this rank>
 *   D <x>=<v> …          (the elements this rank owns)
 *   OOR <out-of-range accesses> REMOTE <data_of calls for an element of another rank> PDATA <data_of calls on P>
 *   END rc=0
 */
#ifndef _GNU_SOURCE
#define _GNU_SOURCE
#endif
#include <stdio.h>
#include <pthread.h>
#include <stdlib.h>
#include <string.h>
#include <stdarg.h>
#include <inttypes.h>
#include <mpi.h>
#include "ptg_rt.h"
#include "parsec/runtime.h"
#include "parsec/data_internal.h"
#include "parsec/sys/atomic.h"

parsec_taskpool_t *ptgd_case_new(parsec_data_collection_t *D, parsec_data_collection_t *P);
void               ptgd_case_free(parsec_taskpool_t *tp);

/* ------------------------------------------------------------------ log (as ptg_driver.c) */
typedef struct {
    const parsec_task_class_t *tc;
    int32_t  locals[MAX_LOCAL_COUNT];
    int64_t  begin, end;
    uint32_t rmask, wmask;
    int64_t  rd[PTG_RT_MAXFLOWS], wr[PTG_RT_MAXFLOWS];
} ptg_entry_t;

#define PTG_MAXLOG (1 << 15)
static ptg_entry_t ptg_log[PTG_MAXLOG];
static volatile int32_t ptg_nlog = 0;
static volatile int64_t ptg_clock = 0;
static __thread ptg_entry_t *ptg_cur = NULL;

static uint64_t mix64(uint64_t z) {
    z += 0x9E3779B97F4A7C15ULL;
    z = (z ^ (z >> 30)) * 0xBF58476D1CE4E5B9ULL;
    z = (z ^ (z >> 27)) * 0x94D049BB133111EBULL;
    return z ^ (z >> 31);
}
static uint64_t hash_instance(uint64_t seed, const parsec_task_class_t *tc, const int32_t *locals) {
    uint64_t h = mix64(seed);
    for (const char *p = tc->name; *p; p++) h = mix64(h ^ (uint64_t)(unsigned char)*p);
    for (int i = 0; i < tc->nb_locals; i++) h = mix64(h ^ (uint64_t)(uint32_t)locals[i]);
    return h;
}

int ptg_rt_begin(parsec_task_t *t) {
    int32_t idx = parsec_atomic_fetch_inc_int32(&ptg_nlog);
    if (idx >= PTG_MAXLOG) { fprintf(stderr, "ptg_rt: log overflow\n"); abort(); }
    ptg_entry_t *e = &ptg_log[idx];
    e->tc = t->task_class;
    for (int i = 0; i < t->task_class->nb_locals && i < MAX_LOCAL_COUNT; i++) e->locals[i] = t->locals[i].value;
    e->rmask = e->wmask = 0;
    e->end = -1;
    e->begin = parsec_atomic_fetch_inc_int64(&ptg_clock);
    ptg_cur = e;
    return 0;
}
void ptg_rt_end(parsec_task_t *t) {
    (void)t;
    if (ptg_cur) { ptg_cur->end = parsec_atomic_fetch_inc_int64(&ptg_clock); ptg_cur = NULL; }
}
#define PTG_NULL_VALUE ((int64_t)-1)
void ptg_rt_read(parsec_task_t *t, int flow, const void *ptr) {
    (void)t;
    if (!ptg_cur || flow < 0 || flow >= PTG_RT_MAXFLOWS) return;
    ptg_cur->rmask |= 1u << flow;
    ptg_cur->rd[flow] = ptr ? *(const int64_t *)ptr : PTG_NULL_VALUE;
}
void ptg_rt_write(parsec_task_t *t, int flow, void *ptr) {
    if (!ptg_cur || flow < 0 || flow >= PTG_RT_MAXFLOWS || !ptr) return;
    /* value written = hash of (class, locals, flow, values read so far in this invocation) */
    uint64_t h = hash_instance(0x5eed, t->task_class, ptg_cur->locals);
    h = mix64(h ^ (uint64_t)flow);
    for (int i = 0; i < PTG_RT_MAXFLOWS; i++)
        if (ptg_cur->rmask & (1u << i)) h = mix64(h ^ (uint64_t)ptg_cur->rd[i] ^ ((uint64_t)i << 56));
    int64_t v = (int64_t)(h >> 3);          /* 61 bits, non negative */
    *(int64_t *)ptr = v;
    ptg_cur->wmask |= 1u << flow;
    ptg_cur->wr[flow] = v;
}

/* size of one datum (collection element / NEW tile): a run parameter, so that the same program
 * travels inside the activation message (short) or by the GET protocol */
static int ptgd_bytes = PTG_RT_ELT_BYTES;
int ptgd_elt_bytes(void) { return ptgd_bytes; }
static parsec_datatype_t ptg_elt_dtt;
static int ptg_elt_dtt_ready = 0;
parsec_datatype_t ptg_rt_elt_type(void) {
    if (!ptg_elt_dtt_ready) { parsec_type_create_contiguous(ptgd_bytes, parsec_datatype_uint8_t, &ptg_elt_dtt); ptg_elt_dtt_ready = 1; }
    return ptg_elt_dtt;
}

/* ------------------------------------------------------------ placement */
static int my_rank = 0, nb_ranks = 1;
static int place_kind = 0;                  /* 0 cyc, 1 bc, 2 hash */
static int bc_p = 1, bc_q = 1, bc_mb = 1, bc_nb = 1;

static long mmod(long x, long n) { return ((x % n) + n) % n; }
static long fdiv(long x, long n) { long q = x / n; if ((x % n != 0) && ((x < 0) != (n < 0))) q--; return q; }
static int place_rank(int ci, int p0, int p1, int p2) {
    if (place_kind == 0) return (int)mmod(p0, nb_ranks);
    if (place_kind == 1) return (int)(mmod(fdiv(p0, bc_mb), bc_p) * bc_q + mmod(fdiv(p1, bc_nb), bc_q));
    long h = ci + 1;
    int ps[3] = { p0, p1, p2 };
    for (int i = 0; i < 3; i++) h = (h * 31 + mmod(ps[i], 65536) + 7) % 65521;
    return (int)(h % nb_ranks);
}

/* P: placement only */
typedef struct { parsec_data_collection_t super; volatile int32_t data_calls; parsec_data_t *dummy; char buf[64]; } ptg_pc_t;
static uint32_t pc_rank_of(parsec_data_collection_t *desc, ...) {
    va_list ap; va_start(ap, desc);
    int ci = va_arg(ap, int), p0 = va_arg(ap, int), p1 = va_arg(ap, int), p2 = va_arg(ap, int);
    va_end(ap); (void)desc;
    return (uint32_t)place_rank(ci, p0, p1, p2);
}
static int32_t pc_vpid_of(parsec_data_collection_t *desc, ...) { (void)desc; return 0; }
static parsec_data_key_t pc_data_key(parsec_data_collection_t *desc, ...) {
    va_list ap; va_start(ap, desc);
    int ci = va_arg(ap, int), p0 = va_arg(ap, int), p1 = va_arg(ap, int), p2 = va_arg(ap, int);
    va_end(ap); (void)desc;
    return ((parsec_data_key_t)(ci & 0xff) << 48) | ((parsec_data_key_t)((p0 + 32768) & 0xffff) << 32)
         | ((parsec_data_key_t)((p1 + 32768) & 0xffff) << 16) | (parsec_data_key_t)((p2 + 32768) & 0xffff);
}
static uint32_t pc_rank_of_key(parsec_data_collection_t *desc, parsec_data_key_t key) {
    (void)desc;
    return (uint32_t)place_rank((int)((key >> 48) & 0xff), (int)((key >> 32) & 0xffff) - 32768,
                                (int)((key >> 16) & 0xffff) - 32768, (int)(key & 0xffff) - 32768);
}
static int32_t pc_vpid_of_key(parsec_data_collection_t *desc, parsec_data_key_t key) { (void)desc; (void)key; return 0; }
/* the runtime asks the affinity collection for a parsec_data_t to read its preferred device
 * (remote_dep_mpi_retrieve_datatype): one dummy datum stands for every key; no task body sees it */
static parsec_data_t *pc_data_of_key(parsec_data_collection_t *desc, parsec_data_key_t key) {
    ptg_pc_t *p = (ptg_pc_t *)desc; (void)key;
    p->data_calls++;
    return parsec_data_create(&p->dummy, desc, 0, p->buf, sizeof(p->buf), 0);
}
static parsec_data_t *pc_data_of(parsec_data_collection_t *desc, ...) { return pc_data_of_key(desc, 0); }

/* D: tabular */
typedef struct {
    parsec_data_collection_t super;
    int            n;
    int           *tab;
    parsec_data_t **holders;
    char          *mem;
    volatile int32_t out_of_range, remote;
} ptg_dc_t;

static int dc_index(ptg_dc_t *d, int k) {
    if (k < 0 || k >= d->n) { d->out_of_range++; k = ((k % d->n) + d->n) % d->n; }
    return k;
}
static uint32_t dc_rank_of(parsec_data_collection_t *desc, ...) {
    va_list ap; va_start(ap, desc); int k = va_arg(ap, int); va_end(ap);
    ptg_dc_t *d = (ptg_dc_t *)desc;
    return (uint32_t)d->tab[dc_index(d, k)];
}
static int32_t  dc_vpid_of(parsec_data_collection_t *desc, ...) { (void)desc; return 0; }
static parsec_data_key_t dc_data_key(parsec_data_collection_t *desc, ...) {
    va_list ap; va_start(ap, desc); int k = va_arg(ap, int); va_end(ap);
    return (parsec_data_key_t)dc_index((ptg_dc_t *)desc, k);
}
static uint32_t dc_rank_of_key(parsec_data_collection_t *desc, parsec_data_key_t key) {
    ptg_dc_t *d = (ptg_dc_t *)desc; return (uint32_t)d->tab[dc_index(d, (int)key)];
}
static int32_t  dc_vpid_of_key(parsec_data_collection_t *desc, parsec_data_key_t key) { (void)desc; (void)key; return 0; }
static parsec_data_t *dc_data_of_key(parsec_data_collection_t *desc, parsec_data_key_t key) {
    ptg_dc_t *d = (ptg_dc_t *)desc;
    int k = dc_index(d, (int)key);
    if (d->tab[k] != my_rank) d->remote++;
    return parsec_data_create(&d->holders[k], desc, (parsec_data_key_t)k, d->mem + (size_t)k * ptgd_bytes, ptgd_bytes, 0);
}
static parsec_data_t *dc_data_of(parsec_data_collection_t *desc, ...) {
    va_list ap; va_start(ap, desc); int k = va_arg(ap, int); va_end(ap);
    return dc_data_of_key(desc, (parsec_data_key_t)dc_index((ptg_dc_t *)desc, k));
}
static ptg_dc_t *dc_create(int n, const int *tab, int ntab) {
    ptg_dc_t *d = (ptg_dc_t *)calloc(1, sizeof(ptg_dc_t));
    parsec_data_collection_init(&d->super, nb_ranks, my_rank);
    d->n = n < 1 ? 1 : n;
    d->tab = (int *)calloc(d->n, sizeof(int));
    for (int k = 0; k < d->n; k++) d->tab[k] = (k < ntab && tab[k] >= 0 && tab[k] < nb_ranks) ? tab[k] : 0;
    d->holders = (parsec_data_t **)calloc(d->n, sizeof(parsec_data_t *));
    d->mem = (char *)calloc(d->n, ptgd_bytes);
    /* initial content; an element this rank does not own is poisoned */
    for (int k = 0; k < d->n; k++) *(int64_t *)(d->mem + (size_t)k * ptgd_bytes) = (d->tab[k] == my_rank) ? 1000 + k : -777000 - k;
    d->super.rank_of = dc_rank_of;         d->super.rank_of_key = dc_rank_of_key;
    d->super.vpid_of = dc_vpid_of;         d->super.vpid_of_key = dc_vpid_of_key;
    d->super.data_of = dc_data_of;         d->super.data_of_key = dc_data_of_key;
    d->super.data_key = dc_data_key;
    parsec_type_create_contiguous(ptgd_bytes, parsec_datatype_uint8_t, &d->super.default_dtt);
    return d;
}
static void dc_free(ptg_dc_t *d) {
    for (int k = 0; k < d->n; k++) if (d->holders[k]) parsec_data_destroy(d->holders[k]);
    parsec_type_free(&d->super.default_dtt);
    parsec_data_collection_destroy(&d->super);
    free(d->holders); free(d->mem); free(d->tab); free(d);
}
static ptg_pc_t *pc_create(void) {
    ptg_pc_t *p = (ptg_pc_t *)calloc(1, sizeof(ptg_pc_t));
    parsec_data_collection_init(&p->super, nb_ranks, my_rank);
    p->super.rank_of = pc_rank_of;         p->super.rank_of_key = pc_rank_of_key;
    p->super.vpid_of = pc_vpid_of;         p->super.vpid_of_key = pc_vpid_of_key;
    p->super.data_of = pc_data_of;         p->super.data_of_key = pc_data_of_key;
    p->super.data_key = pc_data_key;
    parsec_type_create_contiguous(ptgd_bytes, parsec_datatype_uint8_t, &p->super.default_dtt);
    return p;
}

/* ------------------------------------------------------------ output */
static int param_value(const ptg_entry_t *e, int i) { return e->locals[e->tc->params[i]->context_index]; }
static int cmp_entry(const void *a, const void *b) {
    const ptg_entry_t *x = (const ptg_entry_t *)a, *y = (const ptg_entry_t *)b;
    int c = strcmp(x->tc->name, y->tc->name);
    if (c) return c;
    for (int i = 0; i < x->tc->nb_parameters; i++) {
        int u = param_value(x, i), v = param_value(y, i);
        if (u != v) return u < v ? -1 : 1;
    }
    return x->begin < y->begin ? -1 : (x->begin > y->begin ? 1 : 0);
}

static int run_config(FILE *out, int cores, int pargc, char **pargv, const int *tab, int ntab) {
    int rc;
    parsec_context_t *ctx = parsec_init(cores, &pargc, &pargv);
    if (!ctx) { fprintf(out, "END rc=init-failed\n"); return 3; }

    ptg_dc_t *dc = dc_create(ptg_case_ndata, tab, ntab);
    ptg_pc_t *pc = pc_create();
    ptg_nlog = 0; ptg_clock = 0;
    parsec_taskpool_t *tp = ptgd_case_new(&dc->super, &pc->super);
    if (!tp) { fprintf(out, "END rc=new-failed\n"); return 3; }
    rc = parsec_context_add_taskpool(ctx, tp);
    if (rc != 0) { fprintf(out, "END rc=add-failed\n"); return 3; }
    rc = parsec_context_start(ctx);
    if (rc != 0) { fprintf(out, "END rc=start-failed\n"); return 3; }
    rc = parsec_context_wait(ctx);
    if (rc != 0) { fprintf(out, "END rc=wait-failed\n"); return 3; }

    int n = ptg_nlog;
    qsort(ptg_log, n, sizeof(ptg_entry_t), cmp_entry);
    for (int k = 0; k < n; k++) {
        const ptg_entry_t *e = &ptg_log[k];
        const parsec_task_class_t *tc = e->tc;
        fprintf(out, "I %s 0 P", tc->name);
        for (int i = 0; i < tc->nb_parameters; i++) fprintf(out, " %d", param_value(e, i));
        fprintf(out, " ; L");
        for (int i = 0; i < tc->nb_locals; i++) fprintf(out, " %d", e->locals[i]);
        fprintf(out, " ; S %" PRId64 " %" PRId64 " ; R", e->begin, e->end);
        for (int i = 0; i < PTG_RT_MAXFLOWS; i++) if (e->rmask & (1u << i)) fprintf(out, " %d=%" PRId64, i, e->rd[i]);
        fprintf(out, " ; W");
        for (int i = 0; i < PTG_RT_MAXFLOWS; i++) if (e->wmask & (1u << i)) fprintf(out, " %d=%" PRId64, i, e->wr[i]);
        fprintf(out, "\n");
    }
    fprintf(out, "NBTASKS %d\n", n);
    fprintf(out, "D");
    for (int k = 0; k < dc->n; k++)
        if (dc->tab[k] == my_rank) fprintf(out, " %d=%" PRId64, k, *(int64_t *)(dc->mem + (size_t)k * ptgd_bytes));
    fprintf(out, "\nOOR %d REMOTE %d PDATA %d\n", (int)dc->out_of_range, (int)dc->remote, (int)pc->data_calls);
    fflush(out);
    ptgd_case_free(tp);
    dc_free(dc);
    if (pc->dummy) parsec_data_destroy(pc->dummy);
    parsec_type_free(&pc->super.default_dtt);
    parsec_data_collection_destroy(&pc->super);
    free(pc);
    parsec_fini(&ctx);
    fprintf(out, "END rc=0\n");
    fflush(out);
    return 0;
}

int main(int argc, char **argv) {
    int provided, i = 1, rc = 0, ntab = 0;
    static int tab[1 << 14];
    const char *prefix = "out";
    MPI_Init_thread(&argc, &argv, MPI_THREAD_SERIALIZED, &provided);
    MPI_Comm_rank(MPI_COMM_WORLD, &my_rank);
    MPI_Comm_size(MPI_COMM_WORLD, &nb_ranks);
    while (i < argc) {
        if (!strcmp(argv[i], "--place") && i + 1 < argc) {
            const char *s = argv[i + 1];
            if (!strncmp(s, "cyc", 3)) place_kind = 0;
            else if (!strncmp(s, "bc", 2)) {
                place_kind = 1;
                if (sscanf(s, "bc:%d:%d:%d:%d", &bc_p, &bc_q, &bc_mb, &bc_nb) != 4 || bc_p * bc_q != nb_ranks || bc_mb < 1 || bc_nb < 1) {
                    fprintf(stderr, "ptgdist_driver: bad placement %s for %d ranks\n", s, nb_ranks);
                    MPI_Abort(MPI_COMM_WORLD, 9);
                }
            } else place_kind = 2;
            i += 2;
        } else if (!strcmp(argv[i], "--tab") && i + 1 < argc) {
            char *s = argv[i + 1];
            while (*s && ntab < (1 << 14)) { tab[ntab++] = (int)strtol(s, &s, 10); if (*s == ',') s++; }
            i += 2;
        } else if (!strcmp(argv[i], "--elt") && i + 1 < argc) { ptgd_bytes = atoi(argv[i + 1]); if (ptgd_bytes < 8) ptgd_bytes = 8; i += 2; }
        else if (!strcmp(argv[i], "--out") && i + 1 < argc) { prefix = argv[i + 1]; i += 2; }
        else if (!strcmp(argv[i], "--cfg") && i + 1 < argc) {
            int cores = atoi(argv[i + 1]), j = i + 2, n = 0;
            char *pv[64], fn[512];
            pv[n++] = "--";
            while (j < argc && n < 62) pv[n++] = argv[j++];
            pv[n] = NULL;
            snprintf(fn, sizeof(fn), "%s.%d", prefix, my_rank);
            FILE *out = fopen(fn, "w");
            if (!out) { perror(fn); MPI_Abort(MPI_COMM_WORLD, 8); }
            fprintf(out, "RANK %d OF %d\n", my_rank, nb_ranks);
            fflush(out);
            rc |= run_config(out, cores, n, pv, tab, ntab);
            fclose(out);
            i = j;
        } else { fprintf(stderr, "ptgdist_driver: unknown argument %s\n", argv[i]); i++; }
    }
    MPI_Finalize();
    return rc;
}
