/* C28 harness: drives the real zone allocator.  The source file is included so
 * that the segment array and the chunk lists of the red-black tree can be
 * dumped; everything else (lists, objects, rbtree, output) comes from libparsec.
 * case: "z N UNIT | op op ..."   op = m<size> | f<k> | x<j> | o<d>
 *   m: zone_malloc(size)          f: zone_free of the k-th live allocation (oldest first, k mod #live)
 *   x: zone_free again of the j-th offset freed so far, unless it is live right now (stale pointer)
 *   o: zone_free of an address d units past the end of the zone
 * One line per case: the state after init and after every op:
 *   <result> u=<zone_in_use> d=<zone_debug> W <tid>:<status>:<nb_units>:<nb_prev>... I <key>[tid,tid..]...
 * and at the end the status of every cell and the result of zone_malloc_fini.
 * Cases run in a child process; a crash or a hang is reported on the case's line. */
#include "parsec/utils/zone_malloc.c"
#include "hcommon.h"
#include <unistd.h>
#include <signal.h>
#include <sys/mman.h>
#include <sys/wait.h>

#define BASE ((char*)(uintptr_t)0x40000000ul)
#define MAXLIVE 100000
static long live[MAXLIVE]; static int nlive;
static long dead[MAXLIVE]; static int ndead;
static zone_malloc_t *Z;

static char stc(int s) { return s == SEGMENT_EMPTY ? 'E' : s == SEGMENT_FULL ? 'F' : s == SEGMENT_UNDEFINED ? 'U' : '?'; }

static void idx_cb(parsec_rbtree_node_t *node, void *data) {
    zone_malloc_chunk_list_t *fl = (zone_malloc_chunk_list_t*)node;
    int first = 1; (void)data;
    printf(" %d[", fl->nb_units);
    PARSEC_LIST_NOLOCK_ITERATOR(&fl->list, it, {
        printf("%s%ld", first ? "" : ",", (long)((segment_t*)it - Z->segments)); first = 0; });
    printf("]");
}

static void dump(void) {
    int n = Z->max_segment, steps = 0;
    printf("u=%zu d=%zu W", zone_in_use(Z), zone_debug(Z, 1000, -1, NULL));
    for (int t = 0; t >= 0 && t < n; ) {
        segment_t *s = &Z->segments[t];
        printf(" %d:%c:%d:%d", t, stc(s->status), s->nb_units, s->nb_prev);
        if (s->nb_units < 1 || ++steps > n) { printf(" !"); break; }
        t += s->nb_units;
    }
    printf(" I");
    parsec_rbtree_foreach(&Z->rbtree, idx_cb, NULL);
}

static void run_case(char *l) {
    long n, unit; int pos = 0;
    if (sscanf(l, "z %ld %ld |%n", &n, &unit, &pos) != 2 || pos == 0) { printf("<bad case>\n"); return; }
    Z = zone_malloc_init(BASE, (int)n, (size_t)unit);
    nlive = ndead = 0;
    printf("init "); dump();
    char *p = l + pos;
    for (;;) {
        while (*p == ' ') p++;
        if (!*p) break;
        char op = *p++; char *e; long a = strtol(p, &e, 10); p = e;
        printf(" ; ");
        if (op == 'm') {
            char *r = zone_malloc(Z, (size_t)a);
            if (r) { printf("m%ld=%ld", a, (long)(r - BASE)); if (nlive < MAXLIVE) live[nlive++] = r - BASE; }
            else printf("m%ld=NULL", a);
        } else if (op == 'f') {
            if (nlive == 0) printf("f%ld-", a);
            else {
                int k = (int)(a % nlive); long off = live[k];
                zone_free(Z, BASE + off);
                memmove(live + k, live + k + 1, sizeof(long) * (nlive - k - 1)); nlive--;
                if (ndead < MAXLIVE) dead[ndead++] = off;
                printf("f%ld@%ld", a, off);
            }
        } else if (op == 'x') {
            int skip = (ndead == 0); long off = 0;
            if (!skip) { off = dead[a % ndead]; for (int i = 0; i < nlive; i++) if (live[i] == off) skip = 1; }
            if (skip) printf("x%ld-", a);
            else { zone_free(Z, BASE + off); printf("x%ld@%ld", a, off); }
        } else if (op == 'o') {
            zone_free(Z, BASE + (n + a) * unit);
            printf("o%ld", a);
        } else printf("?");
        printf(" "); dump();
    }
    printf(" ; S=");
    for (int t = 0; t < n; t++) putchar(stc(Z->segments[t].status));
    void *b = zone_malloc_fini(&Z);
    printf(" fini=%d\n", (b == (void*)BASE && Z == NULL) ? 1 : 0);
}

int main(int argc, char **argv) {
    FILE *f = hc_open(argc, argv); char *l;
    /* the allocator reports ignored frees on stderr: not an observation */
    if (!freopen("/dev/null", "w", stderr)) return 2;
    int *done = mmap(NULL, sizeof(int), PROT_READ | PROT_WRITE, MAP_SHARED | MAP_ANONYMOUS, -1, 0);
    int idx = 0; *done = 0;
    /* children inherit the file position only approximately (stdio buffering): each child
     * re-reads the file and skips the cases already done */
    fclose(f);
    for (;;) {
        fflush(stdout);
        pid_t pid = fork();
        if (pid == 0) {
            f = hc_open(argc, argv); idx = 0;
            while ((l = hc_next(f))) {
                if (idx++ < *done) continue;
                hc_alarm(20);
                run_case(l);
                fflush(stdout);
                (*done)++;
            }
            _exit(0);
        }
        int st = 0; waitpid(pid, &st, 0);
        if (WIFEXITED(st) && WEXITSTATUS(st) == 0) break;
        /* the child died inside case number *done: close its line, go on with the next case */
        printf(" <CRASH signal=%d>\n", WIFSIGNALED(st) ? WTERMSIG(st) : -WEXITSTATUS(st));
        (*done)++;
    }
    return 0;
}
