/* C14, second harness: the static function next_tag of parsec/parsec_mpi_funnelled.c called directly.
 *   h_ce_tag <casefile>          case: "tag MAX v0 k n"  (other lines: "-")
 * prints the n tags handed out by n calls of next_tag(k) starting from __VAL_NEXT_TAG = v0 with
 * MAX_MPI_TAG = MAX; the even cases run the single-threaded branch, the odd ones the
 * compare-and-swap branch (PARSEC_CONTEXT_FLAG_COMM_MT).  No MPI call is made. */
#include "hcommon.h"
#include "parsec/parsec_config.h"
#include "parsec/parsec_internal.h"
#include "parsec/parsec_mpi_funnelled.c"

int main(int argc, char **argv) {
    FILE *f = hc_open(argc, argv); char *l; long n = 0;
    static parsec_context_t ctx; static parsec_vp_t vp;
    vp.parsec_context = &ctx;
    parsec_comm_es.virtual_process = &vp;
    while ((l = hc_next(f))) {
        long v[8]; char *p = l + 3; n++;
        if (strncmp(l, "tag ", 4) || hc_ints(&p, v, 8) != 4) { printf("-\n"); continue; }
        ctx.flags = (n & 1) ? PARSEC_CONTEXT_FLAG_COMM_MT : 0;
        MAX_MPI_TAG = (int)v[0]; __VAL_NEXT_TAG = (int)v[1];
        printf("tags:");
        for (long i = 0; i < v[3]; i++) printf(" %d", next_tag((int)v[2]));
        printf("\n");
    }
    return 0;
}
