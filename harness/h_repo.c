/* C25 harness (T-sched): the real data repository (parsec/datarepo.c on top of the real
 * parsec/class/parsec_hash_table.c, both compiled here after interpose.h so that every
 * bucket lock / unlock and every parsec_atomic_* read-modify-write is a scheduling point).
 * Every model thread is a coroutine running its list of client operations; the schedule of
 * the case decides who runs up to its next yield.
 *
 * Entries come from a real parsec_mempool_t built by hand (parsec_mempool_construct, one
 * thread-mempool per coroutine, hung on a hand-made parsec_execution_stream_t).  The two
 * mempool entry points used by datarepo.c are routed through h_alloc / h_free (the "mempool
 * free hook" of the property's anchors): they give every allocation an incarnation id in
 * allocation order, record reclaim / discard events, detect double frees, and call the real
 * inline functions with the scheduler disabled (the LIFO underneath is C30's subject).
 *
 * case:  NB NT | k key arg k key arg ... | (one section per thread) ... | sched...
 *        NB = log2 of the number of buckets (hashsize hint 1<<NB); op kinds k:
 *        0 look(key)  1 create(key) with ghost promise arg  2 addto(key, arg)  3 use(key)
 *        "use" is the client protocol of generated code: wait for a grant (ghost budget of
 *        the key: promises of creators whose create returned, minus uses started), then
 *        data_repo_lookup_entry, then data_repo_entry_used_once when found.
 * out :  events in order | tab: key=id:cnt/lmt/ret (sorted by key) | steps: s0 s1 ..
 *        events  cT:K=ID(n|f)  create returned (n: inserted its own entry, f: found one)
 *                dT:ID         own unpublished entry given back (lost the insertion race)
 *                aT:K+N        addto returned      rT:K=ID  entry ID of key K reclaimed by T
 *                uT:K          used_once returned  mT:K     use found no entry (skipped)
 *                lT:K=ID:cnt/lmt/ret | lT:K=-      lookup result
 *                xT:ID         double free (not forwarded to the mempool)
 *                !T:what       table access (find/remove/insert) by datarepo.c without the bucket lock
 *        a fault (NULL entry dereferenced) ends the case: events so far and <crash tT>;
 *        <starved>: the remaining threads all wait for a grant; <deadlock>: one waits for a lock.  */
#include "interpose.h"
#include "cosched.h"
#include "parsec/parsec_config.h"
#include "parsec/runtime.h"
#include "parsec/mempool.h"
#include <signal.h>
#include <stdarg.h>
#include <unistd.h>
static void *h_alloc(parsec_thread_mempool_t *p);
static void  h_free(parsec_thread_mempool_t *p, void *e);
#define parsec_thread_mempool_allocate(p) h_alloc(p)
#define parsec_thread_mempool_free(p, e)  h_free(p, e)
#include "parsec/class/parsec_hash_table.c"
/* lock-discipline probe: the nolock_* table accesses of datarepo.c must happen while the bucket is
 * locked (code that follows an unlock runs in the same segment as the unlock, so a table access
 * moved behind the unlock would otherwise look atomic to the controlled schedules) */
static void emit(const char *fmt, ...);
static void h_locked(parsec_hash_table_t *ht, const parsec_key_handle_t *kh, const char *what) {
    parsec_atomic_lock_t *l = &ht->rw_hash->buckets[kh->hash].lock;
    if ((parsec_atomic_trylock)(l)) { (parsec_atomic_unlock)(l); emit(" !%d:%s", cos_self(), what); }
}
#define parsec_hash_table_nolock_find_handle(ht, kh)      (h_locked(ht, kh, "find"),   parsec_hash_table_nolock_find_handle(ht, kh))
#define parsec_hash_table_nolock_remove_handle(ht, kh)    (h_locked(ht, kh, "remove"), parsec_hash_table_nolock_remove_handle(ht, kh))
#define parsec_hash_table_nolock_insert_handle(ht, kh, i) (h_locked(ht, kh, "insert"), parsec_hash_table_nolock_insert_handle(ht, kh, i))
#include "parsec/datarepo.c"
#undef parsec_thread_mempool_allocate
#undef parsec_thread_mempool_free
#undef parsec_hash_table_nolock_find_handle
#undef parsec_hash_table_nolock_remove_handle
#undef parsec_hash_table_nolock_insert_handle
#include "hcommon.h"

#define MAXT 8
#define MAXOPS 64
#define MAXK 16
#define MAXE 256
enum { K_LOOK = 0, K_CREATE = 1, K_ADDTO = 2, K_USE = 3 };
typedef struct { int kind; uint64_t key; long arg; } op_t;
static op_t ops[MAXT][MAXOPS];
static int nops[MAXT], nt;
static uint64_t keys[MAXK]; static long budget[MAXK]; static int nkeys;
static data_repo_t *repo;
static parsec_mempool_t mp;
static parsec_execution_stream_t es[MAXT];
static struct { void *p; int id; int live; } ent[MAXE];
static int nent, next_id;
static int cur_kind[MAXT], op_alloc[MAXT], op_discard[MAXT], at_gate[MAXT];
static char out[1 << 16]; static size_t outn;

static void emit(const char *fmt, ...) {
    va_list ap; va_start(ap, fmt);
    if (outn < sizeof(out) - 128) outn += vsnprintf(out + outn, sizeof(out) - outn, fmt, ap);
    va_end(ap);
}
static int key_index(uint64_t k) {
    for (int i = 0; i < nkeys; i++) if (keys[i] == k) return i;
    if (nkeys < MAXK) { keys[nkeys] = k; budget[nkeys] = 0; return nkeys++; }
    return 0;
}
static int ent_slot(void *p) { for (int i = 0; i < nent; i++) if (ent[i].p == p) return i; return -1; }
static int ent_id(void *p) { int s = ent_slot(p); return s < 0 ? -1 : ent[s].id; }

static void *h_alloc(parsec_thread_mempool_t *p) {
    int save = cos_enabled; cos_enabled = 0;
    void *e = (parsec_thread_mempool_allocate)(p);
    cos_enabled = save;
    int s = ent_slot(e);
    if (s < 0 && nent < MAXE) { s = nent++; ent[s].p = e; }
    if (s >= 0) { ent[s].id = next_id; ent[s].live = 1; }
    int t = cos_self(); if (t >= 0) op_alloc[t] = next_id;
    next_id++;
    return e;
}
static void h_free(parsec_thread_mempool_t *p, void *e) {
    int t = cos_self(), s = ent_slot(e);
    if (s >= 0 && !ent[s].live) { emit(" x%d:%d", t, ent[s].id); return; }
    if (s >= 0) ent[s].live = 0;
    if (t >= 0 && cur_kind[t] == K_CREATE) { emit(" d%d:%d", t, s < 0 ? -1 : ent[s].id); op_discard[t] = 1; }
    else emit(" r%d:%lu=%d", t, (unsigned long)((data_repo_entry_t *)e)->ht_item.key, s < 0 ? -1 : ent[s].id);
    int save = cos_enabled; cos_enabled = 0;
    (parsec_thread_mempool_free)(p, e);
    cos_enabled = save;
}

static void thread_fn(void *arg) {
    int t = (int)(intptr_t)arg;
    for (int i = 0; i < nops[t]; i++) {
        if (i) cos_yield();                       /* operation boundaries are step boundaries */
        op_t *o = &ops[t][i];
        parsec_key_t key = (parsec_key_t)o->key;
        int ki = key_index(o->key);
        data_repo_entry_t *e;
        cur_kind[t] = o->kind; op_alloc[t] = -1; op_discard[t] = 0;
        switch (o->kind) {
        case K_LOOK:
            e = data_repo_lookup_entry(repo, key);
            if (e) emit(" l%d:%lu=%d:%d/%d/%d", t, (unsigned long)o->key, ent_id(e), (int)e->usagecnt, (int)e->usagelmt, (int)e->retained);
            else   emit(" l%d:%lu=-", t, (unsigned long)o->key);
            break;
        case K_CREATE:
            e = data_repo_lookup_entry_and_create(&es[t], repo, key);
            emit(" c%d:%lu=%d%c", t, (unsigned long)o->key, ent_id(e), (op_alloc[t] >= 0 && !op_discard[t]) ? 'n' : 'f');
            budget[ki] += o->arg;                 /* the creator may now enable o->arg consumers */
            break;
        case K_ADDTO:
            data_repo_entry_addto_usage_limit(repo, key, (uint32_t)o->arg);
            emit(" a%d:%lu+%ld", t, (unsigned long)o->key, o->arg);
            break;
        case K_USE:
            at_gate[t] = 1;
            while (budget[ki] <= 0) cos_spin();   /* a consumer exists only once a creator enabled it */
            at_gate[t] = 0; budget[ki]--;
            e = data_repo_lookup_entry(repo, key);
            if (NULL == e) { emit(" m%d:%lu", t, (unsigned long)o->key); break; }
            data_repo_entry_used_once(repo, key);
            emit(" u%d:%lu", t, (unsigned long)o->key);
            break;
        }
    }
}

static volatile int crashed = -2;     /* -2: no fault; otherwise the thread that faulted (-1: outside a thread) */
static volatile int timedout;
static void finish_line(const char *tail) {
    emit("%s\n", tail);
    size_t skip = (outn && out[0] == ' ') ? 1 : 0;                 /* every item starts with a blank */
    fwrite(out + skip, 1, outn - skip, stdout);
    outn = 0;
}
/* a NULL entry dereferenced inside a coroutine: give the control back to the scheduler loop
 * (the case is over; its repository and coroutines are abandoned) */
static void on_fault(int sig) {
    if (cos_cur < 0) { finish_line(sig == SIGALRM ? " <timeout>" : " <crash outside threads>"); fflush(stdout); _exit(1); }
    if (sig == SIGALRM) timedout = 1;
    crashed = cos_cur; cos_cur = -1;
    setcontext(&cos_main_ctx);
}
static int cmp_u64(const void *a, const void *b) { uint64_t x = *(const uint64_t *)a, y = *(const uint64_t *)b; return x < y ? -1 : x > y; }

static void run_case(char *l) {
    static long v[4096], sched[16384];
    char *p = l; int k = hc_ints(&p, v, 2);
    int nb = k > 0 ? (int)v[0] : 1; nt = k > 1 ? (int)v[1] : 0;
    outn = 0;
    if (nt < 0 || nt > MAXT || nb < 1 || nb > 16) { finish_line("<bad case>"); return; }
    nkeys = 0; nent = 0; next_id = 0; crashed = -2; timedout = 0; memset(at_gate, 0, sizeof(at_gate));
    for (int t = 0; t < nt; t++) {
        k = hc_ints(&p, v, 3 * MAXOPS);
        nops[t] = k / 3;
        for (int i = 0; i < nops[t]; i++) {
            ops[t][i].kind = (int)v[3 * i]; ops[t][i].key = (uint64_t)v[3 * i + 1]; ops[t][i].arg = v[3 * i + 2];
            if (ops[t][i].kind < 0 || ops[t][i].kind > 3) { finish_line("<bad case>"); return; }
            key_index(ops[t][i].key);
        }
    }
    int ns = hc_ints(&p, sched, 16384);
    /* what parsec_init provides: per-thread mempools of repo entries with nbdata = 1 data slot,
       and the hash-table tunables (defaults of parsec_hash_tables_init) */
    unsigned int nbdata = 1;
    parsec_mempool_construct(&mp, NULL, sizeof(data_repo_entry_t) + (nbdata - 1) * sizeof(void *),
                             offsetof(data_repo_entry_t, data_repo_mempool_owner), nt > 0 ? nt : 1);
    memset(es, 0, sizeof(es));
    for (int t = 0; t < nt; t++) { es[t].th_id = t; es[t].datarepo_mempools[nbdata] = &mp.thread_mempools[t]; }
    repo = data_repo_create_nothreadsafe(1U << nb, parsec_hash_table_generic_key_fn, NULL, nbdata);
    repo->table.max_collisions_hint = 16; repo->table.max_table_nb_bits = 24;
    cos_reset();
    for (int t = 0; t < nt; t++) { cos_spawn(thread_fn, (void *)(intptr_t)t); if (0 == nops[t]) cos_finished[t] = 1; }
    /* cos_run with two additions: stop at a fault, stop when a whole round only stuttered */
    int stuck = 0; long rounds = 0;
    hc_alarm(20);
    for (int i = 0; i < ns && crashed == -2; i++) cos_step((int)sched[i]);
    while (crashed == -2 && !cos_all_done()) {
        int progress = 0;
        for (int t = 0; t < nt && crashed == -2; t++)
            if (cos_step(t) && (!cos_last_spin[t] || cos_finished[t])) progress = 1;
        if (crashed != -2) break;
        if (!progress || ++rounds > 5000) {
            stuck = 1;                                    /* only gate waits: the clients starve each other */
            for (int t = 0; t < nt; t++) if (!cos_finished[t] && !at_gate[t]) stuck = 2;   /* somebody waits for a lock */
            break;
        }
    }
    hc_alarm(0);
    if (crashed != -2) {
        char tail[64];
        if (timedout) snprintf(tail, sizeof tail, " <timeout t%d>", crashed); else snprintf(tail, sizeof tail, " <crash t%d>", crashed);
        finish_line(tail); return;
    }
    emit(" | tab:");
    qsort(keys, nkeys, sizeof(keys[0]), cmp_u64);
    for (int i = 0; i < nkeys; i++) {
        data_repo_entry_t *e = (data_repo_entry_t *)parsec_hash_table_nolock_find(&repo->table, (parsec_key_t)keys[i]);
        if (e) emit(" %lu=%d:%d/%d/%d", (unsigned long)keys[i], ent_id(e), (int)e->usagecnt, (int)e->usagelmt, (int)e->retained);
    }
    emit(" | steps:");
    for (int t = 0; t < nt; t++) emit(" %d", cos_steps[t]);
    finish_line(stuck == 2 ? " <deadlock>" : stuck == 1 ? " <starved>" : "");
    if (!stuck) { parsec_mempool_destruct(&mp); }
}

int main(int argc, char **argv) {
    FILE *f = hc_open(argc, argv); char *l;
    struct sigaction sa; memset(&sa, 0, sizeof sa); sa.sa_handler = on_fault; sa.sa_flags = SA_NODEFER;
    sigaction(SIGSEGV, &sa, NULL); sigaction(SIGBUS, &sa, NULL); sigaction(SIGALRM, &sa, NULL);
    while ((l = hc_next(f))) { run_case(l); fflush(stdout); }
    return 0;
}
