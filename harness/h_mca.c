/* C38 harness: drives the real MCA parameter system of libparsec
 * (parsec/utils/mca_param.c, mca_parse_paramfile.c, keyval_parse.c, mca_param_cmd_line.c,
 * cmd_line.c) through its public entry points.
 *
 * One case per line, run in a forked child of its own (the parameter table, the list of file
 * values and the environment are process-global).  Segments are separated by " | "; a string
 * is "=" followed by its characters ("=" alone is the empty string) or NULL.
 *
 *   files [ name =val name NULL ... ] [ ... ]   write the parameter files f0.conf f1.conf ..., point
 *                                               PARSEC_MCA_mca_param_files at them (in this order),
 *                                               initialise the parameter system           -> init
 *   recache [ ... ] [ ... ]                     rewrite the files, parsec_mca_param_recache_files -> rc
 *   env name =val | unenv name                  setenv / unsetenv PARSEC_MCA_<name>       -> e
 *   reg T tn pn ro internal dflt cur            parsec_mca_param_reg_{int,sizet,string}_name (T = i z s)
 *                                                                                         -> r<ret>:<value or ->
 *   syn idx tn pn deprecated                    parsec_mca_param_reg_syn_name             -> y<rc>
 *   set idx T val | unset idx                   parsec_mca_param_set_* / _unset           -> s<rc> / u<rc>
 *   look idx T                                  parsec_mca_param_lookup_source + lookup_T -> NF | SRC:<value>
 *   find tn pn                                  parsec_mca_param_find(tn, NULL, pn)       -> f<idx>
 *   cmd m name =val g name =val ...             argv "--mca name val --gmca name val ..." through
 *                                               parsec_mca_cmd_line_setup, parsec_cmd_line_parse,
 *                                               parsec_mca_cmd_line_process_args and the copy loop of
 *                                               parsec_init                                -> c name=val;...
 * A case whose child dies ends with "<crash>". */
#include "parsec/parsec_config.h"
#include "parsec/constants.h"
#include "parsec/class/parsec_object.h"
#include "parsec/utils/mca_param.h"
#include "parsec/utils/mca_param_cmd_line.h"
#include "parsec/utils/cmd_line.h"
#include "parsec/utils/installdirs.h"
#include "parsec/utils/output.h"
#include "parsec/utils/show_help.h"
#include "parsec/utils/parsec_environ.h"
#include "hcommon.h"
#include <stdarg.h>
#include <stdbool.h>
#include <unistd.h>
#include <signal.h>
#include <fcntl.h>
#include <sys/wait.h>
#include <sys/stat.h>

extern char **environ;
#define MAXF 4
static char dir[256];
static int outfd = -1;

static void out(const char *fmt, ...) {
    char tmp[8192]; va_list ap; va_start(ap, fmt);
    int n = vsnprintf(tmp, sizeof tmp, fmt, ap); va_end(ap);
    if (n >= (int)sizeof tmp) n = (int)sizeof tmp - 1;
    if (n > 0 && write(outfd, tmp, (size_t)n) != n) _exit(3);
}

static char *tk_next(char **p) {
    char *s = *p;
    while (*s == ' ') s++;
    if (!*s) { *p = s; return NULL; }
    char *b = s;
    while (*s && *s != ' ') s++;
    if (*s) *s++ = 0;
    *p = s; return b;
}
/* "=chars" -> chars, "NULL" -> NULL; *bad set on anything else */
static char *tk_str(char **p, int *bad) {
    char *t = tk_next(p);
    if (!t) { *bad = 1; return NULL; }
    if (!strcmp(t, "NULL")) return NULL;
    if (t[0] != '=') { *bad = 1; return NULL; }
    return t + 1;
}
static long long tk_int(char **p, int *bad) {
    char *t = tk_next(p), *e;
    if (!t) { *bad = 1; return 0; }
    long long v = strtoll(t, &e, 10);
    if (*e || e == t) *bad = 1;
    return v;
}

/* writes the files described by the rest of the segment; returns their number or -1 */
static int write_files(char *p) {
    int nf = 0; char *t;
    for (int i = 0; i < MAXF; i++) { char fn[320]; snprintf(fn, sizeof fn, "%s/f%d.conf", dir, i); unlink(fn); }
    while ((t = tk_next(&p))) {
        if (strcmp(t, "[") || nf == MAXF) return -1;
        char fn[320]; snprintf(fn, sizeof fn, "%s/f%d.conf", dir, nf);
        FILE *f = fopen(fn, "w");
        if (!f) return -1;
        for (;;) {
            t = tk_next(&p);
            if (!t) { fclose(f); return -1; }
            if (!strcmp(t, "]")) break;
            int bad = 0; char *v = tk_str(&p, &bad);
            if (bad) { fclose(f); return -1; }
            if (v) fprintf(f, "%s = %s\n", t, v); else fprintf(f, "%s =\n", t);
        }
        fclose(f); nf++;
    }
    char paths[MAXF * 330]; paths[0] = 0;
    for (int i = 0; i < nf; i++) {
        char fn[330]; snprintf(fn, sizeof fn, "%s%s/f%d.conf", i ? ":" : "", dir, i);
        strcat(paths, fn);
    }
    setenv("PARSEC_MCA_mca_param_files", paths, 1);
    return nf;
}

static void show_value(char T, int iv, size_t zv, const char *sv) {
    if (T == 'i') out("i%d", iv);
    else if (T == 'z') out("z%zu", zv);
    else if (sv) out("s\"%s\"", sv);
    else out("sNULL");
}

static int file_index(const char *path) {
    if (!path) return -1;
    const char *b = strrchr(path, '/');
    b = b ? b + 1 : path;
    if (b[0] == 'f' && b[1] >= '0' && b[1] <= '9') return b[1] - '0';
    return -1;
}

static void do_segment(char *seg) {
    char *p = seg, *op = tk_next(&p); int bad = 0;
    if (!op) { out("<bad case>"); return; }
    if (!strcmp(op, "files")) {
        if (write_files(p) < 0) { out("<bad case>"); return; }
        /* the order of parsec_init */
        parsec_installdirs_open();
        parsec_mca_param_init();
        parsec_output_init();
        parsec_show_help_init();
        out("init");
    } else if (!strcmp(op, "recache")) {
        if (write_files(p) < 0) { out("<bad case>"); return; }
        parsec_mca_param_recache_files();
        out("rc");
    } else if (!strcmp(op, "env")) {
        char *n = tk_next(&p), *v = tk_str(&p, &bad);
        if (!n || bad || !v) { out("<bad case>"); return; }
        char name[512]; snprintf(name, sizeof name, "PARSEC_MCA_%s", n);
        setenv(name, v, 1); out("e");
    } else if (!strcmp(op, "unenv")) {
        char *n = tk_next(&p);
        if (!n) { out("<bad case>"); return; }
        char name[512]; snprintf(name, sizeof name, "PARSEC_MCA_%s", n);
        unsetenv(name); out("e");
    } else if (!strcmp(op, "reg")) {
        char *T = tk_next(&p); char *tn = tk_str(&p, &bad), *pn = tk_str(&p, &bad);
        long long ro = tk_int(&p, &bad), in = tk_int(&p, &bad);
        if (!T || bad) { out("<bad case>"); return; }
        if (T[0] == 'i') {
            long long d = tk_int(&p, &bad), cur = tk_int(&p, &bad); int v = -777;
            if (bad) { out("<bad case>"); return; }
            int r = parsec_mca_param_reg_int_name(tn, pn, "help", in != 0, ro != 0, (int)d, cur ? &v : NULL);
            out("r%d:", r); if (cur && r >= 0) show_value('i', v, 0, NULL); else out("-");
        } else if (T[0] == 'z') {
            char *ds = tk_next(&p); long long cur = tk_int(&p, &bad); size_t v = 777;
            if (!ds || bad) { out("<bad case>"); return; }
            int r = parsec_mca_param_reg_sizet_name(tn, pn, "help", in != 0, ro != 0, (size_t)strtoull(ds, NULL, 10), cur ? &v : NULL);
            out("r%d:", r); if (cur && r >= 0) show_value('z', 0, v, NULL); else out("-");
        } else {
            char *d = tk_str(&p, &bad); long long cur = tk_int(&p, &bad); char *v = (char *)"<unset>";
            if (bad) { out("<bad case>"); return; }
            int r = parsec_mca_param_reg_string_name(tn, pn, "help", in != 0, ro != 0, d, cur ? &v : NULL);
            out("r%d:", r); if (cur && r >= 0) show_value('s', 0, 0, v); else out("-");
        }
    } else if (!strcmp(op, "syn")) {
        long long idx = tk_int(&p, &bad); char *tn = tk_str(&p, &bad), *pn = tk_str(&p, &bad);
        long long dep = tk_int(&p, &bad);
        if (bad) { out("<bad case>"); return; }
        out("y%d", parsec_mca_param_reg_syn_name((int)idx, tn, pn, dep != 0));
    } else if (!strcmp(op, "set")) {
        long long idx = tk_int(&p, &bad); char *T = tk_next(&p);
        if (!T || bad) { out("<bad case>"); return; }
        if (T[0] == 'i') {
            long long v = tk_int(&p, &bad); if (bad) { out("<bad case>"); return; }
            out("s%d", parsec_mca_param_set_int((int)idx, (int)v));
        } else if (T[0] == 'z') {
            char *vs = tk_next(&p); if (!vs) { out("<bad case>"); return; }
            out("s%d", parsec_mca_param_set_sizet((int)idx, (size_t)strtoull(vs, NULL, 10)));
        } else {
            char *v = tk_str(&p, &bad); if (bad) { out("<bad case>"); return; }
            out("s%d", parsec_mca_param_set_string((int)idx, v));
        }
    } else if (!strcmp(op, "unset")) {
        long long idx = tk_int(&p, &bad); if (bad) { out("<bad case>"); return; }
        out("u%d", parsec_mca_param_unset((int)idx));
    } else if (!strcmp(op, "look")) {
        long long idx = tk_int(&p, &bad); char *T = tk_next(&p);
        if (!T || bad) { out("<bad case>"); return; }
        parsec_mca_param_source_t src = MCA_PARAM_SOURCE_MAX; char *sf = NULL;
        int rc1 = parsec_mca_param_lookup_source((int)idx, &src, &sf);
        int iv = -777; size_t zv = 777; char *sv = (char *)"<unset>"; int rc2;
        if (T[0] == 'i') rc2 = parsec_mca_param_lookup_int((int)idx, &iv);
        else if (T[0] == 'z') rc2 = parsec_mca_param_lookup_sizet((int)idx, &zv);
        else rc2 = parsec_mca_param_lookup_string((int)idx, &sv);
        if (rc1 != rc2) { out("<rc %d/%d>", rc1, rc2); return; }
        if (rc1 != PARSEC_SUCCESS) { out("NF"); return; }
        switch (src) {
        case MCA_PARAM_SOURCE_DEFAULT: out("DEF:"); break;
        case MCA_PARAM_SOURCE_ENV: out("ENV:"); break;
        case MCA_PARAM_SOURCE_FILE: out("FILE@%d:", file_index(sf)); break;
        case MCA_PARAM_SOURCE_OVERRIDE: out("OVR:"); break;
        default: out("?%d:", (int)src);
        }
        show_value(T[0], iv, zv, sv);
    } else if (!strcmp(op, "find")) {
        char *tn = tk_str(&p, &bad), *pn = tk_str(&p, &bad);
        if (bad) { out("<bad case>"); return; }
        out("f%d", parsec_mca_param_find(tn, NULL, pn));
    } else if (!strcmp(op, "cmd")) {
        char *av[256]; int ac = 0; char *names[128]; int nn = 0;
        av[ac++] = (char *)"h_mca";
        for (;;) {
            char *k = tk_next(&p);
            if (!k) break;
            char *n = tk_next(&p), *v = tk_str(&p, &bad);
            if (!n || bad || !v || ac + 4 > 255) { out("<bad case>"); return; }
            av[ac++] = (char *)(k[0] == 'g' ? "--gmca" : "--mca"); av[ac++] = n; av[ac++] = v;
            int seen = 0;
            for (int i = 0; i < nn; i++) if (!strcmp(names[i], n)) seen = 1;
            if (!seen) names[nn++] = n;
        }
        av[ac] = NULL;
        /* what parsec_init does with its arguments */
        parsec_cmd_line_t *cmd_line = PARSEC_OBJ_NEW(parsec_cmd_line_t);
        char **ctx_environ = NULL, **env_variable, *env_name, *env_value;
        parsec_mca_cmd_line_setup(cmd_line);
        parsec_cmd_line_parse(cmd_line, true, ac, av);
        parsec_mca_cmd_line_process_args(cmd_line, &ctx_environ, &environ);
        if (ctx_environ != NULL) {
            for (env_variable = ctx_environ; *env_variable != NULL; env_variable++) {
                env_name = *env_variable;
                for (env_value = env_name; *env_value != '\0' && *env_value != '='; env_value++) ;
                if (*env_value == '=') { *env_value = '\0'; env_value++; }
                parsec_setenv(env_name, env_value, true, &environ);
                free(*env_variable);
            }
            free(ctx_environ);
        }
        PARSEC_OBJ_RELEASE(cmd_line);
        out("c");
        for (int i = 0; i < nn; i++) {
            char name[512]; snprintf(name, sizeof name, "PARSEC_MCA_%s", names[i]);
            char *v = getenv(name);
            out("%s%s=%s", i ? ";" : " ", names[i], v ? v : "<unset>");
        }
    } else out("<bad case>");
}

static void do_case(char *line) {
    char *s = line; int first = 1;
    for (;;) {
        char *e = strstr(s, " | ");
        if (e) *e = 0;
        if (!first) out(" | ");
        first = 0;
        do_segment(s);
        if (!e) break;
        s = e + 3;
    }
}

int main(int argc, char **argv) {
    FILE *f = hc_open(argc, argv); char *l;
    /* no MCA variable of the caller may leak into the cases */
    for (;;) {
        int found = 0;
        for (char **e = environ; *e; e++)
            if (!strncmp(*e, "PARSEC_MCA_", 11)) {
                char name[512]; size_t n = strcspn(*e, "=");
                if (n >= sizeof name) n = sizeof name - 1;
                memcpy(name, *e, n); name[n] = 0; unsetenv(name); found = 1; break;
            }
        if (!found) break;
    }
    snprintf(dir, sizeof dir, "/tmp/h_mca.%d", (int)getpid());
    mkdir(dir, 0700);
    while ((l = hc_next(f))) {
        int pfd[2];
        fflush(stdout);
        if (pipe(pfd)) { perror("pipe"); return 2; }
        pid_t pid = fork();
        if (pid < 0) { perror("fork"); return 2; }
        if (pid == 0) {
            close(pfd[0]); outfd = pfd[1];
            int nul = open("/dev/null", O_WRONLY);
            if (nul >= 0) { dup2(nul, 1); dup2(nul, 2); }   /* show_help messages */
            hc_alarm(20);
            do_case(l);
            _exit(0);
        }
        close(pfd[1]);
        char buf[4096]; ssize_t r; size_t got = 0; char tail[3] = { 0, 0, 0 };
        while ((r = read(pfd[0], buf, sizeof buf)) > 0) {
            fwrite(buf, 1, (size_t)r, stdout); got += (size_t)r;
            for (ssize_t i = 0; i < r; i++) { tail[0] = tail[1]; tail[1] = tail[2]; tail[2] = buf[i]; }
        }
        close(pfd[0]);
        int st = 0; waitpid(pid, &st, 0);
        if (!(WIFEXITED(st) && WEXITSTATUS(st) == 0)) {
            /* the child writes the separator before it starts a segment */
            if (got && !(tail[0] == ' ' && tail[1] == '|' && tail[2] == ' ')) fputs(" | ", stdout);
            if (WIFSIGNALED(st) && WTERMSIG(st) == SIGALRM) fputs("<timeout>", stdout);
            else if (WIFSIGNALED(st)) fputs("<crash>", stdout);
            else printf("<exit %d>", WEXITSTATUS(st));
        }
        fputc('\n', stdout);
    }
    for (int i = 0; i < MAXF; i++) { char fn[320]; snprintf(fn, sizeof fn, "%s/f%d.conf", dir, i); unlink(fn); }
    rmdir(dir);
    return 0;
}
