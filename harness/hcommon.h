/* shared helpers of the harnesses: case-file reading, canonical printing */
#ifndef VERIF_HCOMMON_H
#define VERIF_HCOMMON_H
#include <stdio.h>
#include <stdlib.h>
#include <string.h>
#include <stdint.h>
#include <signal.h>
#include <time.h>
#include <unistd.h>

#define HC_MAXLINE (1<<20)
static char hc_line[HC_MAXLINE];

/* watchdog of a case: SIGALRM after [sec] seconds of CPU time of this process (a wall-clock limit
 * fires on a loaded machine although nothing hangs), with a wall-clock backstop 30 times larger for
 * a process that blocks without consuming CPU.  hc_alarm(0) disarms both. */
static timer_t hc_cpu_timer;
static int hc_cpu_timer_ok = 0;
static void hc_alarm(unsigned sec) {
    struct itimerspec its; memset(&its, 0, sizeof its); its.it_value.tv_sec = (time_t)sec;
    if (!hc_cpu_timer_ok || timer_settime(hc_cpu_timer, 0, &its, NULL) != 0) {
        struct sigevent sev; memset(&sev, 0, sizeof sev);
        sev.sigev_notify = SIGEV_SIGNAL; sev.sigev_signo = SIGALRM;
        hc_cpu_timer_ok = (timer_create(CLOCK_PROCESS_CPUTIME_ID, &sev, &hc_cpu_timer) == 0)
                          && (timer_settime(hc_cpu_timer, 0, &its, NULL) == 0);
    }
    alarm(hc_cpu_timer_ok ? sec * 30 : sec);
}

/* iterate over the non-comment lines of a case file */
static FILE *hc_open(int argc, char **argv) {
    if (argc < 2) { fprintf(stderr, "usage: %s casefile\n", argv[0]); exit(2); }
    FILE *f = fopen(argv[1], "r");
    if (!f) { perror(argv[1]); exit(2); }
    return f;
}
static char *hc_next(FILE *f) {
    while (fgets(hc_line, HC_MAXLINE, f)) {
        size_t n = strlen(hc_line);
        while (n > 0 && (hc_line[n-1] == '\n' || hc_line[n-1] == '\r')) hc_line[--n] = 0;
        if (n == 0 || hc_line[0] == '#') continue;
        return hc_line;
    }
    return NULL;
}
/* parse whitespace separated longs from *p up to a '|' or end; returns count, advances *p past '|' */
static int hc_ints(char **p, long *out, int max) {
    int n = 0; char *s = *p;
    for (;;) {
        while (*s == ' ') s++;
        if (*s == 0) break;
        if (*s == '|') { s++; break; }
        char *e; long v = strtol(s, &e, 10);
        if (e == s) { s++; continue; }
        if (n < max) out[n++] = v;
        s = e;
    }
    *p = s; return n;
}
#endif
