/* C20 harness: drives the real tiled-matrix data distributions.  The sources of
 * the distributions are included so that the harness is recompiled against the
 * repository's current text (matrix.c comes from libparsec, rebuilt on every run).
 * parsec_vpmap_get_nb_vp() is redirected inside the included sources to a
 * variable of the harness, so that the number of virtual processes is an input.
 *
 * For one case every rank of the process grid is impersonated in this process
 * (the init functions take myrank as an argument).  No matrix memory is
 * allocated: mat is set to a fake non-NULL base that is never dereferenced and
 * the offset of each tile is read back from the data copy that data_of builds.
 *
 * cases (all integers):
 *  bc   P Q mb nb lm ln i j m n kp kq ip jq nbvp st     2D block cyclic (st: 1 tile, 0 lapack)
 *  kv   P Q mb nb lm ln i j m n kp kq ip jq nbvp st     k-cyclic view (kp,kq) of a plain 2DBC
 *  sym  P Q mb nb lm ln i j m n uplo nbvp               symmetric (uplo: 121 upper, 122 lower)
 *  vec  P Q mb lm i m distrib nbvp                      vector (distrib: 0 row, 1 col, 2 diag)
 *  tab  nodes mb nb lm ln i j m n nbvp | ranks | vpids  tabular, table given column major
 *  band P Q kp kq ip jq Pb Qb kpb kqb mb nb lm ln bs nbvp   band + off-band 2DBC
 *
 * observation, one line:
 *  mt nt lmt lnt | per rank "nlt:nr:nc:llm:lln" | per tile (m outer, n inner)
 *  "own:rk:pos:key:km.kn:dk:dm.dn:vp:off" or "own:x" when own is not a rank | views=same
 */
#include "parsec/parsec_config.h"
#include "parsec/runtime.h"
#include "parsec/vpmap.h"
#include "parsec/data_internal.h"
static int hv_nbvp = 1;
static int hv_get_nb_vp(void) { return hv_nbvp; }
#define parsec_vpmap_get_nb_vp hv_get_nb_vp
#include "parsec/data_dist/matrix/grid_2Dcyclic.c"
#include "parsec/data_dist/matrix/two_dim_rectangle_cyclic.c"
#include "parsec/data_dist/matrix/sym_two_dim_rectangle_cyclic.c"
#include "parsec/data_dist/matrix/vector_two_dim_cyclic.c"
#include "parsec/data_dist/matrix/two_dim_tabular.c"
#include "parsec/data_dist/matrix/two_dim_rectangle_cyclic_band.c"
#undef parsec_vpmap_get_nb_vp
#include "hcommon.h"
#include <setjmp.h>
#include <signal.h>
#include <pthread.h>
#include <sys/time.h>
#include <mpi.h>

#define MAXR 64
#define FAKE_BASE ((char *)0x40000000)
#define ELT 8 /* PARSEC_MATRIX_DOUBLE */

/* ---- watchdog: a loop of the code under test that does not terminate ----
 * The limit is CPU time of THIS thread (CLOCK_THREAD_CPUTIME_ID), not wall time: a
 * loaded machine can stall the process for seconds without the code under test
 * having run.  A periodic wall-clock tick only wakes the handler up, which then
 * compares the CPU time consumed since hv_arm with the limit.  SIGALRM is blocked
 * while MPI / PaRSEC start (their threads inherit the mask) and unblocked in the
 * main thread only, so the handler and its siglongjmp run on the main thread.
 * A hang of the vector init is believed only when it is confirmed: the same init
 * is run a second time with a limit ten times larger. */
#include <time.h>
static sigjmp_buf hv_jmp;
static volatile int hv_armed;
static volatile long long hv_start_ns, hv_limit_ns;
static long long hv_cpu_ns(void) {
    struct timespec ts; clock_gettime(CLOCK_THREAD_CPUTIME_ID, &ts);
    return (long long)ts.tv_sec * 1000000000LL + ts.tv_nsec;
}
static void hv_alarm(int s) {
    (void)s;
    if (!hv_armed) return;
    if (hv_cpu_ns() - hv_start_ns < hv_limit_ns) return;   /* not enough CPU consumed: keep going */
    hv_armed = 0;
    struct itimerval off = { {0, 0}, {0, 0} }; setitimer(ITIMER_REAL, &off, NULL);
    siglongjmp(hv_jmp, 1);
}
/* a crash of the code under test (mutated sources): report it, keep the remaining cases */
static sigjmp_buf hv_crash_jmp;
static volatile int hv_crash_ok;
static void hv_crash(int s) { if (hv_crash_ok) { hv_crash_ok = 0; siglongjmp(hv_crash_jmp, s); } _exit(70); }
static void hv_arm(int cpu_ms) {
    struct itimerval it = { {0, 20000}, {0, 20000} };      /* wake-up tick, 20 ms of wall time */
    hv_start_ns = hv_cpu_ns(); hv_limit_ns = (long long)cpu_ms * 1000000LL;
    hv_armed = 1; setitimer(ITIMER_REAL, &it, NULL);
}
static void hv_disarm(void) {
    struct itimerval it = { {0, 0}, {0, 0} };
    hv_armed = 0; setitimer(ITIMER_REAL, &it, NULL);
}

/* ---- output buffer: a case prints its line only when it completed ---- */
static char *ob; static size_t ol, oc;
static void oreset(void) { ol = 0; if (ob) ob[0] = 0; }
static void oput(const char *fmt, ...) {
    va_list ap; char tmp[256];
    va_start(ap, fmt); int k = vsnprintf(tmp, sizeof tmp, fmt, ap); va_end(ap);
    if (ol + k + 1 > oc) { oc = 2 * (ol + k + 1) + 4096; ob = realloc(ob, oc); }
    memcpy(ob + ol, tmp, k + 1); ol += k;
}

/* ---- padded data_map, so that a wrong position is observed, not a crash ---- */
typedef struct { parsec_data_t **base; long size, pad, hint; } pmap_t;
static void pmap_install(parsec_tiled_matrix_t *t, pmap_t *pm, long ntiles) {
    pm->pad = 2 * ntiles + 256; pm->size = 2 * pm->pad + 4 * ntiles + 256;
    pm->hint = t->nb_local_tiles > 0 ? t->nb_local_tiles : 0;
    pm->base = calloc(pm->size, sizeof(parsec_data_t *));
    free(t->data_map);
    t->data_map = pm->base + pm->pad;
}
static void pmap_remove(parsec_tiled_matrix_t *t, pmap_t *pm) {
    for (long k = 0; k < pm->size; k++) if (pm->base[k]) { parsec_data_destroy(pm->base[k]); pm->base[k] = NULL; }
    t->data_map = pm->base; t->nb_local_tiles = 0;
}
/* position at which data_of stored [d]; the slot is emptied again so that every
 * data_of call builds a fresh parsec_data_t (with its own key and pointer) */
static long pmap_take(pmap_t *pm, parsec_data_t *d, int *found) {
    /* the legal slots first (they are few), then everything */
    for (long k = pm->pad; k < pm->pad + pm->hint && k < pm->size; k++)
        if (pm->base[k] == d) { pm->base[k] = NULL; *found = 1; return k - pm->pad; }
    for (long k = 0; k < pm->size; k++)
        if (pm->base[k] == d) { pm->base[k] = NULL; *found = 1; return k - pm->pad; }
    *found = 0; return 0;
}

typedef void (*k2c_t)(parsec_data_collection_t *, parsec_data_key_t, int *, int *);

/* one tile, seen by its owner [o] (sub-collection [sub] holds the data map) */
static void tile_obs(parsec_data_collection_t *o, pmap_t *pm, pmap_t *pm2, k2c_t k2c, char *mat,
                     int m, int n, int own, int is_view) {
    (void)is_view;
    parsec_data_t *d = o->data_of(o, m, n);
    int found = 0; long pos = pmap_take(pm, d, &found);
    if (!found && pm2) pos = pmap_take(pm2, d, &found);
    long key = (long)d->key;
    int km = -1, kn = -1, dm = -1, dn = -1;
    k2c(o, d->key, &km, &kn);
    long dk = (long)o->data_key(o, m, n);
    k2c(o, (parsec_data_key_t)dk, &dm, &dn);
    long rk = o->rank_of_key ? (long)o->rank_of_key(o, (parsec_data_key_t)dk) : -1;
    int vp = o->vpid_of(o, m, n);
    parsec_data_copy_t *c = d->device_copies[0];
    long bytes = c ? (long)((char *)c->device_private - mat) : -1;
    oput(" %d:%ld:", own, rk);
    if (found) oput("%ld", pos); else oput("?");
    oput(":%ld:%d.%d:%ld:%d.%d:%d:", key, km, kn, dk, dm, dn, vp);
    if (bytes % ELT == 0) oput("%ld", bytes / ELT); else oput("b%ld", bytes);
    parsec_data_destroy(d);
}

static void k2c_bc(parsec_data_collection_t *o, parsec_data_key_t k, int *m, int *n) {
    parsec_matrix_block_cyclic_key2coords(o, k, m, n);
}
static void k2c_sym(parsec_data_collection_t *o, parsec_data_key_t k, int *m, int *n) {
    sym_twoDBC_key_to_coordinates(o, k, m, n);
}

/* ------------------------------------------------------------------ */
static void do_bc(long *v, int view) {
    int P = v[0], Q = v[1], mb = v[2], nb = v[3], lm = v[4], ln = v[5], i = v[6], j = v[7], m = v[8], n = v[9];
    int kp = v[10], kq = v[11], ip = v[12], jq = v[13], st = v[15];
    int nodes = P * Q;
    hv_nbvp = v[14];
    if (nodes < 1 || nodes > MAXR) { oput("<bad grid>"); return; }
    static parsec_matrix_block_cyclic_t org[MAXR], dcs[MAXR]; static pmap_t pm[MAXR];
    for (int r = 0; r < nodes; r++) {
        parsec_matrix_block_cyclic_init(&org[r], PARSEC_MATRIX_DOUBLE, st ? PARSEC_MATRIX_TILE : PARSEC_MATRIX_LAPACK,
                                        r, mb, nb, lm, ln, i, j, m, n, P, Q, view ? 1 : kp, view ? 1 : kq, ip, jq);
        org[r].mat = FAKE_BASE;
        pmap_install(&org[r].super, &pm[r], (long)org[r].super.lmt * org[r].super.lnt);
        if (view) parsec_matrix_block_cyclic_kview(&dcs[r], &org[r], kp, kq); else dcs[r] = org[r];
    }
    parsec_tiled_matrix_t *t0 = &dcs[0].super;
    oput("%d %d %d %d |", t0->mt, t0->nt, t0->lmt, t0->lnt);
    for (int r = 0; r < nodes; r++)
        oput(" %d:%d:%d:%d:%d", dcs[r].super.nb_local_tiles, dcs[r].nb_elem_r, dcs[r].nb_elem_c,
             dcs[r].super.llm, dcs[r].super.lln);
    oput(" |");
    int same = 1;
    for (int a = 0; a < t0->mt; a++) for (int b = 0; b < t0->nt; b++) {
        parsec_data_collection_t *o0 = &dcs[0].super.super;
        long own = (long)o0->rank_of(o0, a, b);
        for (int r = 1; r < nodes; r++) {
            parsec_data_collection_t *o = &dcs[r].super.super;
            if ((long)o->rank_of(o, a, b) != own) same = 0;
        }
        if (own < 0 || own >= nodes) { oput(" %ld:x", own); continue; }
        tile_obs(&dcs[own].super.super, &pm[own], NULL, k2c_bc, FAKE_BASE, a, b, (int)own, view);
    }
    oput(" | views=%s", same ? "same" : "differ");
    for (int r = 0; r < nodes; r++) { pmap_remove(&org[r].super, &pm[r]); parsec_tiled_matrix_destroy(&org[r].super); }
}

static void do_sym(long *v) {
    int P = v[0], Q = v[1], mb = v[2], nb = v[3], lm = v[4], ln = v[5], i = v[6], j = v[7], m = v[8], n = v[9];
    int uplo = v[10], nodes = P * Q;
    hv_nbvp = v[11];
    if (nodes < 1 || nodes > MAXR) { oput("<bad grid>"); return; }
    static parsec_matrix_sym_block_cyclic_t dcs[MAXR]; static pmap_t pm[MAXR];
    for (int r = 0; r < nodes; r++) {
        parsec_matrix_sym_block_cyclic_init(&dcs[r], PARSEC_MATRIX_DOUBLE, r, mb, nb, lm, ln, i, j, m, n, P, Q,
                                            (parsec_matrix_uplo_t)uplo);
        dcs[r].mat = FAKE_BASE;
        pmap_install(&dcs[r].super, &pm[r], (long)dcs[r].super.lmt * dcs[r].super.lnt);
    }
    parsec_tiled_matrix_t *t0 = &dcs[0].super;
    oput("%d %d %d %d |", t0->mt, t0->nt, t0->lmt, t0->lnt);
    /* nb_local_tiles is read before pmap_remove zeroes it */
    static int nlt[MAXR];
    for (int r = 0; r < nodes; r++) { nlt[r] = dcs[r].super.nb_local_tiles; oput(" %d:0:0:0:0", nlt[r]); }
    oput(" |");
    int same = 1;
    for (int a = 0; a < t0->mt; a++) for (int b = 0; b < t0->nt; b++) {
        parsec_data_collection_t *o0 = &dcs[0].super.super;
        long own = (long)o0->rank_of(o0, a, b);
        for (int r = 1; r < nodes; r++) {
            parsec_data_collection_t *o = &dcs[r].super.super;
            if ((long)o->rank_of(o, a, b) != own) same = 0;
        }
        if (own < 0 || own >= nodes) { oput(" %ld:x", own); continue; }
        tile_obs(&dcs[own].super.super, &pm[own], NULL, k2c_sym, FAKE_BASE, a, b, (int)own, 0);
    }
    oput(" | views=%s", same ? "same" : "differ");
    for (int r = 0; r < nodes; r++) { pmap_remove(&dcs[r].super, &pm[r]); parsec_tiled_matrix_destroy(&dcs[r].super); }
}

static void do_vec(long *v) {
    int P = v[0], Q = v[1], mb = v[2], lm = v[3], i = v[4], m = v[5], distrib = v[6], nodes = P * Q;
    hv_nbvp = v[7];
    if (nodes < 1 || nodes > MAXR) { oput("<bad grid>"); return; }
    static parsec_vector_two_dim_cyclic_t dcs[MAXR]; static pmap_t pm[MAXR];
    volatile int ninit = 0, hung = -1;
    for (volatile int r = 0; r < nodes; r++) {
        volatile int attempt = 0;
        /* first expiry (50 ms of CPU): not believed, run the init again with 500 ms of CPU */
        if (sigsetjmp(hv_jmp, 1)) { if (attempt >= 2) { hung = r; break; } }
        attempt++;
        hv_arm(attempt == 1 ? 50 : 500);
        parsec_vector_two_dim_cyclic_init(&dcs[r], PARSEC_MATRIX_DOUBLE,
                                          (enum parsec_vector_two_dim_cyclic_distrib_t)distrib, r, mb, lm, i, m, P, Q);
        hv_disarm();
        dcs[r].mat = FAKE_BASE;
        pmap_install(&dcs[r].super, &pm[r], (long)dcs[r].super.lmt);
        ninit = r + 1;
    }
    /* the derived sizes do not depend on the rank; rank 0 never hangs (pmq = 0) */
    parsec_tiled_matrix_t *t0 = &dcs[0].super;
    oput("%d 1 %d 1 |", t0->mt, t0->lmt);
    for (int r = 0; r < nodes; r++) {
        if (r < ninit) oput(" %d:0:0:%d:%d", dcs[r].super.nb_local_tiles, dcs[r].super.llm, dcs[r].super.lln);
        else if (r == hung) oput(" hang");
        else oput(" skip");
    }
    oput(" |");
    int same = 1;
    if (hung < 0) {
        for (int a = 0; a < t0->mt; a++) {
            parsec_data_collection_t *o0 = &dcs[0].super.super;
            long own = (long)o0->rank_of(o0, a);
            for (int r = 1; r < nodes; r++) {
                parsec_data_collection_t *o = &dcs[r].super.super;
                if ((long)o->rank_of(o, a) != own) same = 0;
            }
            if (own < 0 || own >= nodes) { oput(" %ld:x", own); continue; }
            parsec_data_collection_t *o = &dcs[own].super.super;
            parsec_data_t *d = o->data_of(o, a);
            int found = 0; long pos = pmap_take(&pm[own], d, &found);
            int vp = o->vpid_of(o, a);
            parsec_data_copy_t *c = d->device_copies[0];
            long bytes = c ? (long)((char *)c->device_private - FAKE_BASE) : -1;
            oput(" %ld:", own);
            if (found) oput("%ld", pos); else oput("?");
            oput(":%ld:%d:", (long)d->key, vp);
            if (bytes % ELT == 0) oput("%ld", bytes / ELT); else oput("b%ld", bytes);
            parsec_data_destroy(d);
        }
    } else oput(" -");
    oput(" | views=%s", same ? "same" : "differ");
    for (int r = 0; r < ninit; r++) { pmap_remove(&dcs[r].super, &pm[r]); parsec_tiled_matrix_destroy(&dcs[r].super); }
}

static void do_tab(long *v, long *ranks, int nr, long *vpids, int nv) {
    int nodes = v[0], mb = v[1], nb = v[2], lm = v[3], ln = v[4], i = v[5], j = v[6], m = v[7], n = v[8];
    hv_nbvp = v[9];
    if (nodes < 1 || nodes > MAXR) { oput("<bad grid>"); return; }
    static parsec_matrix_tabular_t dcs[MAXR]; static pmap_t pm[MAXR];
    for (int r = 0; r < nodes; r++) {
        parsec_matrix_tabular_init(&dcs[r], PARSEC_MATRIX_DOUBLE, nodes, r, mb, nb, lm, ln, i, j, m, n, NULL);
        int ne = dcs[r].super.lmt * dcs[r].super.lnt;
        if (ne != nr || ne != nv) { oput("<bad table>"); for (int q = 0; q <= r; q++) parsec_tiled_matrix_destroy(&dcs[q].super); return; }
        parsec_two_dim_td_table_t *tb = malloc(sizeof(*tb) + (ne > 0 ? ne - 1 : 0) * sizeof(parsec_two_dim_td_table_elem_t));
        tb->nbelem = ne;
        for (int k = 0; k < ne; k++) { tb->elems[k].rank = (uint32_t)ranks[k]; tb->elems[k].vpid = (int32_t)vpids[k];
                                       tb->elems[k].pos = -7; tb->elems[k].data = NULL; }
        parsec_matrix_tabular_set_table(&dcs[r], tb);
        pmap_install(&dcs[r].super, &pm[r], (long)ne);
    }
    parsec_tiled_matrix_t *t0 = &dcs[0].super;
    oput("%d %d %d %d |", t0->mt, t0->nt, t0->lmt, t0->lnt);
    for (int r = 0; r < nodes; r++) oput(" %d:0:0:0:0", dcs[r].super.nb_local_tiles);
    oput(" |");
    int same = 1;
    for (int a = 0; a < t0->mt; a++) for (int b = 0; b < t0->nt; b++) {
        parsec_data_collection_t *o0 = &dcs[0].super.super;
        long own = (long)o0->rank_of(o0, a, b);
        for (int r = 1; r < nodes; r++) {
            parsec_data_collection_t *o = &dcs[r].super.super;
            if ((long)o->rank_of(o, a, b) != own) same = 0;
        }
        if (own < 0 || own >= nodes) { oput(" %ld:x", own); continue; }
        parsec_data_collection_t *o = &dcs[own].super.super;
        parsec_data_t *d = o->data_of(o, a, b);
        int found = 0; long pos = pmap_take(&pm[own], d, &found);
        long dk = (long)o->data_key(o, a, b);
        long rk = (long)o->rank_of_key(o, (parsec_data_key_t)dk);
        int vp = o->vpid_of(o, a, b);
        /* a tabular key is the index in the table: coordinates by the same division as the other collections */
        int lmt = dcs[own].super.lmt, oi = dcs[own].super.i / mb, oj = dcs[own].super.j / nb;
        long key = (long)d->key;
        oput(" %ld:%ld:", own, rk);
        if (found) oput("%ld", pos); else oput("?");
        oput(":%ld:%ld.%ld:%ld:%ld.%ld:%d:0", key, key % lmt - oi, key / lmt - oj, dk, dk % lmt - oi, dk / lmt - oj, vp);
        parsec_data_destroy(d);
    }
    oput(" | views=%s", same ? "same" : "differ");
    for (int r = 0; r < nodes; r++) { pmap_remove(&dcs[r].super, &pm[r]); parsec_matrix_tabular_destroy(&dcs[r]); }
}

static void do_band(long *v) {
    int P = v[0], Q = v[1], kp = v[2], kq = v[3], ip = v[4], jq = v[5], Pb = v[6], Qb = v[7], kpb = v[8], kqb = v[9];
    int mb = v[10], nb = v[11], lm = v[12], ln = v[13], bs = v[14], nodes = P * Q;
    hv_nbvp = v[15];
    if (nodes < 1 || nodes > MAXR || Pb * Qb != nodes) { oput("<bad grid>"); return; }
    static parsec_matrix_block_cyclic_band_t dcs[MAXR]; static pmap_t pmo[MAXR], pmb[MAXR];
    for (int r = 0; r < nodes; r++) {
        parsec_matrix_block_cyclic_init(&dcs[r].off_band, PARSEC_MATRIX_DOUBLE, PARSEC_MATRIX_TILE, r, mb, nb, lm, ln, 0, 0,
                                        lm, ln, P, Q, kp, kq, ip, jq);
        parsec_matrix_block_cyclic_init(&dcs[r].band, PARSEC_MATRIX_DOUBLE, PARSEC_MATRIX_TILE, r, mb, nb, mb * (2 * bs - 1), ln,
                                        0, 0, mb * (2 * bs - 1), ln, Pb, Qb, kpb, kqb, 0, 0);
        parsec_matrix_block_cyclic_band_init(&dcs[r], nodes, r, bs);
        dcs[r].off_band.mat = FAKE_BASE; dcs[r].band.mat = FAKE_BASE;
        pmap_install(&dcs[r].off_band.super, &pmo[r], (long)dcs[r].off_band.super.lmt * dcs[r].off_band.super.lnt);
        pmap_install(&dcs[r].band.super, &pmb[r], (long)dcs[r].band.super.lmt * dcs[r].band.super.lnt);
    }
    parsec_tiled_matrix_t *t0 = &dcs[0].super;
    oput("%d %d %d %d |", t0->mt, t0->nt, t0->lmt, t0->lnt);
    for (int r = 0; r < nodes; r++)
        oput(" %d:%d:0:0:0", dcs[r].off_band.super.nb_local_tiles, dcs[r].band.super.nb_local_tiles);
    oput(" |");
    int same = 1;
    for (int a = 0; a < t0->mt; a++) for (int b = 0; b < t0->nt; b++) {
        parsec_data_collection_t *o0 = &dcs[0].super.super;
        long own = (long)o0->rank_of(o0, a, b);
        for (int r = 1; r < nodes; r++) {
            parsec_data_collection_t *o = &dcs[r].super.super;
            if ((long)o->rank_of(o, a, b) != own) same = 0;
        }
        if (own < 0 || own >= nodes) { oput(" %ld:x", own); continue; }
        parsec_data_collection_t *o = &dcs[own].super.super;
        parsec_data_t *d = o->data_of(o, a, b);
        int inband = 0, found = 0;
        long pos = pmap_take(&pmo[own], d, &found);
        if (!found) { pos = pmap_take(&pmb[own], d, &found); inband = found; }
        int vp = o->vpid_of(o, a, b);
        long rk = (long)o->rank_of_key(o, o->data_key(o, a, b));
        parsec_data_copy_t *c = d->device_copies[0];
        long bytes = c ? (long)((char *)c->device_private - FAKE_BASE) : -1;
        /* which sub-collection the data belongs to is part of the slot */
        oput(" %ld:%ld:%d.", own, rk, inband);
        if (found) oput("%ld", pos); else oput("?");
        oput(":%ld:%d:", (long)d->key, vp);
        if (bytes % ELT == 0) oput("%ld", bytes / ELT); else oput("b%ld", bytes);
        parsec_data_destroy(d);
    }
    oput(" | views=%s", same ? "same" : "differ");
    for (int r = 0; r < nodes; r++) {
        pmap_remove(&dcs[r].off_band.super, &pmo[r]); parsec_tiled_matrix_destroy(&dcs[r].off_band.super);
        pmap_remove(&dcs[r].band.super, &pmb[r]); parsec_tiled_matrix_destroy(&dcs[r].band.super);
        parsec_tiled_matrix_destroy(&dcs[r].super);
    }
}

#define MAXT 20000
int main(int argc, char **argv) {
    FILE *f = hc_open(argc, argv); char *l;
    sigset_t alrm; sigemptyset(&alrm); sigaddset(&alrm, SIGALRM);
    pthread_sigmask(SIG_BLOCK, &alrm, NULL);               /* inherited by the threads MPI / PaRSEC create */
    int prov; MPI_Init_thread(&argc, &argv, MPI_THREAD_SERIALIZED, &prov);
    int pargc = 0; char **pargv = NULL;
    parsec_context_t *ctx = parsec_init(1, &pargc, &pargv);
    if (!ctx) { fprintf(stderr, "parsec_init failed\n"); return 3; }
    struct sigaction sa; memset(&sa, 0, sizeof sa); sa.sa_handler = hv_alarm; sigaction(SIGALRM, &sa, NULL);
    pthread_sigmask(SIG_UNBLOCK, &alrm, NULL);             /* main thread only */
    sa.sa_handler = hv_crash; sigaction(SIGSEGV, &sa, NULL); sigaction(SIGBUS, &sa, NULL); sigaction(SIGFPE, &sa, NULL);
    static long v[32], ranks[MAXT], vpids[MAXT];
    while ((l = hc_next(f))) {
        char kind[16]; int off = 0;
        oreset();
        if (sscanf(l, "%15s%n", kind, &off) != 1) { printf("<bad case>\n"); continue; }
        char *p = l + off; int k = hc_ints(&p, v, 32);
        volatile int done = 0;
        int sig;
        if ((sig = sigsetjmp(hv_crash_jmp, 1))) {
            hv_disarm(); printf("<crash signal %d>\n", sig); fflush(stdout); continue;
        }
        hv_crash_ok = 1;
        if (strcmp(kind, "vec") && sigsetjmp(hv_jmp, 1)) {
            hv_crash_ok = 0; printf("<timeout>\n"); fflush(stdout); continue;
        }
        if (!strcmp(kind, "bc") && k == 16) { hv_arm(20000); do_bc(v, 0); hv_disarm(); }
        else if (!strcmp(kind, "kv") && k == 16) { hv_arm(20000); do_bc(v, 1); hv_disarm(); }
        else if (!strcmp(kind, "sym") && k == 12) { hv_arm(20000); do_sym(v); hv_disarm(); }
        else if (!strcmp(kind, "vec") && k == 8) do_vec(v);
        else if (!strcmp(kind, "tab") && k == 10) {
            int nr = hc_ints(&p, ranks, MAXT), nv = hc_ints(&p, vpids, MAXT);
            hv_arm(20000); do_tab(v, ranks, nr, vpids, nv); hv_disarm();
        }
        else if (!strcmp(kind, "band") && k == 16) { hv_arm(20000); do_band(v); hv_disarm(); }
        else oput("<bad case>");
        (void)done; hv_crash_ok = 0;
        printf("%s\n", ob ? ob : "");
    }
    fflush(stdout);
    parsec_fini(&ctx);
    MPI_Finalize();
    return 0;
}
