/* reshape_rt.h — runtime support of the generated typed-flow PTG programs of C18
 * (checks/C18.py writes the JDF; harness/reshape_driver.c is the main program).
 *
 * Every BODY of a generated JDF is the single call
 *
 *     RS_BODY(this_task, CLS, k, r, _f_A, MODIFY);
 *
 * CLS   class number of the case, (k, r) the instance,
 * _f_A  the parsec_data_copy_t the runtime handed to the body for its flow A,
 * MODIFY 1: after logging, every byte of the whole tile is xor-ed with CLS+1.
 *
 * The epilogue of the JDF defines rs_case_new() which creates the taskpool and
 * stores the arena/datatypes of the driver in its arenas_datatypes[] slots.
 */
#ifndef VERIF_RESHAPE_RT_H
#define VERIF_RESHAPE_RT_H
#include <stdint.h>
#include "parsec.h"
#include "parsec/parsec_internal.h"
#include "parsec/data_internal.h"
#include "parsec/data_distribution.h"
#include "parsec/arena.h"

/* names of the shapes, in the order of the case language: 0 = none (no attribute) */
#define RS_T_NONE  0
#define RS_T_FULL  1     /* DEFAULT: the whole MB x MB tile */
#define RS_T_LOWER 2     /* lower triangle with the diagonal */
#define RS_T_UPPER 3     /* upper triangle with the diagonal */
#define RS_T_LOWS  4     /* strictly lower triangle (diag excluded) */
#define RS_T_UPPS  5     /* strictly upper triangle */
#define RS_NTYPES  6

void rs_body(parsec_task_t *t, int cls, int k, int r, parsec_data_copy_t *copy, int modify);
#define RS_BODY(T, CLS, K, R, COPY, MODIFY) rs_body((parsec_task_t *)(T), (CLS), (K), (R), (COPY), (MODIFY))
/* classes with a second data flow B (READ): logged as a 'U' line next to the 'T' line of flow A */
void rs_body2(parsec_task_t *t, int cls, int k, int r, parsec_data_copy_t *copy, int modify, parsec_data_copy_t *copyb);
#define RS_BODY2(T, CLS, K, R, COPY, MODIFY, COPYB) rs_body2((parsec_task_t *)(T), (CLS), (K), (R), (COPY), (MODIFY), (COPYB))

/* the arena/datatype of shape s (1..RS_NTYPES-1), built by the driver */
parsec_arena_datatype_t *rs_adt(int s);
/* rank that owns tile idx of the collection (table of the case) */
int rs_rank_of_tile(int idx);

/* provided by the generated program */
parsec_taskpool_t *rs_case_new(parsec_data_collection_t *D);
extern const int   rs_case_ntiles;      /* tiles of the collection */
extern const int   rs_case_mb;          /* tile is mb x mb elements */
extern const int   rs_case_esz;         /* element size in bytes: 1, 4 or 8 */
extern const int   rs_case_nclasses;
extern const int   rs_case_owner[];     /* owner rank of every tile, before the modulo by the number of ranks */

#endif
