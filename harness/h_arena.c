/* C27 harness (T-sched): the real arena chunk cache of parsec/arena.c
 * (parsec_arena_construct_ex, parsec_arena_allocate_device_private ->
 * parsec_arena_get_chunk, parsec_arena_release -> parsec_arena_release_chunk) and
 * the real thread memory pools of parsec/mempool.c / mempool.h, driven by op
 * lists, one coroutine per model thread, interleaved by the schedule of the case.
 *
 * Scheduling points: every parsec_atomic_* RMW of arena.c (interpose.h), every
 * parsec_lifo_pop / parsec_lifo_push call site of arena.c / mempool.[ch] (the two
 * macros below), and the boundary between two operations of a thread.  lifo.h is
 * included BEFORE interpose.h: the LIFO operations themselves run without
 * yielding, i.e. the LIFO is an atomic stack here (its linearizability is C30).
 *
 * A es al maxalloc maxcached mis [fx] | nfail f.. | T | ops(t0) | .. | ops(T-1) | sched     (fx: model variant, ignored here)
 *     ops: 1 cnt = get cnt elements, 2 k = release k-th held block, 3 k u = give k-th held block to thread u
 *     the n-th allocator call returns an address = (mis*(n+1)) mod 4096 (mod 4096), NULL when n is in f..
 * M eltsize cls | T | ops(t0) | .. | sched
 *     ops: 1 = allocate from own thread pool, 2 k = free k-th held element, 3 k u = give
 * Blocks are named by small ids: arena = sequence number of the allocator call,
 * mempool = order of first appearance.  Addresses are never printed. */
#include "parsec/parsec_config.h"
#include "parsec/class/lifo.h"
#include "interpose.h"
#include "cosched.h"
#define parsec_lifo_pop(l)     (cos_yield(), parsec_lifo_pop(l))
#define parsec_lifo_push(l, i) (cos_yield(), parsec_lifo_push(l, i))
#include "parsec/arena.c"
#include "parsec/mempool.c"
#include "hcommon.h"
#include <malloc.h>

#define MAXB 8192
#define MAXOPS 256
#define GUARD 64
static struct blk_s { char *raw, *p; size_t size, tag; long cnt; int live, holder; } B[MAXB];   /* tag = tagged bytes of the data region */
static int ncalls, nfails, nfreed, freed[MAXB];
static long fails[256], mis;
static long cur_cnt[COS_MAX];
static int ndup, nbad;

static parsec_arena_t arena;
static long ES, AL;

/* the allocator given to the arena (arena->data_malloc / data_free are public hooks) */
static void *h_alloc(size_t size) {
    int n = ncalls++;
    if (n >= MAXB) { nbad++; return NULL; }
    B[n].size = size; B[n].live = 0; B[n].holder = -1; B[n].raw = NULL;
    for (int i = 0; i < nfails; i++) if (fails[i] == n) return NULL;
    size_t off = (size_t)((mis * (long)(n + 1)) % 4096);
    size_t tot = ((off + size + GUARD + 4095) / 4096) * 4096;
    char *raw = NULL;
    if (posix_memalign((void **)&raw, 4096, tot)) { nbad++; return NULL; }
    memset(raw, 0xA5, tot);
    B[n].raw = raw; B[n].p = raw + off; B[n].live = 1;
    B[n].cnt = cos_self() >= 0 ? cur_cnt[cos_self()] : 1;
    memset(B[n].p, 0, size);
    return B[n].p;
}
static int blk_of(void *p) { for (int n = 0; n < ncalls; n++) if (B[n].live && B[n].p == (char *)p) return n; return -1; }
static void guards(int n) {
    size_t off = (size_t)(B[n].p - B[n].raw);
    for (size_t i = 0; i < off; i++) if ((unsigned char)B[n].raw[i] != 0xA5) { nbad++; break; }
    for (size_t i = 0; i < GUARD; i++) if ((unsigned char)B[n].p[B[n].size + i] != 0xA5) { nbad++; break; }
}
static void h_free(void *p) {
    int n = blk_of(p);
    if (n < 0) { nbad++; return; }            /* free of something that is not a live block */
    if (B[n].holder >= 0) ndup++;              /* freed while somebody holds it */
    guards(n);
    B[n].live = 0; freed[nfreed++] = n;
    /* the memory itself is kept until the end of the case (B[n].raw): a stale pointer to it cannot crash the harness */
}

/* ---- per-thread programs ---------------------------------------------- */
static long ops[COS_MAX][MAXOPS][3]; static int nops[COS_MAX];
static char logbuf[COS_MAX][MAXOPS * 48]; static int loglen[COS_MAX];
static int held[COS_MAX][MAXOPS + 8], nheld[COS_MAX], NT;
static void *heldp[COS_MAX][MAXOPS + 8];
#define LOG(t, ...) (loglen[t] += snprintf(logbuf[t] + loglen[t], sizeof(logbuf[t]) - loglen[t], __VA_ARGS__))

static int region_is(unsigned char *p, size_t n, unsigned char v) { for (size_t i = 0; i < n; i++) if (p[i] != v) return 0; return 1; }
static void drop_held(int t, int k) {
    for (int i = k; i + 1 < nheld[t]; i++) { held[t][i] = held[t][i + 1]; heldp[t][i] = heldp[t][i + 1]; }
    nheld[t]--;
}
static void give(int t, int k, int u) {
    int id = held[t][k]; void *p = heldp[t][k];
    drop_held(t, k);
    held[u][nheld[u]] = id; heldp[u][nheld[u]] = p; nheld[u]++;
}

static void athread(void *arg) {
    int t = (int)(intptr_t)arg;
    for (int i = 0; i < nops[t]; i++) {
        if (i) cos_yield();
        long *o = ops[t][i];
        if (o[0] == 1) {
            long cnt = o[1] < 1 ? 1 : o[1];
            parsec_data_copy_t copy; parsec_data_t data; parsec_datatype_t dtt;
            memset(&copy, 0, sizeof(copy)); memset(&data, 0, sizeof(data)); memset(&dtt, 0, sizeof(dtt));
            copy.original = &data; copy.device_index = 0;
            cur_cnt[t] = cnt;
            int rc = parsec_arena_allocate_device_private(&copy, &arena, (size_t)cnt, 0, dtt);
            if (rc != PARSEC_SUCCESS) { LOG(t, " n"); continue; }
            parsec_arena_chunk_t *ch = copy.arena_chunk;
            int id = blk_of(ch);
            if (id < 0) { nbad++; LOG(t, " g?"); continue; }
            unsigned char *d = (unsigned char *)copy.device_private;
            if (ch->data != (void *)d || ch->origin != &arena || (long)ch->count != cnt) nbad++;
            if ((size_t)data.span != (size_t)cnt * (size_t)ES) nbad++;
            if ((uintptr_t)d % (uintptr_t)AL) nbad++;                                           /* aligned as requested */
            if ((char *)d < (char *)ch + sizeof(parsec_arena_chunk_t)) nbad++;                  /* header not overlapped */
            size_t tag = (size_t)(cnt * ES);
            if ((char *)d + cnt * ES > B[id].p + B[id].size) {                                 /* at least as large as asked */
                nbad++;
                tag = ((char *)d < B[id].p + B[id].size) ? (size_t)(B[id].p + B[id].size - (char *)d) : 0;
            }
            /* ownership tag: the whole data region must be free (0) and becomes t+1 */
            if (B[id].holder >= 0 || !region_is(d, tag, 0)) ndup++;
            memset(d, t + 1, tag);
            B[id].tag = tag;
            B[id].holder = t; B[id].cnt = cnt;
            held[t][nheld[t]] = id; heldp[t][nheld[t]] = ch; nheld[t]++;
            LOG(t, " g%d/%ld/%ld/%zu", id, cnt, (long)((char *)d - (char *)ch), B[id].size);
        } else if (o[0] == 2) {
            int k = (int)o[1];
            if (k < 0 || k >= nheld[t]) { LOG(t, " x"); continue; }
            int id = held[t][k]; parsec_arena_chunk_t *ch = heldp[t][k];
            if (B[id].holder != t || !region_is(ch->data, B[id].tag, (unsigned char)(t + 1))) ndup++;
            memset(ch->data, 0, B[id].tag);
            B[id].holder = -1;
            drop_held(t, k);
            parsec_data_copy_t copy; memset(&copy, 0, sizeof(copy));
            copy.original = NULL; copy.arena_chunk = ch;
            parsec_arena_release(&copy);
            LOG(t, " k");
        } else {
            int k = (int)o[1], u = (int)o[2];
            if (k < 0 || k >= nheld[t] || u < 0 || u >= NT) { LOG(t, " x"); continue; }
            int id = held[t][k]; parsec_arena_chunk_t *ch = heldp[t][k];
            /* retag for the new holder */
            if (B[id].holder != t) ndup++;
            memset(ch->data, u + 1, B[id].tag);
            B[id].holder = u;
            give(t, k, u);
            LOG(t, " k");
        }
    }
}

/* ---- mempool ------------------------------------------------------------ */
typedef struct helt_s { parsec_list_item_t item; parsec_thread_mempool_t *owner; unsigned char payload[]; } helt_t;
static parsec_mempool_t mp;
static void *E[MAXB]; static int eholder[MAXB], nE; static long ESZ;
static int elt_of(void *p) { for (int i = 0; i < nE; i++) if (E[i] == p) return i; return -1; }

static void mthread(void *arg) {
    int t = (int)(intptr_t)arg;
    for (int i = 0; i < nops[t]; i++) {
        if (i) cos_yield();
        long *o = ops[t][i];
        if (o[0] == 1) {
            helt_t *e = (helt_t *)parsec_thread_mempool_allocate(&mp.thread_mempools[t]);
            if (NULL == e) { nbad++; LOG(t, " n"); continue; }
            size_t pay = (size_t)ESZ - sizeof(helt_t);
            int id = elt_of(e);
            if (id < 0) {                          /* first appearance: a new element */
                id = nE++; E[id] = e; eholder[id] = -1;
                memset(e->payload, 0, pay);
                if (malloc_usable_size(e) < (size_t)ESZ) nbad++;                   /* at least as large as asked */
            }
            if ((uintptr_t)e % sizeof(void *)) nbad++;                             /* LIFO alignment */
            if (eholder[id] >= 0 || !region_is(e->payload, pay, 0)) ndup++;
            memset(e->payload, t + 1, pay);
            eholder[id] = t;
            int own = -1;
            for (int q = 0; q < NT; q++) if (e->owner == &mp.thread_mempools[q]) own = q;
            held[t][nheld[t]] = id; heldp[t][nheld[t]] = e; nheld[t]++;
            LOG(t, " g%d/%d", id, own);
        } else if (o[0] == 2) {
            int k = (int)o[1];
            if (k < 0 || k >= nheld[t]) { LOG(t, " x"); continue; }
            int id = held[t][k]; helt_t *e = heldp[t][k];
            size_t pay = (size_t)ESZ - sizeof(helt_t);
            if (eholder[id] != t || !region_is(e->payload, pay, (unsigned char)(t + 1))) ndup++;
            memset(e->payload, 0, pay);
            eholder[id] = -1;
            drop_held(t, k);
            parsec_mempool_free(&mp, e);
            LOG(t, " k");
        } else {
            int k = (int)o[1], u = (int)o[2];
            if (k < 0 || k >= nheld[t] || u < 0 || u >= NT) { LOG(t, " x"); continue; }
            int id = held[t][k]; helt_t *e = heldp[t][k];
            if (eholder[id] != t) ndup++;
            memset(e->payload, u + 1, (size_t)ESZ - sizeof(helt_t));
            eholder[id] = u;
            give(t, k, u);
            LOG(t, " k");
        }
    }
}

/* ---- common ------------------------------------------------------------- */
static int parse_ops(char **p, int t, int arena_mode) {
    static long v[4 * MAXOPS];
    int k = hc_ints(p, v, 4 * MAXOPS), q = 0, n = 0;
    while (q < k && n < MAXOPS) {
        long c = v[q];
        int need = (c == 1) ? (arena_mode ? 2 : 1) : (c == 2 ? 2 : (c == 3 ? 3 : 0));
        if (!need || q + need > k) break;
        ops[t][n][0] = c; ops[t][n][1] = need > 1 ? v[q + 1] : 0; ops[t][n][2] = need > 2 ? v[q + 2] : 0;
        q += need; n++;
    }
    nops[t] = n;
    return n;
}
static int lifo_ids(parsec_lifo_t *l, int *out, int max, int arena_mode) {
    int n = 0;
    for (parsec_list_item_t *it = l->lifo_head.data.item; it != NULL && n < max; it = (parsec_list_item_t *)it->list_next)
        out[n++] = arena_mode ? blk_of(it) : elt_of(it);
    return n;
}
static long mx_used, mx_rel, mx_lifo, mx_live;
static int tmpids[MAXB];
static void sample(void) {
    long live = 0;
    for (int n = 0; n < ncalls; n++) if (B[n].live) live += B[n].cnt;
    int ll = lifo_ids(&arena.area_lifo, tmpids, MAXB, 1);
    if (arena.used > mx_used) mx_used = arena.used;
    if (arena.released > mx_rel) mx_rel = arena.released;
    if (ll > mx_lifo) mx_lifo = ll;
    if (live > mx_live) mx_live = live;
}
/* the schedule, then round-robin completion (cos_run with a sampling hook) */
static int run(const long *sched, int ns, long maxrounds, int do_sample) {
    for (int i = 0; i < ns; i++) if (cos_step((int)sched[i]) && do_sample) sample();
    long k = 0;
    while (!cos_all_done()) {
        for (int t = 0; t < cos_n; t++) if (cos_step(t) && do_sample) sample();
        if (++k > maxrounds) return 1;
    }
    return 0;
}
static void print_ids(const int *a, int n) { for (int i = 0; i < n; i++) printf("%s%d", i ? " " : "", a[i]); }

int main(int argc, char **argv) {
    FILE *f = hc_open(argc, argv); char *l;
    static long v[64], sched[1 << 16];
    while ((l = hc_next(f))) {
        char *p = l + 1; int k;
        int arena_mode = (l[0] == 'A');
        if (l[0] != 'A' && l[0] != 'M') { printf("<bad case>\n"); continue; }
        memset(nops, 0, sizeof(nops)); memset(nheld, 0, sizeof(nheld)); memset(loglen, 0, sizeof(loglen));
        for (int t = 0; t < COS_MAX; t++) logbuf[t][0] = 0;
        ndup = nbad = 0;
        if (arena_mode) {
            k = hc_ints(&p, v, 64);
            if (k < 5) { printf("<bad case>\n"); continue; }
            ES = v[0]; AL = v[1]; mis = v[4];
            long maxalloc = v[2], maxcached = v[3];
            k = hc_ints(&p, v, 64);
            nfails = k > 0 ? (int)v[0] : 0; if (nfails > k - 1) nfails = k - 1; if (nfails < 0) nfails = 0;
            for (int i = 0; i < nfails; i++) fails[i] = v[1 + i];
            k = hc_ints(&p, v, 64); NT = k > 0 ? (int)v[0] : 0;
            if (NT < 0 || NT > COS_MAX) { printf("<bad case>\n"); continue; }
            for (int t = 0; t < NT; t++) parse_ops(&p, t, 1);
            int ns = hc_ints(&p, sched, 1 << 16);
            printf("A hdr=%zu li=%zu", sizeof(parsec_arena_chunk_t), sizeof(parsec_list_item_t));
            memset(&arena, 0, sizeof(arena));
            PARSEC_OBJ_CONSTRUCT(&arena, parsec_arena_t);
            int rc = parsec_arena_construct_ex(&arena, (size_t)ES, (size_t)AL, (size_t)maxalloc, (size_t)maxcached);
            if (rc != PARSEC_SUCCESS) { printf(" rc=bad\n"); continue; }
            arena.data_malloc = h_alloc; arena.data_free = h_free;
            ncalls = nfreed = 0; mx_used = mx_rel = mx_lifo = mx_live = 0;
            cos_reset();
            for (int t = 0; t < NT; t++) cos_spawn(athread, (void *)(intptr_t)t);
            int dl = run(sched, ns, 10000, 1);
            printf(" rc=0 mu=%d mr=%d", arena.max_used, arena.max_released);
            for (int t = 0; t < NT; t++) printf(" | t%d:%s", t, logbuf[t]);
            printf(" | held:");
            for (int t = 0; t < NT; t++) { printf(" ["); print_ids(held[t], nheld[t]); printf("]"); }
            int ll = lifo_ids(&arena.area_lifo, tmpids, MAXB, 1);
            printf(" | used=%d rel=%d lifo=[", arena.used, arena.released); print_ids(tmpids, ll);
            printf("] allocs=%d freed=[", ncalls); print_ids(freed, nfreed);
            printf("] | max used=%ld rel=%ld lifo=%ld live=%ld | steps:", mx_used, mx_rel, mx_lifo, mx_live);
            for (int t = 0; t < NT; t++) printf(" %d", cos_steps[t]);
            /* final ownership audit: every held block still carries its holder's tag, no block is held twice */
            for (int t = 0; t < NT; t++) for (int i = 0; i < nheld[t]; i++) {
                int id = held[t][i]; parsec_arena_chunk_t *ch = heldp[t][i];
                if (!B[id].live || B[id].holder != t || !region_is(ch->data, B[id].tag, (unsigned char)(t + 1))) ndup++;
                for (int u = 0; u < NT; u++) for (int j = 0; j < nheld[u]; j++) if ((u != t || j != i) && held[u][j] == id) ndup++;
                for (int j = 0; j < ll; j++) if (tmpids[j] == id) ndup++;
            }
            for (int n = 0; n < ncalls; n++) if (B[n].live) guards(n);
            printf(" | dup=%d bad=%d%s\n", ndup ? 1 : 0, nbad ? 1 : 0, dl ? " <deadlock>" : "");
            /* tear down: held blocks go back through the arena, then the arena frees its cache */
            for (int n = 0; n < ncalls; n++) if (B[n].live) B[n].holder = -1;
            for (int t = 0; t < NT; t++) for (int i = 0; i < nheld[t]; i++) h_free(heldp[t][i]);
            PARSEC_OBJ_DESTRUCT(&arena);
            for (int n = 0; n < ncalls && n < MAXB; n++) { free(B[n].raw); B[n].raw = NULL; B[n].live = 0; }
        } else {
            k = hc_ints(&p, v, 64);
            if (k < 2) { printf("<bad case>\n"); continue; }
            long esz = v[0], cls = v[1];
            k = hc_ints(&p, v, 64); NT = k > 0 ? (int)v[0] : 0;
            if (NT < 0 || NT > COS_MAX || esz < (long)sizeof(helt_t) + 1) { printf("<bad case>\n"); continue; }
            for (int t = 0; t < NT; t++) parse_ops(&p, t, 0);
            int ns = hc_ints(&p, sched, 1 << 16);
            parsec_mempool_construct(&mp, cls ? PARSEC_OBJ_CLASS(parsec_list_item_t) : NULL, (size_t)esz,
                                     offsetof(helt_t, owner), (unsigned int)NT);
            ESZ = (long)mp.elt_size; nE = 0;
            cos_reset();
            for (int t = 0; t < NT; t++) cos_spawn(mthread, (void *)(intptr_t)t);
            int dl = run(sched, ns, 10000, 0);
            printf("M li=%zu esz=%zu", sizeof(parsec_list_item_t), mp.elt_size);
            for (int t = 0; t < NT; t++) printf(" | t%d:%s", t, logbuf[t]);
            printf(" | held:");
            for (int t = 0; t < NT; t++) { printf(" ["); print_ids(held[t], nheld[t]); printf("]"); }
            printf(" | pools:");
            for (int t = 0; t < NT; t++) {
                int ll = lifo_ids(&mp.thread_mempools[t].mempool, tmpids, MAXB, 0);
                printf(" ["); print_ids(tmpids, ll); printf("]");
                for (int j = 0; j < ll; j++) {
                    if (tmpids[j] < 0) { nbad++; continue; }
                    if (eholder[tmpids[j]] >= 0) ndup++;                               /* pooled and held */
                    if (((helt_t *)E[tmpids[j]])->owner != &mp.thread_mempools[t]) nbad++;   /* returned to a pool that is not its owner's */
                }
            }
            printf(" | nbelt:");
            for (int t = 0; t < NT; t++) printf(" %u", mp.thread_mempools[t].nb_elt);
            for (int t = 0; t < NT; t++) for (int i = 0; i < nheld[t]; i++) {
                int id = held[t][i]; helt_t *e = heldp[t][i];
                if (eholder[id] != t || !region_is(e->payload, (size_t)ESZ - sizeof(helt_t), (unsigned char)(t + 1))) ndup++;
                for (int u = 0; u < NT; u++) for (int j = 0; j < nheld[u]; j++) if ((u != t || j != i) && held[u][j] == id) ndup++;
            }
            /* elements still held are given back so that destruct frees everything */
            for (int t = 0; t < NT; t++) for (int i = 0; i < nheld[t]; i++) parsec_mempool_free(&mp, heldp[t][i]);
            uint64_t usage = parsec_mempool_destruct(&mp);
            printf(" | elts=%d usage=%llu | steps:", nE, (unsigned long long)usage);
            for (int t = 0; t < NT; t++) printf(" %d", cos_steps[t]);
            printf(" | dup=%d bad=%d%s\n", ndup ? 1 : 0, nbad ? 1 : 0, dl ? " <deadlock>" : "");
        }
    }
    return 0;
}
